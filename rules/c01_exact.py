"""C01-D6 — exact per-instruction semantics: extracted final-state terms == symbolic reference model."""
from . import z80common as zc
from .c10 import decide2
from oracle import z80 as oz
from oracle import z80sem as sem
from zx import term as tm
from zx.term import K, T
from zx import cpu
from zx import cec

REFUTE_ROWS_LOG2 = [20]

ROLES8 = ["A", "F", "B", "C", "D", "E", "H", "L", "IXH", "IXL", "IYH", "IYL", "I", "R", "A'", "F'", "B'", "C'", "D'", "E'", "H'", "L'", "Q", "LAST_Q"]


def under(p, t):
    return tm.subst(t, p.facts) if isinstance(t, T) and p.facts and not t.is_const() else t


def check_equal(p, got, want, max_bits=18):
    """True / False (with tm.equiv.witness) / None"""
    g, w = under(p, got), under(p, want)
    if g is w:
        return True
    if not (isinstance(g, T) and isinstance(w, T)) or g.bits != w.bits:
        return False
    r = tm.equiv(g, w, max_bits=max_bits)
    if r is False and p.facts:
        # the path was taken under branch conditions: compare only on the inputs that satisfy them
        cons = [(t, v.val) for t, v in p.facts.items() if not t.is_const()]
        for t, vals in p.nfacts.items():
            for v in vals:
                cons.append((tm.cmp("eq", t, K(v, t.bits)), 0))
        r = tm.equiv(g, w, max_bits=max_bits, constraints=cons)
    if r is None:
        # wide adders: ripple-carry normal form + cut points (zx/cec.py); proves equality or stays undecided
        r = cec.equiv_cut(g, w, max_bits=max_bits, constraints=path_constraints(p))
    if r is None:
        # still open: look for a concrete input separating the two terms (a hit is definitive, a miss is not)
        r = cec.refute(g, w, constraints=path_constraints(p), rows_log2=REFUTE_ROWS_LOG2[0])
    return r


def path_constraints(p):
    if not p.facts and not p.nfacts:
        return None
    cons = [(t, v.val) for t, v in p.facts.items() if not t.is_const()]
    for t, vals in p.nfacts.items():
        for v in vals:
            cons.append((tm.cmp("eq", t, K(v, t.bits)), 0))
    return cons


def describe_witness(g=None, w_=None):
    w = tm.equiv.witness
    if not w:
        return ""
    env = dict((k, v) for k, v in w.items() if not k.startswith("_"))
    ins = ", ".join("%s=0x%X" % (k, v) for k, v in sorted(env.items()))
    got, want = w.get("_got", 0), w.get("_want", 0)
    if isinstance(g, T) and isinstance(w_, T):
        try:
            got, want = tm.evaluate(g, env), tm.evaluate(w_, env)
        except Exception:
            pass
    return " (e.g. %s: emulator 0x%X, Z80 0x%X)" % (ins, got, want)


def run_exact(chk, prog, tier):
    n_enc = n_cmp = n_und = n_ok = 0
    REFUTE_ROWS_LOG2[0] = 24 if tier == "thorough" else 20
    und = []
    for group, opc in oz.all_encodings():
        if oz.timing(group, opc) is None:
            continue
        if group in ("dd", "fd") and opc in (0xDD, 0xED, 0xFD):
            continue
        name = zc.enc_name(group, opc)
        kname = name.replace(" ", "_")
        variants = sem.execute(group, opc)
        if variants is None:
            continue
        n_enc += 1
        paths = zc.explore(prog, group, opc)
        for p in paths:
            if p.outcome != "return":
                continue
            # choose the reference variant this path corresponds to
            env = {}
            chosen = []
            for (vn, pred, st) in variants:
                if pred is None:
                    chosen.append((vn, st))
                    continue
                d = decide2(p, under(p, pred(env)))
                if d is True:
                    chosen.append((vn, st))
                elif d is None:
                    chosen.append((vn, None))
            if len(chosen) != 1 or chosen[0][1] is None:
                chk.fail("D6/Z80::emulate/%s/variant" % kname, "encoding %s: a path does not decide the documented condition of its variants (%s): %s" % (
                    name, [v[0] for v in variants], [c[:3] for c in p.pc][:4]))
                continue
            vn, st = chosen[0]
            fin = zc.final_cpu(prog, p)
            ev, side = zc.events_of(p)
            # ---- bus events: order, kind, address, data
            got_ev = [e for e in ev if e[0] in ("R", "W", "IOR", "IOW")]
            ok = len(got_ev) == len(st.events)
            if ok:
                for g, w in zip(got_ev, st.events):
                    if g[0] != w[0] or check_equal(p, g[1], w[1]) is not True:
                        ok = False
                        break
                    if w[0] in ("W", "IOW"):
                        data = g[3] if g[0] == "W" else g[2]
                        r = check_equal(p, data, w[2])
                        if r is None:
                            chk.open_("D6/Z80::emulate/%s/bus-data" % kname, "encoding %s: written data undecided" % name)
                        if r is False:
                            ok = False
                            break
            if not ok:
                chk.fail("D6/Z80::emulate/%s/bus" % kname, "encoding %s (%s): memory/port accesses differ from the Z80: emulator [%s], Z80 [%s]%s" % (
                    name, vn, ", ".join(show_ev(e) for e in got_ev), ", ".join(show_ev(e) for e in st.events), describe_witness()))
                continue
            # ---- registers
            want = dict(st.r)
            want.update({"PC": st.PC, "SP": st.SP, "MEMPTR": st.MEMPTR, "IFF1": st.IFF1, "IFF2": st.IFF2})
            repeat_flags = getattr(st, "repeat_flags", False)
            bad = None
            for role, w in want.items():
                g = fin.get(role)
                if g is None:
                    continue
                if role in ("F", "Q") and repeat_flags:
                    continue
                n_cmp += 1
                r = check_equal(p, g, w)
                if r is None and tier == "thorough":
                    r = check_equal(p, g, w, max_bits=22)
                if r is True:
                    n_ok += 1
                    continue
                if r is None:
                    n_und += 1
                    und.append("%s:%s" % (name, role))
                    chk.open_("D6/Z80::emulate/%s/%s" % (kname, role.replace("'", "_alt")),
                              "encoding %s (%s): equality of %s with the Z80 reference is undecided (support too large for the finite-domain comparison, cut points did not help)" % (name, vn, role))
                    continue
                bad = (role, g, w, describe_witness(under(p, g), under(p, w)))
                break
            if bad:
                role, g, w, wit = bad
                chk.fail("D6/Z80::emulate/%s/%s" % (kname, role.replace("'", "_alt")),
                         "encoding %s (%s): %s after the instruction is %s; Z80: %s%s" % (name, vn, role, short(under(p, g)), short(under(p, w)), wit))
                continue
            # ---- control state
            hv = fin["halted"]
            okc = True
            if st.halted is True:
                okc = hv is tm.TRUE
            else:
                okc = isinstance(hv, T) and hv.op == "sym"   # untouched
            sk = fin["skip_interrupt"]
            okc = okc and (sk is (tm.TRUE if st.ei_di else tm.FALSE))
            if st.im is not None:
                okc = okc and fin["int_mode"] == "Im%d" % st.im
            else:
                okc = okc and str(fin["int_mode"]).startswith("unchanged")
            halts = [s for s in side if s[0] == "halt"]
            retis = [s for s in side if s[0] == "reti"]
            okc = okc and (len(halts) == (1 if st.halted else 0)) and (len(retis) == (1 if st.reti else 0))
            chk.check(okc, "D6/Z80::emulate/%s/control" % kname, "encoding %s: HALT / EI-DI shadow / interrupt mode / RETI signalling differ from the Z80 (halted=%s skip=%s im=%s)" % (
                name, hv, sk, fin["int_mode"]))
    chk.ok(n_ok)
    chk.count("exact-encodings", n_enc)
    chk.count("exact-equalities-proved", n_ok)
    for k, v in cec.stats.items():
        chk.count("cec-" + k, v)
    chk.count("exact-register-comparisons", n_cmp)
    chk.count("exact-undecided", n_und)
    chk.floor("exact-encodings", 1750)
    chk.observe("register comparisons left undecided: %d %s" % (n_und, sorted(set(und))[:40]))
    chk.sample({"exact": {"encodings": n_enc, "comparisons": n_cmp, "undecided": n_und}})


def show_ev(e):
    if e[0] == "R":
        return "R %s" % tm.show(e[1])
    if e[0] == "W":
        return "W %s<-%s" % (tm.show(e[1]), tm.show(e[3] if len(e) > 3 else e[2]))
    if e[0] == "IOR":
        return "IN %s" % tm.show(e[1])
    return "OUT %s<-%s" % (tm.show(e[1]), tm.show(e[2]))


def short(t):
    s = tm.show(t) if isinstance(t, T) else str(t)
    return s if len(s) < 160 else s[:157] + "..."
