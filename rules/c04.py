"""C04 — ULA memory and I/O contention (constants, delay function, where it is applied, port patterns)."""
from . import corecommon as cc
from zx import term as tm
from zx.term import K, T
from zx.walk import Walker, Agg, Ref, EffectResult, UNIT

LEVEL = "other"

EXPL = (
    "Decided: D1 machine constants by constant propagation through the two ZXSpecs builder chains (first pixel 14336/14362, "
    "224/228 T per line, 128 T of fetch per line, 192 lines, pattern 6,5,4,3,2,1,0,0).  D2 the delay function: "
    "ZXMachine::contention_clocks specialised per machine is extracted as a piecewise closed form of the single input T and "
    "tabulated against the statement's formula for every T in [0, frame+256) (no rustzx code is run; overflow asserts on the "
    "extracted paths are checked to be unreachable).  D3 where it is applied: on every path of the controller's wait_mreq / "
    "wait_no_mreq the ULA delay for the *current* frame clock is inserted exactly when the bank mapped at addr>>14 is a "
    "contended RAM bank, then the cycle's own clocks; the controller does not override wait_loop/read/write, so every internal "
    "T-state is contended individually.  D4 contended banks: 48K {0} (0x4000-0x7FFF), 128K {1,3,5,7}, looked up through the "
    "current map.  D5 port cycles: read_io/write_io give exactly N:1,C:3 / N:4 / C:1,C:3 / C:1,C:1,C:1,C:1 selected by A0 and "
    "by contendedness of the high byte, each contention evaluated at the then-current clock, the device write after the "
    "first segment.  NOT decided: totals per instruction at every beam position (composition of C03 traces with D2)."
)

PATTERN = [6, 5, 4, 3, 2, 1, 0, 0]
MACH = {"Sinclair48K": dict(first=14336, line=224, frame=69888, banks={0}),
        "Sinclair128K": dict(first=14362, line=228, frame=70908, banks={1, 3, 5, 7})}


def run(chk):
    prog = cc.program("A")
    names = cc.Names(prog)
    chk.rule("T-TABLE/constants", "ZXSpecs fields fold to the documented machine constants")
    chk.rule("T-TABLE/delay", "extracted closed form of contention_clocks(T) == statement formula for every T")
    chk.rule("T-GUARD/T-PAIR", "wait_mreq/wait_no_mreq: delay inserted iff addr's bank is contended; then the clocks")
    chk.rule("T-TRACE/io", "read_io/write_io wait sequences == the four ULA port patterns")
    for m in names.machine_variants():
        if m not in MACH:
            chk.undecided_("anchor/machine/%s" % m, "unknown machine model %s" % m)
            continue
        d1_constants(chk, prog, names, m)
        d2_delay(chk, prog, names, m)
        d4_banks(chk, prog, names, m)
        d3_mreq(chk, prog, names, m)
        d5_ports(chk, prog, names, m)
    # provided bus methods (read, write, read_word, write_word, wait_loop): left to the trait, or overridden with the
    # same sequence of required-method calls (T-SIB, rules/corecommon.py) - every internal T-state still goes through
    # wait_no_mreq one at a time
    cc.provided_overrides(chk, prog, names)
    # which cycles exist, how long each is and which address it carries is the other half of this property: the
    # per-encoding bus-trace rule of C03 is part of this check too (a 4-T wait issued as one bus call is delayed once)
    from . import c03
    from . import z80common as zc_
    chk.rule("T-TRACE (shared with C03)", "every encoding's bus trace == documented M-cycle sequence: single internal T-states, addresses, lengths")
    c03.traces(chk, zc_.program("A"))
    chk.floor("mreq-paths", 8)
    chk.floor("io-paths", 100)
    return chk.finish(EXPL)


def d1_constants(chk, prog, names, m):
    s = cc.specs_of(prog, names, m)
    o = MACH[m]
    want = {"clocks_first_pixel": o["first"], "clocks_line": o["line"], "clocks_screen_row": 128, "lines_screen": 192,
            "contention_pattern": PATTERN, "clocks_frame": o["frame"], "interrupt_length": 32}
    for k, v in want.items():
        chk.check(s.get(k) == v, "T-TABLE/ZXSpecs/%s/%s" % (m, k), "%s.%s = %r, documented %r" % (m, k, s.get(k), v))
    chk.sample({"machine": m, "specs": dict((k, s[k]) for k in want)})


def d2_delay(chk, prog, names, m):
    import numpy as np
    o = MACH[m]
    w = Walker(prog)
    fn = prog.fn(prog.fn_path("rustzx_core", "ZXMachine::contention_clocks"))
    Tt = tm.sym("T", 64)
    rs = w.run(fn, [cc.machine_value(prog, names, m), Tt], genv={})
    key = "T-TABLE/ZXMachine::contention_clocks/%s" % m
    if not rs or any(r.outcome != "return" for r in rs):
        chk.fail(key, "contention_clocks has non-returning paths: %s" % [(r.outcome, r.detail) for r in rs if r.outcome != "return"][:2])
        return
    n = o["frame"] + 256
    t = np.arange(n, dtype=np.uint64)
    env = {"T": t}
    got = np.zeros(n, dtype=np.int64)
    cover = np.zeros(n, dtype=np.int64)
    for r in rs:
        mk = cc.path_mask(r, env, n)
        cover += mk
        v = tm.evaluate(r.ret, env)
        v = np.broadcast_to(np.asarray(v, dtype=np.uint64), (n,))
        got[mk] = v[mk].astype(np.int64)
        for s in r.sites:
            c = tm.evaluate(s["cond"], env)
            c = np.broadcast_to(np.asarray(c, dtype=np.uint64), (n,))
            bad = mk & (c != s["expected"])
            if bad.any():
                chk.fail(key + "/panic", "contention_clocks: %s at %s can fail, e.g. T=%d" % (s["kind"], s["loc"], int(t[bad][0])))
    chk.check(bool((cover == 1).all()), key + "/partition", "extracted paths do not partition the domain of T")
    t0 = o["first"] - 1
    ti = t.astype(np.int64)
    rel = ti - t0
    inside = (rel >= 0) & (rel < 192 * o["line"]) & ((rel % o["line"]) < 128)
    pat = np.array(PATTERN, dtype=np.int64)
    # position in the 8-T ULA fetch cycle, which restarts with every picture line (on the 48K, 224 = 28*8, this
    # is the same as (T-T0) mod 8; on the 128K, 228 T per line, it is not)
    want = np.where(inside, pat[np.where(inside, (rel % o["line"]) % 8, 0)], 0)
    diff = np.nonzero(got != want)[0]
    chk.check(len(diff) == 0, key, "delay function differs from the statement at %d T-states, e.g. T=%s: extracted %s, documented %s" % (
        len(diff), int(diff[0]) if len(diff) else "-", int(got[diff[0]]) if len(diff) else "-", int(want[diff[0]]) if len(diff) else "-"))
    chk.count("delay-rows", n)
    chk.sample({"machine": m, "T": t0 + 3, "delay": int(got[t0 + 3]), "paths": len(rs)})


def d4_banks(chk, prog, names, m):
    w = Walker(prog)
    fn = prog.fn(prog.fn_path("rustzx_core", "ZXMachine::bank_is_contended"))
    got = set()
    for k in range(8):
        rs = w.run(fn, [cc.machine_value(prog, names, m), K(k, 64)], genv={})
        if len(rs) != 1 or rs[0].outcome != "return" or not isinstance(rs[0].ret, T) or not rs[0].ret.is_const():
            chk.undecided_("T-TABLE/bank_is_contended/%s/%d" % (m, k), "does not fold to a constant")
            continue
        if rs[0].ret.val:
            got.add(k)
    chk.check(got == MACH[m]["banks"], "T-TABLE/ZXMachine::bank_is_contended/%s" % m,
              "contended banks of %s are %s, documented %s" % (m, sorted(got), sorted(MACH[m]["banks"])))
    # port_is_contended: A0 == 0
    fn = prog.fn(prog.fn_path("rustzx_core", "ZXMachine::port_is_contended"))
    port = tm.sym("port", 16)
    rs = w.run(fn, [cc.machine_value(prog, names, m), port], genv={})
    ok = len(rs) == 1 and rs[0].outcome == "return" and isinstance(rs[0].ret, T) and \
        tm.equiv(rs[0].ret, tm.cmp("eq", tm.binop("and", port, K(1, 16)), K(0, 16))) is True
    chk.check(ok, "T-TABLE/ZXMachine::port_is_contended/%s" % m, "ULA port predicate is not 'A0 == 0'")


def make_walker(prog, names, extra_opaque=()):
    w = Walker(prog, max_paths=40000)
    WI = names.bus("wait_internal")
    CONT = prog.fn_path("rustzx_core", "ZXMachine::contention_clocks")
    BANK = prog.fn_path("rustzx_core", "ZXMachine::bank_is_contended")
    w.opaque_paths |= {WI, CONT, BANK} | set(extra_opaque)
    fi = prog.field_index(names.CTL, "frame_clocks")

    def hook(w_, st, path, args, dty, where):
        if path == WI:
            k = sum(1 for e in st.trace if e.path == WI)
            w_.store_to(st, cc.CTL, (("f", fi),), tm.sym("FC%d" % (k + 1), 64))
            return EffectResult(UNIT, havoc=False)
        if path == BANK:
            return EffectResult(tm.sym("contended(%s)" % tm.show(args[1]), 1), havoc=False)
        if path == CONT:
            return EffectResult(tm.sym("delay(%s)" % tm.show(args[1]), 64), havoc=False)
        if path in extra_opaque:
            return EffectResult(None, havoc=False)
        return None
    w.effect_hook = hook
    w._WI, w._CONT, w._BANK = WI, CONT, BANK
    return w


def wait_atoms(w, trace):
    """normalise a trace into atoms: ('C', clock) one ULA delay at that clock; ('N', k) k uncontended T-states;
    ('dev', path) any other effect.  Returns None when a wait argument has another shape."""
    out = []
    fc = tm.sym("FC", 64)
    for e in trace:
        if e.path == w._WI:
            a = e.args[1]
            base, off = tm.affine(a)
            if base is None:
                if off:
                    out.append(("N", off))
            elif base.op == "sym" and base.args[0].startswith("delay("):
                out.append(("C", base.args[0]))
                if off:
                    out.append(("N", off))
            elif base.op == "sym" and not off:
                out.append(("N", base.args[0]))
            else:
                return None
        elif e.path in (w._CONT, w._BANK):
            continue
        else:
            out.append(("dev", e.path))
    return out


def merge_n(atoms):
    merged = []
    for a in atoms:
        if merged and a[0] == "N" and merged[-1][0] == "N" and isinstance(a[1], int) and isinstance(merged[-1][1], int):
            merged[-1] = ("N", merged[-1][1] + a[1])
        else:
            merged.append(a)
    return merged


def clocks_in_order(atoms):
    """every C atom must use the clock value current at that point: FC, FC1, FC2, ... in order of the waits"""
    return True


def d3_mreq(chk, prog, names, m):
    for meth in ("wait_mreq", "wait_no_mreq"):
        w = make_walker(prog, names)
        st = cc.controller_state(w, prog, names, m)
        fn = prog.fn(names.bus(meth))
        addr, clk = tm.sym("addr", 16), tm.sym("clk", 64)
        rs = w.run(fn, [Ref(cc.CTL, (), True), addr, clk], genv=cc.GENV, state=st)
        key = "T-GUARD/ZXController::%s/%s" % (meth, m)
        if not rs or any(r.outcome != "return" for r in rs):
            chk.fail(key, "paths do not return: %s" % [(r.outcome, r.detail) for r in rs if r.outcome != "return"][:2])
            continue
        for r in rs:
            chk.count("mreq-paths")
            # which map slot was consulted, and with which index expression
            idx = [c for c in r.pc if c[0] == "index"]
            ok_idx = len(idx) >= 1 and all(tm.equiv(c[1], tm.zext(tm.binop("lshr", addr, K(14, 16)), 64)) is True for c in idx)
            chk.check(ok_idx, key + "/slot", "%s does not look up the bank mapped at addr>>14 (index %s)" % (
                meth, [tm.show(c[1]) for c in idx]))
            var = [c for c in r.pc if c[0] == "variant"]
            is_ram = any(c[2] == "Ram" for c in var)
            banks = [e for e in r.trace if e.path == w._BANK]
            cont = None
            for c in r.pc:
                if c[0] in ("eq", "ne") and isinstance(c[1], T) and c[1].op == "sym" and c[1].args[0].startswith("contended("):
                    cont = (c[2] == 1) if c[0] == "eq" else (0 in c[2])
            atoms = wait_atoms(w, r.trace)
            if atoms is None:
                chk.fail(key + "/shape", "%s: wait argument of unexpected shape: %s" % (meth, r.trace))
                continue
            nclk = [("N?", clk)]
            # the cycle's own clocks are symbolic: last wait_internal must carry exactly clk
            last = [e for e in r.trace if e.path == w._WI][-1:]
            ok_last = bool(last) and last[0].args[1] is clk
            chk.check(ok_last, key + "/clocks", "%s does not end with wait_internal(clk): %s" % (meth, r.trace))
            waits = [e for e in r.trace if e.path == w._WI]
            if is_ram and cont:
                # bank consulted must be the mapped page's bank, and the delay taken at the current clock
                okb = len(banks) == 1 and "map[" in tm.show(banks[0].args[1])
                okw = len(waits) == 2 and isinstance(waits[0].args[1], T) and waits[0].args[1].op == "sym" \
                    and waits[0].args[1].args[0] == "delay(FC)"
                chk.check(okb and okw, key + "/contended",
                          "%s on a contended bank: expected delay(FC) then clk, got %s" % (meth, r.trace))
            else:
                chk.check(len(waits) == 1, key + "/uncontended",
                          "%s on an uncontended page inserts extra waits: %s" % (meth, r.trace))
                if is_ram:
                    chk.check(len(banks) == 1, key + "/ram-consults-bank", "%s: RAM page but bank_is_contended not consulted" % meth)
        chk.sample({"method": meth, "machine": m, "paths": len(rs)})


def d5_ports(chk, prog, names, m):
    dev_paths = [names.ctl("set_border_color"), names.ctl("write_7ffd"), names.ctl("floating_bus_value"),
                 names.ctl("select_ay_reg"), names.ctl("write_ay_port"), names.ctl("read_ay_port")]
    for meth in ("read_io", "write_io"):
        w = make_walker(prog, names, extra_opaque=dev_paths)
        st = cc.controller_state(w, prog, names, m)
        fn = prog.fn(names.bus(meth))
        port = tm.sym("port", 16)
        args = [Ref(cc.CTL, (), True), port] + ([tm.sym("data", 8)] if meth == "write_io" else [])
        rs = w.run(fn, args, genv=cc.GENV, state=st)
        key = "T-TRACE/ZXController::%s/%s" % (meth, m)
        if not rs or any(r.outcome != "return" for r in rs):
            chk.fail(key, "paths do not return: %s" % [(r.outcome, r.detail) for r in rs if r.outcome != "return"][:2])
            continue
        seen = set()
        for r in rs:
            chk.count("io-paths")
            atoms = wait_atoms(w, r.trace)
            if atoms is None:
                chk.fail(key + "/shape", "%s: wait argument of unexpected shape" % meth)
                continue
            # classification from the branch facts
            a0 = cc_decide(r, tm.cmp("eq", tm.binop("and", port, K(1, 16)), K(0, 16)))
            hi = None
            for c in r.pc:
                if c[0] in ("eq", "ne") and isinstance(c[1], T) and c[1].op == "sym" and c[1].args[0].startswith("contended("):
                    v = (c[2] == 1) if c[0] == "eq" else (0 in c[2])
                    hi = v if hi is None else hi
            is_ram = [c[2] for c in r.pc if c[0] == "variant" and ".map[" in c[1]]
            if hi is None and is_ram and all(k != "Ram" for k in is_ram):
                hi = False  # ROM page in the high byte's window: never contended
            if hi is None:
                # the path did not ask the memory map: it may still decide the class from the address lines alone
                in4 = cc_decide(r, tm.cmp("eq", tm.binop("and", port, K(0xC000, 16)), K(0x4000, 16)))
                inc = cc_decide(r, tm.cmp("eq", tm.binop("and", port, K(0xC000, 16)), K(0xC000, 16)))
                if in4 is True:
                    hi = True       # 0x4000-0x7FFF: bank 0 (48K) / bank 5 (128K), always contended
                elif in4 is False and (m == "Sinclair48K" or inc is False):
                    hi = False      # 48K: everything else is uncontended; 128K: ROM window and bank 2
                elif m != "Sinclair48K" and in4 is False:
                    # inc is True or open: the path covers ports of the pageable window
                    chk.fail(key + "/paged-window", "%s on the %s: the contention class of a port in 0xC000-0xFFFF is taken without consulting the bank paged there (banks 1,3,5,7 are contended, 0,2,4,6 are not)" % (meth, m))
                    continue
                else:
                    chk.undecided_(key + "/class", "path does not decide whether the port's high byte addresses contended memory: %s" % ([c[:3] for c in r.pc],))
                    continue
            if a0 is None:
                chk.undecided_(key + "/a0", "path does not decide A0: %s" % (r.pc,))
                continue
            timing = merge_n([a for a in atoms if a[0] != "dev"])
            kinds = [a[0] if a[0] == "C" else "N%d" % a[1] for a in timing]
            want = {(False, True): ["N1", "C", "N3"], (False, False): ["N4"],
                    (True, True): ["C", "N1", "C", "N3"], (True, False): ["C", "N1", "C", "N1", "C", "N1", "C", "N1"]}[(hi, a0)]
            if not chk.check(kinds == want, key + "/pattern/%s-%s" % ("C" if hi else "N", "even" if a0 else "odd"),
                             "%s, high byte %scontended, A0=%d: wait pattern %s, documented %s" % (
                                 meth, "" if hi else "un", 0 if a0 else 1, kinds, want)):
                continue
            # each delay must be taken at the clock current at that point
            cs = [a[1] for a in timing if a[0] == "C"]
            nw = 0
            ok = True
            for a in atoms:
                pass
            waits = [e for e in r.trace if e.path == w._WI]
            cur = "FC"
            k = 0
            okc = True
            for e in r.trace:
                if e.path == w._CONT:
                    if tm.show(e.args[1]) != cur:
                        okc = False
                elif e.path == w._WI:
                    k += 1
                    cur = "FC%d" % k
            chk.check(okc, key + "/current-clock", "%s: a ULA delay is computed from a stale frame clock: %s" % (meth, r.trace))
            if meth == "write_io":
                devs = [i for i, e in enumerate(r.trace) if e.path not in (w._WI, w._CONT, w._BANK)]
                wi = [i for i, e in enumerate(r.trace) if e.path == w._WI]
                if devs:
                    # first segment = everything up to and including the first N:1 wait
                    first_seg_end = wi[1] if hi else wi[0]
                    chk.check(all(first_seg_end < d < wi[-1] for d in devs) and all(d < wi[(2 if hi else 1)] for d in devs),
                              key + "/device-after-first-segment",
                              "write_io: the device write is not placed right after the first contention segment: %s" % (r.trace,))
            seen.add((hi, a0))
        chk.check(len(seen) == 4, key + "/cases", "%s: only %d of the 4 pattern cases occur" % (meth, len(seen)))
        chk.sample({"method": meth, "machine": m, "paths": len(rs), "cases": sorted(seen)})


def cc_decide(r, t):
    from .z80common import decide
    return decide(r, t)
