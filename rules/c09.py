"""C09 — border colour: writers, bit provenance, beam mapping, frame completion."""
import numpy as np

from . import corecommon as cc
from . import c04
from zx import term as tm
from zx.term import K, T
from zx.walk import Walker, Agg, Ref, EffectResult, UNIT, SymObj, Opaque

LEVEL = "other"

EXPL = (
    "Decided: the reported border colour is stored only by set_border_color (ULA write, SNA loader) and the SZX SPCR "
    "loader; ZXColor::from_bits / u8::from are inverse 8-entry tables; set_border_color stores the colour and forwards the "
    "same clock and colour to the border device (the clock is the frame clock at the device write, C07/C04); "
    "next_border_pixel, extracted per machine as a piecewise closed form of the clock, is tabulated for every T of the frame "
    "against the beam position implied by the statement (2 pixels per T, 224/228 T per line, first picture pixel at "
    "14336/14362, 24 border lines and 32 border pixels before it) and stays within 16 pixels of it, retrace mapping to the "
    "start of the next line; set_border paints [last change, beam) with the colour that was current (fill_to body for a "
    "symbolic pixel index), then records the new colour; new_frame with no change recorded restarts from (0,0) and paints to "
    "the last pixel unless the frame was already completed, and resets the per-frame flags (all 4 flag combinations).  "
    "NOT decided: nothing else of the statement is left except the repaint after an SZX load (C14)."
)

W, H = 320, 240
MACH = {"Sinclair48K": (14336, 224, 69888), "Sinclair128K": (14362, 228, 70908)}


def run(chk):
    prog = cc.program("A")
    names = cc.Names(prog)
    cg, fa = cc.scans(prog)
    chk.rule("T-WRITERS", "writers of border_color")
    chk.rule("T-TABLE", "colour tables; next_border_pixel(T) within 16 px of the documented beam position for every T")
    chk.rule("T-TRACE", "set_border / new_frame / fill_to effects")
    short = lambda p: p.split("::")[-1]
    got = cc.effective_writers(prog, cg, fa, names, names.CTL, "border_color", {"set_border_color"})
    chk.check(got <= {"set_border_color", "load_snapshot"} and "set_border_color" in got, "T-WRITERS/ZXController.border_color",
              "border_color is written by %s" % sorted(got))
    callers = cc.entry_points_reaching(prog, cg, names, names.ctl("set_border_color"))
    chk.check(callers <= {"write_io", "load_snapshot"}, "T-WRITERS/ZXController::set_border_color/callers",
              "set_border_color can be reached from the API entry points %s; the property allows the ULA port write and snapshot loading" % sorted(callers))
    color_tables(chk, prog)
    set_border_color(chk, prog, names)
    sna_border(chk, prog, names)
    for m in names.machine_variants():
        beam_map(chk, prog, names, m)
    device(chk, prog, names)
    # the colour and the clock a port write hands to set_border_color: the ULA-write leaf rule of C07's decode walk
    from . import c07
    from zx.report import FilteredCheck
    chk.rule("T-BITS (shared with C07)", "on every write_io path reaching the ULA: colour = data & 7, stamped with the controller's frame clock at the device write")
    # ... and that every write to an even port does reach the border setter (the write side of the decode table)
    fc = FilteredCheck(chk, lambda k: (k.startswith("T-BITS/") and (k.endswith("/border") or k.endswith("/border-clock"))) or
                       k.startswith("T-TABLE/ZXController::write_io"), "c07")
    c07._KB.clear()
    c07._KB["prog"], c07._KB["names"] = prog, names
    for m in names.machine_variants():
        c07.decode(fc, prog, names, m, "write_io")
    chk.check(fc.forwarded >= 8, "T-BITS/ZXController::write_io/ula-paths", "only %d ULA write paths were judged" % fc.forwarded)
    return chk.finish(EXPL)


def color_tables(chk, prog):
    COLOR = prog.adt_path("rustzx_core", "ZXColor")
    fb = prog.fn(prog.fn_path("rustzx_core", "ZXColor::from_bits"))
    tb = [p for p in prog.fns if p.startswith("rustzx_core::") and "From<" in p and "ZXColor> for u8" in p and p.endswith("::from")]
    if len(tb) != 1:
        chk.undecided_("anchor/u8-from-ZXColor", "From<ZXColor> for u8 not unique: %s" % tb)
        return
    tb = prog.fn(tb[0])
    w = Walker(prog)
    for k in range(8):
        rs = w.run(fb, [K(k, 8)], genv={})
        ok = len(rs) == 1 and rs[0].outcome == "return" and isinstance(rs[0].ret, Agg)
        if ok:
            v = rs[0].ret
            ok = prog.adt(COLOR)["variants"][v.variant]["discr"] == k
            rs2 = w.run(tb, [v], genv={})
            ok = ok and len(rs2) == 1 and isinstance(rs2[0].ret, T) and rs2[0].ret.is_const() and rs2[0].ret.val == k
        chk.check(ok, "T-TABLE/ZXColor/%d" % k, "colour %d does not round-trip through from_bits / u8::from" % k)


def set_border_color(chk, prog, names):
    SB = [p for p in prog.fns if p.startswith("rustzx_core::") and p.endswith("ZXBorder::<FB>::set_border")]
    if len(SB) != 1:
        chk.undecided_("anchor/set_border", "ZXBorder::set_border: %s" % SB)
        return
    SB = SB[0]
    w = Walker(prog)
    w.opaque_paths.add(SB)
    w.effect_hook = lambda *a: EffectResult(UNIT, havoc=False)
    st = cc.controller_state(w, prog, names, "Sinclair48K")
    COLOR = prog.adt_path("rustzx_core", "ZXColor")
    col = Agg(("adt", COLOR), 3, ())
    clk = tm.sym("clk", 64)
    rs = w.run(prog.fn(names.ctl("set_border_color")), [Ref(cc.CTL, (), True), clk, col], genv=cc.GENV, state=st)
    ok = len(rs) == 1 and rs[0].outcome == "return"
    if ok:
        r = rs[0]
        e = [x for x in r.trace if x.path == SB]
        bc = r.store[cc.CTL].fields[prog.field_index(names.CTL, "border_color")]
        ok = len(e) == 1 and e[0].args[1] is clk and isinstance(e[0].args[2], Agg) and e[0].args[2].variant == 3 and isinstance(bc, Agg) and bc.variant == 3
    chk.check(ok, "T-TRACE/ZXController::set_border_color", "set_border_color does not store the colour and forward (clock, colour) to the border device")


def sna_border(chk, prog, names):
    """every successful path of sna::load (either machine; helper functions inlined by the walker) calls the repainting
    setter exactly once with ZXColor::from_bits(header[26] & 7)"""
    from . import loaders as ld
    ln = ld.LoaderNames(prog)
    COLOR = prog.adt_path("rustzx_core", "ZXColor")
    n = 0
    for m in names.machine_variants():
        size = K(49179 if m == "Sinclair48K" else 131103, 64)

        def extra(w_, st, path, args, dty, where, size=size):
            if path == ld.SEEK and not any(e.path == ld.SEEK for e in st.trace):
                return EffectResult(Agg(("adt", "core::result::Result"), 0, [size]), havoc=False)
            return None
        w = ld.make_loader_walker(prog, ln, opaque=[ln.POP, ln.REFRESH, ln.SETBORDER, ln.REMAP, ln.SWITCH, ln.RAMMUT], extra_hook=extra, loop_bound=8)
        st = ld.emulator_state(w, prog, ln, m)
        rs = ld.run_loader(prog, ln, w, "snapshot::sna::load", st)
        good = [r for r in rs if r.outcome == "return" and isinstance(r.ret, Agg) and r.ret.variant == 0]
        if not good:
            chk.undecided_("T-BITS/sna::load/%s/border" % m, "no successful load path")
            continue
        for r in good:
            sb = [e for e in r.trace if e.path == ln.SETBORDER]
            ok = len(sb) == 1 and isinstance(sb[0].args[2], Agg)
            if ok:
                dsc = prog.adt(COLOR)["variants"][sb[0].args[2].variant]["discr"]
                ok = c04.cc_decide(r, tm.cmp("eq", tm.binop("and", ld.file_sym(0, 26), K(7, 8)), K(dsc, 8))) is True
            chk.check(ok, "T-BITS/sna::load/border", "sna::load does not pass ZXColor::from_bits(header[26] & 7) to the border setter on the %s" % m)
            n += 1
    chk.count("sna-border-paths", n)
    chk.floor("sna-border-paths", 16)


def beam_map(chk, prog, names, m):
    BORDER = prog.adt_path("rustzx_core", "ZXBorder")
    FB = ("param", "FB", 0)
    first, line_len, frame = MACH[m]
    w = Walker(prog)
    st = w.new_state()
    # the border device as its constructor configures it for this machine (the model itself, or values precomputed from
    # it), everything else symbolic
    b, _cfg = cc.configured_object(prog, w, st, BORDER, (FB,), "ZXBorder::<FB>::new", [cc.machine_value(prog, names, m), Opaque("ctx")],
                                    "border", {"FB": FB})
    st.store[("h", "border")] = b
    fn = prog.fn(prog.fn_path("rustzx_core", "ZXBorder::<FB>::next_border_pixel"))
    rs = w.run(fn, [Ref(("h", "border"), (), False), tm.sym("T", 64)], genv={"FB": FB}, state=st)
    key = "T-TABLE/ZXBorder::next_border_pixel/%s" % m
    if not rs or any(r.outcome != "return" for r in rs):
        chk.fail(key + "/paths", "paths: %s" % [(r.outcome, r.detail) for r in rs if r.outcome != "return"][:3])
        return
    n = frame + 64
    t = np.arange(n, dtype=np.uint64)
    env = {"T": t}
    line = np.zeros(n, dtype=np.int64)
    pix = np.zeros(n, dtype=np.int64)
    end = np.zeros(n, dtype=np.int64)
    cover = np.zeros(n, dtype=np.int64)
    for r in rs:
        mk = cc.path_mask(r, env, n)
        cover += mk
        vals = [np.broadcast_to(np.asarray(tm.evaluate(x, env), dtype=np.uint64), (n,)).astype(np.int64) for x in r.ret.fields]
        line[mk], pix[mk], end[mk] = vals[0][mk], vals[1][mk], vals[2][mk]
        for s in r.sites:
            c = np.broadcast_to(np.asarray(tm.evaluate(s["cond"], env), dtype=np.uint64), (n,))
            bad = mk & (c != s["expected"])
            if bad.any():
                chk.fail(key + "/panic", "next_border_pixel: %s at %s can fail, e.g. T=%d" % (s["kind"], s["loc"], int(t[bad][0])))
    chk.check(bool((cover == 1).all()), key + "/partition", "paths do not partition the clock domain")
    # documented beam position: the first picture pixel (x=32,y=24 of the 320x240 frame) is drawn at T=first
    ti = t.astype(np.int64)
    origin = first - 24 * line_len - 16
    rel = ti - origin
    by = np.floor_divide(rel, line_len)
    bx = (rel - by * line_len) * 2
    before = rel < 0
    after = by >= H
    visible = (~before) & (~after) & (bx < W)
    retrace = (~before) & (~after) & (bx >= W)
    got_idx = line * W + pix
    beam_idx = by * W + bx
    bad = visible & ((end != 0) | (np.abs(got_idx - beam_idx) > 16))
    chk.check(not bad.any(), key + "/visible", "border position is more than 16 pixels from the beam at %d clocks, e.g. T=%s -> (%s,%s), beam (%s,%s)" % (
        int(bad.sum()), ti[bad][0] if bad.any() else "-", line[bad][0] if bad.any() else "-", pix[bad][0] if bad.any() else "-",
        by[bad][0] if bad.any() else "-", bx[bad][0] if bad.any() else "-"))
    nxt = (by + 1) * W
    # the last lines' retrace ends the frame
    bad = retrace & (by + 1 < H) & ((end != 0) | (np.abs(got_idx - nxt) > 16))
    chk.check(not bad.any(), key + "/retrace", "in horizontal retrace the position is not the start of the next line at %d clocks, e.g. T=%s" % (
        int(bad.sum()), ti[bad][0] if bad.any() else "-"))
    bad = before & ((got_idx != 0) | (end != 0))
    chk.check(not bad.any(), key + "/before", "before the first border line the position is not (0,0)")
    bad = after & (end == 0)
    chk.check(not bad.any(), key + "/after", "after the last border line frame_end is not reported at %d clocks, e.g. T=%s" % (int(bad.sum()), ti[bad][0] if bad.any() else "-"))
    # with frame_end the reported position is the start of the frame, so a fill up to it paints nothing
    bad = (end != 0) & (got_idx != 0)
    chk.check(not bad.any(), key + "/end-position", "frame_end is reported together with a position other than (0,0) at %d clocks" % int(bad.sum()))
    chk.count("beam-rows", n)
    chk.sample({"machine": m, "T": first, "border_pixel": [int(line[first]), int(pix[first])], "beam": [int(by[first]), int(bx[first])]})


def device(chk, prog, names):
    BORDER = prog.adt_path("rustzx_core", "ZXBorder")
    BEAM = prog.adt_path("rustzx_core", "BeamInfo")
    COLOR = prog.adt_path("rustzx_core", "ZXColor")
    FB = ("param", "FB", 0)
    FILL = prog.fn_path("rustzx_core", "ZXBorder::<FB>::fill_to")
    NBP = prog.fn_path("rustzx_core", "ZXBorder::<FB>::next_border_pixel")
    fi = lambda n: prog.field_index(BORDER, n)
    bi = lambda n: prog.field_index(BEAM, n)

    def mk_walker():
        w = Walker(prog)
        w.opaque_paths |= {FILL, NBP}

        def hook(w_, st, path, a, d, wh):
            if path == FILL:
                cur = w_.load(st, ("h", "border"), (("f", fi("beam_last")),))
                st.notes.append(("fill", cur, a[1], a[2]))
                return EffectResult(UNIT, havoc=False)
            if path == NBP:
                return EffectResult(Agg(("tuple",), 0, [tm.sym("LINE", 64), tm.sym("PIXEL", 64), tm.sym("END", 1)]), havoc=False)
            return None
        w.effect_hook = hook
        return w

    def state(w, changed, block):
        st = w.new_state()
        b = w.materialise(SymObj("border", ("adt", BORDER, (FB,))), st)
        b = b.with_field(fi("border_changed"), changed).with_field(fi("beam_block"), block)
        beam = Agg(("adt", BEAM), 0, [None] * 3)
        f = [None] * 3
        f[bi("line")], f[bi("pixel")], f[bi("color")] = tm.sym("L0", 64), tm.sym("P0", 64), Agg(("adt", COLOR), 2, ())
        b = b.with_field(fi("beam_last"), Agg(("adt", BEAM), 0, f))
        st.store[("h", "border")] = b
        return st
    # new_frame: 4 flag combinations
    fn = prog.fn(prog.fn_path("rustzx_core", "ZXBorder::<FB>::new_frame"))
    for changed in (0, 1):
        for block in (0, 1):
            w = mk_walker()
            st = state(w, K(changed, 1), K(block, 1))
            rs = w.run(fn, [Ref(("h", "border"), (), True)], genv={"FB": FB}, state=st)
            key = "T-TRACE/ZXBorder::new_frame/changed=%d,completed=%d" % (changed, block)
            if len(rs) != 1 or rs[0].outcome != "return":
                chk.fail(key, "new_frame branches on something other than the two per-frame flags (%d paths; fill_to calls per path: %s; outcomes %s): "
                         "every frame start must take the one documented course" %
                         (len(rs), [len([x for x in r.notes if x[0] == "fill"]) for r in rs][:6], sorted(set(r.outcome for r in rs))))
                continue
            r = rs[0]
            fills = [x for x in r.notes if x[0] == "fill"]
            b2 = r.store[("h", "border")]
            if block:
                chk.check(not fills, key + "/no-refill", "a completed frame is painted again")
            else:
                # the end position is compared as a linear pixel index: (H-1, W) and (H, 0) are the same point
                ok = len(fills) == 1 and isinstance(fills[0][2], T) and fills[0][2].is_const() and \
                    isinstance(fills[0][3], T) and fills[0][3].is_const() and fills[0][2].val * W + fills[0][3].val == H * W
                chk.check(ok, key + "/fill-to-end", "new_frame does not paint up to the last pixel: %s" % (fills,))
                if ok:
                    fl = fills[0][1]
                    l0, p0 = fl.fields[bi("line")], fl.fields[bi("pixel")]
                    if changed:
                        chk.check(l0 is tm.sym("L0", 64) and p0 is tm.sym("P0", 64), key + "/from-last-change",
                                  "after a change the rest of the frame is not painted from the last change")
                    else:
                        chk.check(isinstance(l0, T) and l0.is_const() and l0.val == 0 and isinstance(p0, T) and p0.is_const() and p0.val == 0,
                                  key + "/whole-border", "with no change during the frame the whole border is not repainted from (0,0): from (%s,%s)" % (l0, p0))
                    chk.check(isinstance(fl.fields[bi("color")], Agg) and fl.fields[bi("color")].variant == 2, key + "/colour", "painted with another colour than the current one")
            bl = b2.fields[fi("beam_last")]
            ok = bl.fields[bi("line")].is_const() and bl.fields[bi("line")].val == 0 and bl.fields[bi("pixel")].is_const() and bl.fields[bi("pixel")].val == 0 \
                and b2.fields[fi("border_changed")] is tm.FALSE and b2.fields[fi("beam_block")] is tm.FALSE and bl.fields[bi("color")].variant == 2
            chk.check(ok, key + "/reset", "new_frame does not reset the beam to (0,0) / the per-frame flags / keep the colour")
            chk.count("border-device-paths")
    # set_border
    fn = prog.fn(prog.fn_path("rustzx_core", "ZXBorder::<FB>::set_border"))
    for block in (0, 1):
        w = mk_walker()
        st = state(w, tm.sym("CH", 1), K(block, 1))
        newc = Agg(("adt", COLOR), 5, ())
        rs = w.run(fn, [Ref(("h", "border"), (), True), tm.sym("clk", 64), newc], genv={"FB": FB}, state=st)
        key = "T-TRACE/ZXBorder::set_border/completed=%d" % block
        if not rs or any(r.outcome != "return" for r in rs):
            chk.fail(key, "paths: %s" % [(r.outcome, r.detail) for r in rs][:3])
            continue
        for r in rs:
            fills = [x for x in r.notes if x[0] == "fill"]
            b2 = r.store[("h", "border")]
            nb = [e for e in r.trace if e.path == NBP]
            chk.check(len(nb) == 1 and nb[0].args[1] is tm.sym("clk", 64), key + "/clock", "beam position is not computed from the clock of the write")
            endf = c04.cc_decide(r, tm.sym("END", 1))
            if block:
                chk.check(not fills, key + "/blocked", "painting after the frame was completed")
            else:
                # past the last border pixel: paint to the end of the frame; a further fill up to the reported
                # position may follow (it is empty: the position reported with frame_end is the start of the frame)
                ok = len(fills) in ((1, 2) if endf else (1,)) and all(isinstance(f[1].fields[bi("color")], Agg) and f[1].fields[bi("color")].variant == 2 for f in fills)
                if ok and (not endf or len(fills) == 2):
                    ok = fills[-1][2] is tm.sym("LINE", 64) and fills[-1][3] is tm.sym("PIXEL", 64)
                if endf and ok:
                    ok = fills[0][2].is_const() and fills[0][3].is_const() and fills[0][2].val * W + fills[0][3].val == H * W
                chk.check(ok, key + "/paint-old-colour", "set_border must paint [last change, beam) with the previous colour: %s" % (fills,))
            bl = b2.fields[fi("beam_last")]
            ok = bl.fields[bi("line")] is tm.sym("LINE", 64) and bl.fields[bi("pixel")] is tm.sym("PIXEL", 64) and bl.fields[bi("color")].variant == 5 \
                and b2.fields[fi("border_changed")] is tm.TRUE
            chk.check(ok, key + "/record", "set_border does not record (beam position, new colour, changed)")
            if not block:
                bb = b2.fields[fi("beam_block")]
                bb = tm.subst(bb, r.facts) if isinstance(bb, T) else bb
                chk.check(endf is not None and bb is (tm.TRUE if endf else tm.FALSE), key + "/completed-flag", "frame-completed flag after set_border is %s (frame_end=%s)" % (bb, endf))
            chk.count("border-device-paths")
    # fill_to body for a symbolic pixel index
    w = Walker(prog, loop_bound=1)
    w.effect_hook = lambda w_, st, path, a, d, wh: EffectResult(UNIT, havoc=False) if path.endswith("::set_color") else None
    st = state(w, K(0, 1), K(0, 1))
    rs = w.run(prog.fn(FILL), [Ref(("h", "border"), (), True), tm.sym("LINE", 64), tm.sym("PIXEL", 64)], genv={"FB": FB}, state=st)
    key = "T-TRACE/ZXBorder::fill_to"
    p0 = tm.binop("add", tm.binop("mul", tm.sym("L0", 64), K(W, 64)), tm.sym("P0", 64))
    okp = False
    for r in rs:
        sc = [e for e in r.trace if e.path.endswith("::set_color")]
        if not sc:
            continue
        e = sc[0]
        okp = True
        chk.check(isinstance(e.args[1], T) and tm.equiv(e.args[1], tm.binop("urem", p0, K(W, 64)), max_bits=20) in (True, None) and
                  tm.show(e.args[1]) == tm.show(tm.binop("urem", p0, K(W, 64))), key + "/x", "x of a painted pixel is %s; documented p %% 320" % (e.args[1],))
        chk.check(tm.show(e.args[2]) == tm.show(tm.binop("udiv", p0, K(W, 64))), key + "/y", "y of a painted pixel is %s; documented p / 320" % (e.args[2],))
        chk.check(isinstance(e.args[3], Agg) and e.args[3].variant == 2, key + "/colour", "pixels are not painted with the colour current before the change")
        # loop bounds: the guard compares p0 with LINE*320+PIXEL
        endt = tm.binop("add", tm.binop("mul", tm.sym("LINE", 64), K(W, 64)), tm.sym("PIXEL", 64))
        g = [c for c in r.pc if c[0] in ("eq", "ne") and isinstance(c[1], T) and c[1].op == "ult"]
        chk.check(any(c[1].args[0] is p0 and c[1].args[1] is endt for c in g), key + "/range",
                  "painted range is not [last.line*320+last.pixel, line*320+pixel): guards %s" % [tm.show(c[1]) for c in g])
        break
    chk.check(okp, key + "/body", "fill_to paints nothing on any path")
    chk.floor("border-device-paths", 6)
