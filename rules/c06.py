"""C06 — memory map and 128K paging."""
from . import corecommon as cc
from . import c04
from zx import term as tm
from zx.term import K, T
from zx.walk import Walker, Agg, Ref, EffectResult, UNIT, SymObj, SymArr

LEVEL = "proof"

EXPL = (
    "Decided: write_7ffd - every effect and store is dominated by the paging_enabled test (locked => nothing changes); "
    "window 3 := RAM bank Copy(val,0..2), window 0 := ROM Copy(val,4), screen bank 5/7 by Copy(val,3), the lock is latched "
    "iff bit 5 and the remaps of the locking write itself still happen.  Initial maps [Rom0,Ram0,Ram1,Ram2] / "
    "[Rom0,Ram5,Ram2,Ram0] and the model->(ROM,RAM size, paging) choice of the constructor.  ZXMemory::read/write index "
    "page*16384 + addr[0..13] into rom/ram according to map[addr[14..15]]; write stores only under a RAM page and never "
    "borrows the ROM vector mutably.  Who-may-write: map only by remap (+constructor); remap only from write_7ffd; the ROM "
    "vector mutably only through rom_page_data_mut (ROM loaders) and force_write (pokes); write_7ffd only from write_io "
    "(128K-guarded, see C07) and the snapshot loaders; ROM loader copies 1/2 pages (constants)."
)


def run(chk):
    prog = cc.program("A")
    names = cc.Names(prog)
    cg, fa = cc.scans(prog)
    chk.rule("T-GUARD", "write_7ffd: no effect unless paging is enabled")
    chk.rule("T-BITS", "bank / ROM / screen / lock selection bits of the paging value")
    chk.rule("T-TABLE", "initial memory maps; read/write address arithmetic")
    chk.rule("T-WRITERS", "writers of map / rom, callers of remap / write_7ffd / rom_page_data_mut / force_write")
    write_7ffd(chk, prog, names)
    initial_maps(chk, prog, names)
    constructor(chk, prog, names)
    read_write(chk, prog, names)
    who(chk, prog, names, cg, fa)
    cc.provided_overrides(chk, prog, names)
    return chk.finish(EXPL)


def write_7ffd(chk, prog, names):
    REMAP = prog.fn_path("rustzx_core", "ZXMemory::remap")
    SWITCH = [p for p in prog.fns if p.startswith("rustzx_core::") and p.endswith("::switch_bank")]
    if len(SWITCH) != 1:
        chk.undecided_("anchor/switch_bank", "ZXScreen::switch_bank not found uniquely: %s" % SWITCH)
        return
    SWITCH = SWITCH[0]
    w = Walker(prog)
    w.opaque_paths |= {REMAP, SWITCH}

    def hook(w_, st, path, args, dty, where):
        if path in (REMAP, SWITCH):
            return EffectResult(None, havoc=False)
        return None
    w.effect_hook = hook
    PE = tm.sym("PAGING", 1)
    val = tm.sym("val", 8)
    st = cc.controller_state(w, prog, names, "Sinclair128K", overrides={"paging_enabled": PE})
    init = st.store[cc.CTL]
    rs = w.run(prog.fn(names.ctl("write_7ffd")), [Ref(cc.CTL, (), True), val], genv=cc.GENV, state=st)
    key = "ZXController::write_7ffd"
    fi = lambda n: prog.field_index(names.CTL, n)
    if not rs or any(r.outcome != "return" for r in rs):
        chk.fail("T-GUARD/%s/paths" % key, "non-returning paths: %s" % [(r.outcome, r.detail) for r in rs if r.outcome != "return"][:2])
        return
    seen = set()
    for r in rs:
        en = c04.cc_decide(r, PE)
        ctl = r.store[cc.CTL]
        chk.count("write_7ffd-paths")
        if en is False:
            seen.add("locked")
            same = all(ctl.fields[fi(n)] is init.fields[fi(n)] for n in ("current_port_7ffd", "screen_bank"))
            chk.check(not r.trace and same and ctl.fields[fi("paging_enabled")] in (PE, tm.FALSE), "T-GUARD/%s/locked" % key,
                      "a paging write changes state although paging is locked: effects %s" % (r.trace,))
            continue
        if en is None:
            chk.undecided_("T-GUARD/%s/classify" % key, "path does not decide paging_enabled")
            continue
        remaps = [e for e in r.trace if e.path == REMAP]
        sw = [e for e in r.trace if e.path == SWITCH]
        ok = len(remaps) == 2 and len(sw) == 1
        chk.check(ok, "T-GUARD/%s/effects" % key, "enabled paging write must remap windows 3 and 0 and switch the screen bank once: %s" % (r.trace,))
        if not ok:
            continue
        by_block = {}
        for e in remaps:
            b = e.args[1]
            by_block[b.val if isinstance(b, T) and b.is_const() else None] = e.args[2]
        p3, p0 = by_block.get(3), by_block.get(0)
        PAGE = names.PAGE
        ram_i, rom_i = prog.variant_index(PAGE, "Ram"), prog.variant_index(PAGE, "Rom")
        ok3 = isinstance(p3, Agg) and p3.variant == ram_i and isinstance(p3.fields[0], T) and \
            tm.equiv(p3.fields[0], tm.binop("and", val, K(7, 8))) is True
        chk.check(ok3, "T-BITS/%s/window3" % key, "window 3 is mapped to %r; documented RAM bank val & 7" % (p3,))
        ok0 = isinstance(p0, Agg) and p0.variant == rom_i and isinstance(p0.fields[0], T) and \
            tm.equiv(p0.fields[0], tm.binop("and", tm.binop("lshr", val, K(4, 8)), K(1, 8))) is True
        chk.check(ok0, "T-BITS/%s/rom" % key, "window 0 is mapped to %r; documented ROM (val >> 4) & 1" % (p0,))
        bit3 = c04.cc_decide(r, tm.cmp("ne", tm.binop("and", val, K(8, 8)), K(0, 8)))
        bank = sw[0].args[1]
        sb = ctl.fields[fi("screen_bank")]
        want = None if bit3 is None else (7 if bit3 else 5)
        chk.check(want is not None and isinstance(bank, T) and bank.is_const() and bank.val == want and
                  isinstance(sb, T) and sb.is_const() and sb.val == want, "T-BITS/%s/screen-bank" % key,
                  "screen bank for bit3=%s is %r / %r; documented %s" % (bit3, bank, sb, want))
        bit5 = c04.cc_decide(r, tm.cmp("ne", tm.binop("and", val, K(0x20, 8)), K(0, 8)))
        pe2 = tm.subst(ctl.fields[fi("paging_enabled")], r.facts) if isinstance(ctl.fields[fi("paging_enabled")], T) else None
        chk.check(bit5 is not None and pe2 is (tm.FALSE if bit5 else tm.TRUE), "T-BITS/%s/lock" % key,
                  "after a write with bit5=%s paging_enabled is %r" % (bit5, pe2))
        chk.check(ctl.fields[fi("current_port_7ffd")] is val, "T-BITS/%s/latch" % key, "the latch copy is %r, expected val" % (ctl.fields[fi("current_port_7ffd")],))
        seen.add(("enabled", bit3, bit5))
    want = {"locked"} | {("enabled", a, b) for a in (True, False) for b in (True, False)}
    chk.check(want <= seen, "T-GUARD/%s/cases" % key, "cases missing: %s" % sorted(map(str, want - seen)))
    chk.floor("write_7ffd-paths", 5)
    chk.sample({"write_7ffd_paths": len(rs), "cases": sorted(map(str, seen))})


def page_list(prog, names, v):
    out = []
    vn = prog.variant_names(names.PAGE)
    for e in v.fields:
        if not (isinstance(e, Agg) and isinstance(e.fields[0], T) and e.fields[0].is_const()):
            return None
        out.append("%s%d" % (vn[e.variant], e.fields[0].val))
    return out


def initial_maps(chk, prog, names):
    w = Walker(prog)
    fn = prog.fn(prog.fn_path("rustzx_core", "ZXMemory::new"))
    RT = prog.adt_path("rustzx_core", "RomType")
    AT = prog.adt_path("rustzx_core", "RamType")
    mi = prog.field_index(names.MEMORY, "map")
    for rom, ram, want, sizes in (("K16", "K48", ["Rom0", "Ram0", "Ram1", "Ram2"], (0x4000, 0xC000)),
                                  ("K32", "K128", ["Rom0", "Ram5", "Ram2", "Ram0"], (0x8000, 0x20000))):
        rs = w.run(fn, [Agg(("adt", RT), prog.variant_index(RT, rom), ()), Agg(("adt", AT), prog.variant_index(AT, ram), ())], genv={})
        key = "T-TABLE/ZXMemory::new/%s-%s" % (rom, ram)
        if len(rs) != 1 or rs[0].outcome != "return":
            chk.fail(key, "constructor does not fold to one path")
            continue
        got = page_list(prog, names, rs[0].ret.fields[mi])
        chk.check(got == want, key, "initial map is %s, documented %s" % (got, want))
        allocs = tuple(e.args[1].val for e in rs[0].trace if e.path.endswith("from_elem") and isinstance(e.args[1], T) and e.args[1].is_const())
        chk.check(allocs == sizes, key + "/sizes", "ROM/RAM sizes allocated %s, expected %s" % (allocs, sizes))
        chk.sample({"memory": "%s/%s" % (rom, ram), "map": got})


def constructor(chk, prog, names):
    """ZXController::new: 48K -> (K16,K48,paging off), 128K -> (K32,K128,paging on)"""
    cg, fa = cc.scans(prog)
    NEW = names.ctl("new")
    MEMNEW = prog.fn_path("rustzx_core", "ZXMemory::new")
    SET = prog.adt_path("rustzx_core", "RustzxSettings")
    keep = {NEW, MEMNEW}
    w = Walker(prog)
    for cp, s in cg.calls.get(NEW, ()):
        if cp not in keep and cp in prog.fns and prog.fns[cp].local:
            w.opaque_paths.add(cp)
    w.opaque_paths.add(MEMNEW)

    def hook(w_, st, path, args, dty, where):
        return EffectResult(None, havoc=False)
    w.effect_hook = hook
    RT = prog.adt_path("rustzx_core", "RomType")
    AT = prog.adt_path("rustzx_core", "RamType")
    for m, rom, ram, paging in (("Sinclair48K", "K16", "K48", tm.FALSE), ("Sinclair128K", "K32", "K128", tm.TRUE)):
        st = w.new_state()
        s = w.materialise(SymObj("settings", ("adt", SET, ())), st)
        s = s.with_field(prog.field_index(SET, "machine"), cc.machine_value(prog, names, m))
        s = s.with_field(prog.field_index(SET, "load_default_rom"), tm.FALSE)
        st.store[("h", "settings")] = s
        rs = w.run(prog.fn(NEW), [Ref(("h", "settings"), (), False), cc.Opaque("ctx")], genv=cc.GENV, state=st)
        key = "T-TABLE/ZXController::new/%s" % m
        good = [r for r in rs if r.outcome == "return"]
        if not good or len(good) != len(rs):
            chk.fail(key, "constructor paths: %s" % [(r.outcome, r.detail) for r in rs][:3])
            continue
        for r in good:
            mem = [e for e in r.trace if e.path == MEMNEW]
            ok = len(mem) == 1 and isinstance(mem[0].args[0], Agg) and isinstance(mem[0].args[1], Agg) and \
                prog.variant_names(RT)[mem[0].args[0].variant] == rom and prog.variant_names(AT)[mem[0].args[1].variant] == ram
            chk.check(ok, key + "/memory", "%s is built with %s" % (m, mem))
            pe = r.ret.fields[prog.field_index(names.CTL, "paging_enabled")] if isinstance(r.ret, Agg) else None
            chk.check(pe is paging, key + "/paging", "%s starts with paging_enabled = %r" % (m, pe))
            chk.count("constructor-paths")
    chk.floor("constructor-paths", 2)


def read_write(chk, prog, names):
    addr = tm.sym("addr", 16)
    ri, ai = prog.field_index(names.MEMORY, "rom"), prog.field_index(names.MEMORY, "ram")
    slot = tm.zext(tm.binop("lshr", addr, K(14, 16)), 64)
    # force_write is the poke path: the same cell as a CPU access of that address would reach, ROM included
    for meth, nargs in (("read", 0), ("write", 1), ("force_write", 1)):
        w = Walker(prog)
        st = w.new_state()
        st.store[("h", "mem")] = SymObj("mem", ("adt", names.MEMORY, ()))
        # Vec indexing is an effect: (vector, index)
        IDX = [p for p in prog.fns if p.endswith("::index") or p.endswith("::index_mut")]

        def hook(w_, st_, path, args, dty, where):
            if "Index" in path and "Vec" in path:
                return EffectResult(None, havoc=False)
            return None
        w.effect_hook = hook
        for p in prog.fns:
            if ("Vec<T, A> as core::ops::index::Index" in p) or ("Vec<T, A> as core::ops::index::IndexMut" in p):
                w.opaque_paths.add(p)
        fn = prog.fn(prog.fn_path("rustzx_core", "ZXMemory::" + meth))
        args = [Ref(("h", "mem"), (), meth != "read"), addr] + ([tm.sym("value", 8)] if nargs else [])
        rs = w.run(fn, args, genv={}, state=st)
        key = "T-BITS/ZXMemory::%s" % meth
        if not rs or any(r.outcome != "return" for r in rs):
            chk.fail(key, "non-returning paths: %s" % [(r.outcome, r.detail) for r in rs if r.outcome != "return"][:2])
            continue
        for r in rs:
            chk.count("memory-paths")
            idx = [c for c in r.pc if c[0] == "index"]
            var = [c for c in r.pc if c[0] == "variant"]
            ok_idx = idx and all(tm.equiv(c[1], slot) is True for c in idx)
            chk.check(ok_idx, key + "/slot", "map slot is not addr>>14: %s" % [tm.show(c[1]) for c in idx])
            if not var or not idx:
                chk.undecided_(key + "/classify", "path without page variant")
                continue
            j = idx[0][2]
            kind = var[0][2]
            acc = [e for e in r.trace if "Index" in e.path]
            if meth == "write" and kind == "Rom":
                chk.check(not acc, key + "/rom-ignored", "write to a ROM page touches memory: %s" % acc)
                continue
            ok = len(acc) == 1 and isinstance(acc[0].args[0], Ref) and acc[0].args[0].proj[-1:] == (("f", ri if kind == "Rom" else ai),)
            chk.check(ok, key + "/vector", "%s of a %s page does not access the %s vector exactly once: %s" % (meth, kind, kind.lower(), acc))
            if not ok:
                continue
            page = tm.sym("mem.map[%d].%s.0" % (j, kind), 8)
            want = tm.binop("add", tm.binop("mul", tm.zext(page, 64), K(16384, 64)), tm.zext(tm.binop("and", addr, K(0x3FFF, 16)), 64))
            got = acc[0].args[1]
            chk.check(isinstance(got, T) and tm.equiv(got, want) is True, key + "/offset",
                      "%s index is %s; documented page*16384 + (addr & 0x3FFF)" % (meth, tm.show(got) if isinstance(got, T) else got))
            if meth != "read":
                chk.check("IndexMut" in acc[0].path, key + "/mutable", "%s does not store" % meth)
    chk.floor("memory-paths", 20)


def who(chk, prog, names, cg, fa):
    short = lambda p: p.split("::")[-1]

    entries = cc.api_entry_points(prog, names)

    def writers(adt, field, allowed, key):
        # which API entry points can end up storing to the field (through whatever private helpers)
        got = set()
        direct = fa.writers(adt, field)
        for w_ in direct:
            w0 = cc.strip_closure(w_)
            if w0 in entries:
                got.add(short(w0))
            got |= cc.entry_points_reaching(prog, cg, names, w_)
        chk.check(got <= allowed and got, "T-WRITERS/%s" % key, "%s can be written from the API entry points %s (stores in %s); the property allows only %s" % (
            key, sorted(got), sorted(short(x) for x in direct), sorted(allowed)))
        chk.count("writer-sets")

    def callers(path, allowed, key):
        # who may reach it, stated over the API surface (public Emulator methods and the CPU bus implementation):
        # private helpers, closures and inlining between them do not matter
        got = cc.entry_points_reaching(prog, cg, names, path)
        chk.check(got <= allowed and got, "T-WRITERS/%s/callers" % key,
                  "%s can be reached from the API entry points %s; the property allows only %s" % (key, sorted(got), sorted(allowed)))
        chk.count("caller-sets")
    writers(names.MEMORY, "map", {"write_io", "load_snapshot"}, "ZXMemory.map")
    writers(names.MEMORY, "rom", {"new", "load_rom", "execute_poke"}, "ZXMemory.rom")
    writers(names.MEMORY, "ram", {"write_internal", "execute_poke", "load_snapshot", "load_screen"}, "ZXMemory.ram")
    # snapshot loaders re-enable paging before applying the stored latch: a snapshot describes the lock too
    writers(names.CTL, "paging_enabled", {"write_io", "load_snapshot"}, "ZXController.paging_enabled")
    # the memory map changes only through a port write by the CPU or through a snapshot load
    callers(prog.fn_path("rustzx_core", "ZXMemory::remap"), {"write_io", "load_snapshot"}, "ZXMemory::remap")
    callers(names.ctl("write_7ffd"), {"write_io", "load_snapshot"}, "ZXController::write_7ffd")
    # ROM contents: construction (default ROM) and the ROM loader; pokes are the only other writer of ROM bytes
    callers(prog.fn_path("rustzx_core", "ZXMemory::rom_page_data_mut"), {"new", "load_rom"}, "ZXMemory::rom_page_data_mut")
    callers(prog.fn_path("rustzx_core", "ZXMemory::force_write"), {"execute_poke"}, "ZXMemory::force_write")
    for m, n in (("Sinclair48K", 1), ("Sinclair128K", 2)):
        s = cc.specs_of(prog, names, m)
        chk.check(s.get("rom_pages") == n, "T-TABLE/ZXSpecs/%s/rom_pages" % m, "%s loads %r ROM pages, documented %d" % (m, s.get("rom_pages"), n))
    chk.floor("writer-sets", 4)
    chk.floor("caller-sets", 4)
