"""C16 — determinism / independence of driving: non-interference (stopwatch, mixer), short-read tolerance, absence rules."""
from . import corecommon as cc
from . import c04
from zx import term as tm
from zx.term import K, T
from zx.walk import Walker, Agg, Ref, EffectResult, UNIT, SymObj, SymArr
from zx import scan

LEVEL = "other"

EXPL = (
    "Decided (T-NONINT / T-WRITERS over the resolved program): (i) host stopwatch readings in emulate_frames flow only into "
    "the comparison with the time limit and into EmulationInfo.duration - never into an argument of a CPU/controller "
    "method or a store into the emulator; (ii) every field written by sound generation (ZXMixer process/new_frame/pop/"
    "gen_sample and everything they call: beeper, AY generator, filters) is read only inside that same call closure, so the "
    "CPU-visible paths (bus methods, video, tape, loaders) cannot observe whether/when samples were generated or drained; "
    "the AY register file read back through the port is written only by port writes and loaders; (iii) the per-call frame "
    "counter influences only emulate_frames' return tests (C05); (iv) LoadableAsset::read is called only from the provided "
    "read_exact and from forwarding adapters, and read_exact advances the buffer by exactly the returned count and fails "
    "only at end of data, so short reads are tolerated by every consumer; (v) no mutable static, no time/thread/random/"
    "hash-iteration API is reachable except the host stopwatch implementation (positive control: Instant::now is found "
    "there).  NOT decided: bit-identical audio under different drain patterns (excluded by the statement)."
)


def run(chk):
    prog = cc.program("A")
    names = cc.Names(prog)
    cg, fa = cc.scans(prog)
    chk.rule("T-NONINT", "stopwatch readings / mixer state do not reach CPU-visible state")
    chk.rule("T-WRITERS", "callers of LoadableAsset::read; read_exact advances by the returned count")
    chk.rule("ABSENCE", "no static mut / time / thread / random / hash iteration outside the host stopwatch")
    stopwatch(chk, prog)
    mixer_isolation(chk, prog, names, cg, fa)
    read_callers(chk, prog, cg)
    read_exact(chk, prog)
    absence(chk, prog, cg)
    events_not_dropped(chk, prog)
    slicing_controls(chk, prog, names, cg, fa)
    clock_advance(chk, prog, names, cg)
    asset_adapters(chk, prog)
    return chk.finish(EXPL)


def clock_advance(chk, prog, names, cg):
    """T-WRITERS/clock-advance: emulated time moves only with the CPU's bus cycles.  The functions that call the
    controller's bus methods which advance the frame clock (wait_internal, wait_mreq, wait_no_mreq, read_io, write_io)
    are the CPU core (crate rustzx-z80) and the controller itself — never the host-facing driver loop, whose shortcuts
    (a halted CPU, maximum-speed mode, a time budget) would make the result depend on how the host slices execution."""
    chk.rule("T-WRITERS/clock-advance", "callers of the clock-advancing bus methods are the CPU core and the controller only")
    n = 0
    for meth in ("wait_internal", "wait_mreq", "wait_no_mreq", "read_io", "write_io"):
        try:
            target = names.bus(meth)
        except KeyError:
            chk.undecided_("T-WRITERS/clock-advance/%s/anchor" % meth, "the controller's Z80Bus::%s was not found" % meth)
            continue
        trait_item = "rustzx_z80::bus::Z80Bus::" + meth
        callers = set()
        for s_ in list(cg.callers_of(target)) + list(cg.callers_of(trait_item)):
            if s_.kind == "call":
                callers.add(cc.strip_closure(s_.fn.path))
        bad = sorted(c for c in callers if not (c.startswith("rustzx_z80::") or c.startswith("<rustzx_z80::") or "ZXController" in c))
        chk.check(not bad, "T-WRITERS/clock-advance/%s" % meth,
                  "%s is called from %s: emulated time must advance only through the CPU's bus cycles (CPU core and controller)" % (
                      meth, [b.split("::")[-1] + " (" + "::".join(b.split("::")[-3:-1]) + ")" for b in bad]))
        n += len(callers)
    chk.count("clock-advance-callers", n)
    chk.floor("clock-advance-callers", 5)


def slicing_controls(chk, prog, names, cg, fa):
    """T-NONINT/slicing: the host's slicing knobs named by the statement -- the speed mode, sound on/off, draining the
    sample queue -- may change nothing but their own bookkeeping: everything the functions reachable from set_speed /
    set_sound / next_audio_sample store to (or borrow mutably, or replace as a whole) is the mode word, the sound flag,
    respectively the sample queue and the path of borrows leading to it.  In particular no device object (mixer with the
    AY chip, CPU, memory, tape) is re-created or written by them."""
    chk.rule("T-NONINT/slicing", "mod set of set_speed / set_sound / next_audio_sample is their own bookkeeping only")
    EM = prog.adt_path("rustzx_core", "Emulator")
    MIX = prog.adt_path("rustzx_core", "ZXMixer")
    table = {
        "set_speed": {(EM, "mode")},
        "set_sound": {(EM, "sound_enabled")},
        "next_audio_sample": {(EM, "controller"), (names.CTL, "mixer"), (MIX, "ring_buffer")},
    }
    written = {}
    for (adt, field), sites in list(fa.stores.items()) + list(fa.mutrefs.items()):
        for s_ in sites:
            written.setdefault(cc.strip_closure(s_.fn.path), set()).add((adt, field))
    n = 0
    for api, allowed in table.items():
        try:
            root = prog.fn_path("rustzx_core", "Emulator::<H>::" + api)
        except KeyError:
            chk.undecided_("T-NONINT/slicing/%s/anchor" % api, "Emulator::%s not found" % api)
            continue
        reach = set(cc.strip_closure(p) for p in cg.reachable([root]) if p in prog.fns and prog.fns[p].local)
        mods = set()
        who = {}
        for p in reach:
            for af in written.get(p, ()):
                a = prog.adt(af[0])
                if a and a.get("local"):
                    mods.add(af)
                    who.setdefault(af, p)
        extra = mods - allowed
        chk.check(not extra, "T-NONINT/slicing/%s" % api,
                  "%s changes more than its own bookkeeping: %s" % (api, sorted("%s.%s (in %s)" % (a.split("::")[-1], f, who[(a, f)].split("::")[-1]) for a, f in extra)))
        n += len(reach)
    chk.count("slicing-functions", n)
    chk.floor("slicing-functions", 3)


def stopwatch(chk, prog):
    EF = prog.fn_path("rustzx_core", "Emulator::<H>::emulate_frames")
    # emulate_frames together with the closures defined in it (a closure that wraps `measure()` is part of it)
    bodies = [prog.fn(EF)] + [f for p, f in prog.fns.items() if f.local and p != EF and cc.strip_closure(p) == EF and "{closure#" in p]
    sources = 0
    n_tainted = 0
    ok = True

    def ops_of(rv):
        k = rv[0]
        if k in ("use", "cast", "un"):
            return [rv[1] if k == "use" else rv[2]]
        if k == "bin":
            return [rv[2], rv[3]]
        if k == "agg":
            return list(rv[2])
        if k in ("ref", "addr", "discr"):
            return [("cp", rv[1])]
        if k == "repeat":
            return [rv[1]]
        return []

    def locals_of(op):
        if op[0] in ("cp", "mv"):
            return [op[1]["l"]]
        return []

    def callee_paths(t):
        f = t["f"]
        out = [f.get("path", "")]
        r = f.get("resolved") or {}
        if r.get("path"):
            out.append(r["path"])
        return out
    for fn in bodies:
        body = fn.body
        tainted = set()
        is_closure = fn.path != EF
        # seed: results of Stopwatch::new / measure, and of the closures of emulate_frames (they may wrap a reading)
        for b in body["blocks"]:
            t = b["t"]
            if t["k"] != "call" or "path" not in t["f"]:
                continue
            cps = callee_paths(t)
            if any("Stopwatch::" in p for p in cps):
                tainted.add(t["dest"]["l"])
                sources += 1
            elif any(cc.strip_closure(p) == EF and "{closure#" in p for p in cps):
                tainted.add(t["dest"]["l"])
        changed = True
        while changed:
            changed = False
            for b in body["blocks"]:
                for s_ in b["s"]:
                    if s_[0] != "=":
                        continue
                    if any(l in tainted for o in ops_of(s_[2]) for l in locals_of(o)) and s_[1]["l"] not in tainted and not s_[1]["p"]:
                        tainted.add(s_[1]["l"])
                        changed = True
                t = b["t"]
                if t["k"] == "call" and any(l in tainted for a in t["args"] for l in locals_of(a)):
                    if t["dest"]["l"] not in tainted:
                        tainted.add(t["dest"]["l"])
                        changed = True
        for b in body["blocks"]:
            for s_ in b["s"]:
                if s_[0] == "=" and s_[1]["p"] and any(l in tainted for o in ops_of(s_[2]) for l in locals_of(o)):
                    # store through a projection: only into a local aggregate being built (EmulationInfo) is allowed
                    if s_[1]["l"] == 1 or (s_[1]["p"] and s_[1]["p"][0][0] == "d"):
                        ok = False
                        chk.fail("T-NONINT/Emulator::emulate_frames/store", "a stopwatch reading is stored into emulator state at %s" % fn.loc(s_[3]))
            t = b["t"]
            if t["k"] == "call" and any(l in tainted for a in t["args"] for l in locals_of(a)):
                cps = callee_paths(t)
                p = cps[0] or "<indirect>"
                allowed = any(("Stopwatch::measure" in q) or ("cmp::PartialOrd" in q) or ("cmp::PartialEq" in q) or q.startswith("core::time::") or
                              ("Result" in q and "core::" in q) or q.startswith("core::ops::") or q.startswith("core::convert::") or
                              (cc.strip_closure(q) == EF and "{closure#" in q) for q in cps if q)
                if not allowed:
                    ok = False
                    chk.fail("T-NONINT/Emulator::emulate_frames/call/%s" % p.split("::")[-1], "a stopwatch reading is passed to %s at %s" % (p, fn.loc(t.get("span"))))
        n_tainted += len(tainted)
    chk.check(sources >= 3, "T-NONINT/Emulator::emulate_frames/sources", "stopwatch calls found: %d" % sources)
    if ok:
        chk.ok()
    chk.count("stopwatch-tainted-locals", n_tainted)
    chk.floor("stopwatch-tainted-locals", 3)
    # the only stopwatch user in the core is emulate_frames (with its closures)
    users = set()
    for f in prog.local_fns():
        if f.crate != "rustzx_core":
            continue
        for b in f.body["blocks"]:
            t = b["t"]
            if t["k"] == "call" and "path" in t["f"] and "Stopwatch::" in t["f"]["path"]:
                users.add(cc.strip_closure(f.path).split("::")[-1])
    chk.check(users == {"emulate_frames"}, "T-NONINT/Stopwatch/users", "the host stopwatch is consulted in %s" % sorted(users))


_CACHE = {}


def mixer_isolation(chk, prog, names, cg, fa):
    _CACHE.clear()
    MIX = prog.adt_path("rustzx_core", "ZXMixer")
    roots = [prog.fn_path("rustzx_core", "ZXMixer::" + n) for n in ("process", "new_frame", "pop", "gen_sample")]
    G = set(p for p in cg.reachable(roots) if p in prog.fns and prog.fns[p].local)
    written = {}
    for (adt, field), sites in list(fa.stores.items()) + list(fa.mutrefs.items()):
        for s in sites:
            if s.fn.path in G:
                written.setdefault((adt, field), set()).add(s.fn.path)
    chk.count("generation-functions", len(G))
    chk.count("generation-written-fields", len(written))
    chk.floor("generation-functions", 10)
    chk.floor("generation-written-fields", 15)
    ctor = lambda p: p.endswith("::new") or p.endswith("::default") or "Default>::default" in p
    # device state = ADTs reachable through the field types of ZXMixer, minus plain output data (what pop() hands out)
    def adts_in(t, acc):
        if t[0] == "adt":
            if t[1] not in acc and prog.adt(t[1]) and prog.adt(t[1])["local"]:
                acc.add(t[1])
                for v in prog.adt(t[1])["variants"]:
                    for f in v["fields"]:
                        adts_in(f["ty"], acc)
            for a in t[2]:
                if a[0] != "const":
                    adts_in(a, acc)
        elif t[0] in ("ref", "ptr", "array", "slice"):
            adts_in(t[2] if t[0] in ("ref", "ptr") else t[1], acc)
        elif t[0] == "tuple":
            for x in t[1]:
                adts_in(x, acc)
    state_adts = set()
    adts_in(("adt", MIX, ()), state_adts)
    popfn = prog.fn(prog.fn_path("rustzx_core", "ZXMixer::pop"))
    out_adts = set()
    adts_in(popfn.T[popfn.body["locals"][0]], out_adts)
    state_adts -= out_adts
    chk.count("device-state-adts", len(state_adts))
    chk.floor("device-state-adts", 6)
    for (adt, field), ws in sorted(written.items()):
        if adt not in state_adts:
            continue
        rd = set(fa.readers(adt, field)) | set(p for p in fa.writers(adt, field))
        outside = sorted(p for p in rd if p not in G and not ctor(p))
        # configuration setters (volume, use_ay, beeper.change_state, AY register writes) may write, but must not read back
        # readers that the machine itself can run: reachable from the emulator's API surface (a statistics getter of a
        # library crate that nothing in the core calls cannot carry generation state into emulated state)
        if "core_reach" not in _CACHE:
            _CACHE["core_reach"] = set(cc.strip_closure(p) for p in cg.reachable(list(cc.api_entry_points(prog, names))))
        readers_out = sorted(p for p in fa.readers(adt, field) if p not in G and not ctor(p) and cc.strip_closure(p) in _CACHE["core_reach"])
        allowed_readers = set()
        if adt == MIX and field in ("ay", "beeper"):
            # sub-device handles are traversed by port code to reach registers / beeper bits: judged per leaf field
            continue
        bad = [p for p in readers_out if p not in allowed_readers]
        chk.check(not bad, "T-NONINT/generation-state/%s.%s" % (adt.split("::")[-1], field),
                  "%s.%s is written during sound generation (%s) and read by %s, which is outside the generation closure" % (
                      adt.split("::")[-1], field, sorted(x.split("::")[-1] for x in ws)[:3], [b.split("::")[-1] for b in bad]))
    # the register file visible through the AY port is not written by generation
    CH = prog.adt_path("rustzx_core", "ZXAyChip")
    for f in ("regs", "current_reg"):
        ws = set(fa.writers(CH, f))
        chk.check(not (ws & G), "T-NONINT/ZXAyChip.%s" % f, "the port-visible AY %s is written by sound generation: %s" % (f, sorted(ws & G)))
        eff = cc.effective_writers(prog, cg, fa, names, CH, f, {"select_reg", "write", "set_regs"})
        chk.check(eff <= {"select_reg", "write", "set_regs"}, "T-WRITERS/ZXAyChip.%s" % f, "AY %s is written by %s" % (f, sorted(eff)))
    chk.sample({"generation_closure": sorted(x.split("::")[-1] for x in G)[:12], "fields_written": len(written)})


def read_callers(chk, prog, cg):
    TR = "rustzx_core::host::io::LoadableAsset::read"
    sites = [s for s in cg.callers_of(TR)]
    for im, item in prog.impl_candidates(TR):
        sites += [s for s in cg.callers_of(item) if s.kind == "call"]
    callers = set(s.fn.path for s in sites)
    short = set(c.split("::")[-1] + "@" + ("trait" if "LoadableAsset::read_exact" in c else c.split(" as ")[0].split("::")[-1].strip("<>")) for c in callers)
    ok = all(("LoadableAsset::read_exact" in c) or (c.endswith("::read") and ("DynamicAsset" in c or "GzipAsset" in c)) for c in callers)
    chk.check(ok and callers, "T-WRITERS/LoadableAsset::read/callers",
              "LoadableAsset::read is called directly from %s; only read_exact and forwarding adapters may (short reads must be tolerated)" % sorted(callers))
    chk.count("read-call-sites", len(sites))
    chk.floor("read-call-sites", 3)


def read_exact(chk, prog):
    RE = "rustzx_core::host::io::LoadableAsset::read_exact"
    fn = prog.fns.get(RE)
    if fn is None:
        chk.undecided_("anchor/read_exact", "provided method LoadableAsset::read_exact not found")
        return
    w = Walker(prog, loop_bound=1)
    for p in prog.fns:
        if "index_mut" in p:
            w.opaque_paths.add(p)

    def hook(w_, st, path, a, d, wh):
        if path.endswith("LoadableAsset::read"):
            return None
        return EffectResult(None, havoc=False)
    w.effect_hook = hook
    st = w.new_state()
    st.store[("h", "asset")] = cc.Opaque("asset")
    st.store[("h", "buf")] = SymArr("buf", ("int", 8, False, False), tm.sym("LEN", 64))
    rs = w.run(fn, [Ref(("h", "asset"), (), True), Ref(("h", "buf"), (), True, tm.sym("LEN", 64))], genv={"Self": ("param", "Self", 0)}, state=st)
    key = "T-WRITERS/LoadableAsset::read_exact"
    kinds = set()
    for r in rs:
        if r.outcome not in ("return", "cut"):
            chk.fail(key + "/paths", "%s %s" % (r.outcome, r.detail))
            continue
        reads = [e for e in r.trace if e.path.endswith("LoadableAsset::read")]
        idx = [e for e in r.trace if "index_mut" in e.path]
        if r.outcome == "return":
            empty = c04.cc_decide(r, tm.cmp("eq", tm.sym("LEN", 64), K(0, 64)))
            if not reads:
                chk.check(empty is True and isinstance(r.ret, Agg) and r.ret.variant == 0, key + "/empty", "an empty buffer is not an immediate Ok")
                kinds.add("empty")
                continue
            res = [c for c in r.pc if c[0] == "variant" and "read" in c[1]]
            err = any(c[2] == "Err" for c in res)
            if err:
                chk.check(isinstance(r.ret, Agg) and r.ret.variant == 1, key + "/error-propagated", "a failing read is swallowed")
                kinds.add("error")
                continue
            # read returned 0 with data still missing -> UnexpectedEof
            chk.check(isinstance(r.ret, Agg) and r.ret.variant == 1, key + "/eof", "end of data with bytes still missing does not fail")
            kinds.add("eof")
        else:
            # one full iteration with n > 0: the buffer is re-sliced from n
            if idx:
                rng = [a for a in idx[0].args if isinstance(a, Agg) and a.kind[0] == "adt" and a.kind[1].endswith("RangeFrom")]
                i0 = r.trace.index(reads[0]) if reads else -1
                want = tm.sym("ret%d:read.Ok.0" % i0, 64)
                ok = len(rng) == 1 and rng[0].fields[0] is want and any(isinstance(a, Ref) and a.obj == ("h", "buf") for a in idx[0].args)
                chk.check(ok, key + "/advance", "after a short read the buffer is not re-sliced from exactly the returned count: %s" % (idx[0].args,))
                kinds.add("advance")
    chk.check({"empty", "error", "eof", "advance"} <= kinds, key + "/cases", "read_exact cases explored: %s" % sorted(kinds))


def absence(chk, prog, cg):
    # mutable statics
    muts = [p for p, f in prog.fns.items() if f.local and "Static" in f.kind and "Mut" in f.kind and "mutability: Not" not in f.kind]
    chk.check(not muts, "ABSENCE/static-mut", "mutable statics: %s" % muts)
    forbidden = ("std::time::", "std::thread::", "rand::", "getrandom::", "std::collections::hash", "std::env::", "std::process::")
    hits = {}
    for f in prog.local_fns():
        for b in f.body["blocks"]:
            t = b["t"]
            if t["k"] == "call" and "path" in t["f"]:
                for p in (t["f"]["path"], (t["f"].get("resolved") or {}).get("path") or ""):
                    if p.startswith(forbidden):
                        hits.setdefault(f.path, set()).add(p)
    control = [f for f, ps in hits.items() if "InstantStopwatch" in f and any("Instant::now" in p or "Instant::elapsed" in p for p in ps)]
    chk.check(bool(control), "ABSENCE/positive-control", "the rule no longer sees Instant::now in the host stopwatch (went blind)")
    others = dict((f, sorted(ps)) for f, ps in hits.items() if "InstantStopwatch" not in f)
    chk.check(not others, "ABSENCE/nondeterministic-api", "time/thread/random/hash APIs used outside the host stopwatch: %s" % others)
    chk.count("functions-scanned", len(prog.local_fns()))
    chk.floor("functions-scanned", 600)


def events_not_dropped(chk, prog):
    """T-PAIR: one step of the emulate_frames loop, with Z80::emulate / take_events / the fast-load handler as
    effects and the taken event set symbolic.  take_events *clears* the controller's pending events, so whatever it
    returned must be acted upon before the loop body ends or the function returns — otherwise stopping at a
    breakpoint and resuming is not equivalent to running through (the dropped event is never raised again):
      bit TAPE_FAST_LOAD_TRIGGER_DETECTED set  ->  process_fast_load_event is called in that step
      bit PC_BREAKPOINT set                    ->  the call returns in that step (after the fast load, if any)
      a step that ends without having examined a bit of the taken set is a violation."""
    from . import loaders as ld
    from .c04 import cc_decide
    from zx.walk import Walker, Ref, Agg, EffectResult
    ln = ld.LoaderNames(prog)
    EMUL = prog.fn_path("rustzx_core", "Emulator::<H>::emulate_frames")
    TAKE = prog.fn_path("rustzx_core", "ZXController::<H>::take_events")
    PFL = prog.fn_path("rustzx_core", "Emulator::<H>::process_fast_load_event")
    EV = prog.adt_path("rustzx_core", "EmulationEvents")
    flags = {"TAPE_FAST_LOAD_TRIGGER_DETECTED": None, "PC_BREAKPOINT": None}
    for name in flags:
        flags[name] = event_bit(prog, EV, name)
    key = "T-PAIR/Emulator::emulate_frames/events"
    if any(v is None for v in flags.values()):
        chk.undecided_(key + "/flags", "EmulationEvents flag constants not found: %s" % flags)
        return
    w = Walker(prog, loop_bound=1)
    CPU = [p for p in prog.fns if p.endswith("Z80::emulate")]
    opaque = {TAKE, PFL, prog.fn_path("rustzx_core", "ZXController::<H>::take_last_emulation_error"),
              prog.fn_path("rustzx_core", "ZXController::<H>::frames_count"),
              prog.fn_path("rustzx_core", "ZXController::<H>::reset_frame_counter")} | set(CPU)
    for p in prog.fns:
        if "EmulationStopwatch" in p or "core::time::" in p:
            opaque.add(p)      # host time: its comparison with the limit is an opaque effect here (see T-NONINT)
    w.opaque_paths |= opaque

    def hook(w_, st, path, a, d, wh):
        if path == TAKE:
            k = sum(1 for e in st.trace if e.path == TAKE)
            return EffectResult(Agg(("adt", EV), 0, [tm.sym("EVENTS%d" % k, 8)]), havoc=False)
        if path.endswith("::take_last_emulation_error"):
            return EffectResult(Agg(("adt", "core::option::Option"), 0, []), havoc=False)
        return None
    w.effect_hook = hook
    st = ld.emulator_state(w, prog, ln, "Sinclair48K")
    rs = w.run(prog.fn(EMUL), [Ref(ld.EMU, (), True), tm.sym("limit", 64)], genv=cc.GENV, state=st)
    bad = [r for r in rs if r.outcome not in ("return", "cut")]
    if bad or not rs:
        chk.undecided_(key + "/paths", "exploration of emulate_frames failed: %s" % [(r.outcome, r.detail) for r in bad][:2])
        return
    steps = 0
    fl, bp = flags["TAPE_FAST_LOAD_TRIGGER_DETECTED"], flags["PC_BREAKPOINT"]
    for r in rs:
        idx = [i for i, e in enumerate(r.trace) if e.path == TAKE]
        for n, i in enumerate(idx):
            nxt = [j for j, e in enumerate(r.trace) if j > i and e.path in CPU]
            end = nxt[0] if nxt else len(r.trace)
            complete = bool(nxt) or r.outcome == "return"
            if not complete:
                continue
            steps += 1
            ev = tm.sym("EVENTS%d" % n, 8)
            seg = r.trace[i + 1:end]
            served = any(e.path == PFL for e in seg)
            returned = (not nxt) and r.outcome == "return"
            has_fl = cc_decide(r, tm.cmp("eq", tm.binop("and", ev, K(fl, 8)), K(fl, 8)))
            has_bp = cc_decide(r, tm.cmp("eq", tm.binop("and", ev, K(bp, 8)), K(bp, 8)))
            err_exit = returned and isinstance(r.ret, Agg) and r.ret.variant == 1 and served
            if has_fl is None:
                chk.fail(key + "/fast-load-dropped", "a step of emulate_frames ends (%s) without examining TAPE_FAST_LOAD_TRIGGER_DETECTED in the events it took from the controller: the trap request is lost (e.g. together with a breakpoint at the same address)" % (
                    "returns to the host" if returned else "next instruction"))
            else:
                chk.check(served == has_fl, key + "/fast-load-served", "fast-load trigger taken=%s but handler called=%s in that step" % (has_fl, served))
            if has_bp is None:
                if not err_exit:
                    chk.fail(key + "/breakpoint-dropped", "a step of emulate_frames ends without examining PC_BREAKPOINT in the events it took")
            elif has_bp:
                chk.check(returned, key + "/breakpoint-stops", "PC_BREAKPOINT taken but the call does not return in that step")
            else:
                chk.ok()
    # every executed instruction is followed, within the same step, by taking the controller's events: a step that ends
    # (next instruction, or return to the host at a frame limit / time-out) with the events of its instruction still
    # pending handles them only after the first instruction of the *next* call, i.e. differently for other slicings
    cpu_steps = 0
    for r in rs:
        cidx = [i for i, e in enumerate(r.trace) if e.path in CPU]
        for n, i in enumerate(cidx):
            last = n + 1 == len(cidx)
            if last and r.outcome != "return":
                continue
            end = len(r.trace) if last else cidx[n + 1]
            cpu_steps += 1
            taken = any(e.path == TAKE for e in r.trace[i + 1:end])
            how = ("returns to the host (%s)" % describe_stop(r.ret)) if last else "goes on to the next instruction"
            chk.check(taken, key + "/taken-every-step",
                      "a step of emulate_frames %s without taking the events its instruction raised (take_events not called after Z80::emulate): "
                      "a fast-load trap or breakpoint raised by the last instruction of a slice is handled one instruction late" % how)
    chk.count("event-steps", steps)
    chk.floor("event-steps", 8)
    chk.count("cpu-steps", cpu_steps)
    chk.floor("cpu-steps", 8)


def describe_stop(ret):
    try:
        if ret.variant == 1:
            return "Err"
        info = ret.fields[0]
        return "stop_reason variant %s" % getattr(info.fields[-1], "variant", "?")
    except Exception:
        return "?"


def event_bit(prog, EV, name):
    """value of the bitflags constant EmulationEvents::<name>"""
    c = prog.consts.get(EV + "::" + name)
    if c is None:
        return None
    try:
        return c["v"]["fields"][0]["int"]
    except (KeyError, IndexError, TypeError):
        return None


def asset_adapters(chk, prog):
    """T-SIB: the asset implementations agree with each other (same bytes, same positions, whichever delivers a file).
    The in-memory cursor is the reference: seek(Start(p)) -> p, seek(End(p)) -> len + p, seek(Current(p)) -> pos + p,
    an error exactly when that is negative and then the position is kept.  The file adapter hands the position to the
    OS unchanged (variant for variant, same offset) and reads into the caller's buffer; the gzip and dynamic adapters
    forward read / seek to what they wrap exactly once with the caller's arguments and return its result."""
    from zx.walk import Walker, Ref, Agg, EffectResult, SymObj, SymArr
    chk.rule("T-SIB/assets", "BufferCursor::seek arithmetic per SeekFrom variant; into_std_seek_pos variant- and offset-preserving; File/Gzip/Dynamic adapters forward read/seek unchanged")
    try:
        SF = prog.adt_path("rustzx_core", "SeekFrom")
        BCT = prog.adt_path("rustzx_core", "BufferCursor")
    except Exception as e:
        chk.undecided_("T-SIB/assets/anchor", "%s" % e)
        return
    vnames = [v["name"] for v in prog.adt(SF)["variants"]]
    OFF, LEN, POS = tm.sym("off", 64), tm.sym("LEN", 64), tm.sym("bc.pos", 64)
    Tp = ("param", "T", 0)
    # ---- in-memory cursor
    BCS = [p for p in prog.fns if p.startswith("<rustzx_core::") and "BufferCursor<" in p and p.endswith("SeekableAsset>::seek")]
    if len(BCS) != 1:
        chk.undecided_("T-SIB/assets/BufferCursor::seek/anchor", "%s" % BCS)
    else:
        pos_i = prog.field_index(BCT, "pos")
        for vi, vn in enumerate(vnames):
            w = Walker(prog)

            def hook(w_, st, path, a, d, wh):
                if path.endswith("::as_ref"):
                    st.store[("h", "data")] = SymArr("data", ("int", 8, False, False), LEN)
                    return EffectResult(Ref(("h", "data"), (), False, LEN), havoc=False)
                return None
            w.effect_hook = hook
            st = w.new_state()
            st.store[("h", "bc")] = w.materialise(SymObj("bc", ("adt", BCT, (Tp,))), st)
            key = "T-SIB/assets/BufferCursor::seek/%s" % vn
            try:
                rs = w.run(prog.fn(BCS[0]), [Ref(("h", "bc"), (), True), Agg(("adt", SF), vi, [OFF])], genv={"T": Tp}, state=st)
            except Exception as e:
                chk.undecided_(key, "could not explore: %s" % e)
                continue
            want = {"Start": OFF, "End": tm.binop("add", LEN, OFF), "Current": tm.binop("add", POS, OFF)}.get(vn)
            if want is None:
                chk.undecided_(key, "unknown SeekFrom variant %s" % vn)
                continue
            kinds = set()
            for r in rs:
                if r.outcome != "return" or not isinstance(r.ret, Agg):
                    chk.fail(key + "/paths", "%s %s" % (r.outcome, r.detail))
                    continue
                neg = cc_dec(r, tm.cmp("slt", want, K(0, 64)))
                p2 = r.store[("h", "bc")].fields[pos_i]
                if r.ret.variant == 0:
                    ok = neg is False and isinstance(p2, T) and tm.equiv(p2, want) is True and isinstance(r.ret.fields[0], T) and tm.equiv(r.ret.fields[0], want) is True
                    chk.check(ok, key, "seek(%s(off)) succeeds with position %s / result %s where the target %s is negative: %s; documented: position = result = %s" % (
                        vn, tm.show(p2) if isinstance(p2, T) else p2, r.ret.fields[0], tm.show(want), neg, tm.show(want)))
                    kinds.add("ok")
                else:
                    chk.check(neg is True and p2 is POS, key + "/error", "seek(%s(off)) fails although the target is not negative, or moves the position on failure" % vn)
                    kinds.add("err")
                chk.count("asset-adapter-paths")
            chk.check(kinds == {"ok", "err"}, key + "/cases", "cases %s" % sorted(kinds))
    # ---- OS position
    try:
        ISP = prog.fn_path("rustzx_utils", "into_std_seek_pos")
    except Exception:
        ISP = None
    std_names = [v["name"] for v in prog.adt("std::io::SeekFrom")["variants"]] if "std::io::SeekFrom" in prog.adts else ["Start", "End", "Current"]

    def same_pos(v, vi):
        return isinstance(v, Agg) and v.kind == ("adt", "std::io::SeekFrom") and v.variant < len(std_names) and std_names[v.variant] == vnames[vi] and \
            len(v.fields) == 1 and isinstance(v.fields[0], T) and (v.fields[0] is OFF or tm.equiv(v.fields[0], OFF) is True)
    FILE_SEEK = [p for p in prog.fns if p.startswith("<rustzx_utils::") and "FileAsset" in p and p.endswith("SeekableAsset>::seek")]
    FILE_READ = [p for p in prog.fns if p.startswith("<rustzx_utils::") and "FileAsset" in p and p.endswith("LoadableAsset>::read")]
    fwd = []
    for name in ("GzipAsset", "DynamicAsset"):
        for m in ("SeekableAsset>::seek", "LoadableAsset>::read"):
            fwd.append((name, m, [p for p in prog.fns if p.startswith("<rustzx_utils::") and name in p and p.endswith(m)]))

    def explore(path, adt, arg):
        w = Walker(prog)
        w.effect_hook = lambda w_, st, cp, a, d, wh: EffectResult(None, havoc=False)
        for q in prog.fns:
            if "BufferCursor<" in q:
                w.opaque_paths.add(q)
        st = w.new_state()
        st.store[("h", "as")] = w.materialise(SymObj("as", ("adt", adt, ())), st)
        st.store[("h", "buf")] = SymArr("buf", ("int", 8, False, False), tm.sym("BUFLEN", 64))
        a = Ref(("h", "buf"), (), True, tm.sym("BUFLEN", 64)) if arg == "buf" else arg
        return w.run(prog.fn(path), [Ref(("h", "as"), (), True), a], genv={}, state=st)
    if len(FILE_SEEK) == 1 and len(FILE_READ) == 1:
        FA = prog.adt_path("rustzx_utils", "FileAsset")
        for vi, vn in enumerate(vnames):
            key = "T-SIB/assets/FileAsset::seek/%s" % vn
            try:
                rs = explore(FILE_SEEK[0], FA, Agg(("adt", SF), vi, [OFF]))
            except Exception as e:
                chk.undecided_(key, "could not explore: %s" % e)
                continue
            for r in rs:
                sk = [e for e in r.trace if e.path.endswith("std::io::Seek>::seek")]
                chk.check(r.outcome == "return" and len(sk) == 1 and same_pos(sk[0].args[1], vi), key,
                          "seek(%s(off)) on a file asset asks the OS for %s; the in-memory asset moves to %s(off)" % (vn, [e.args[1:] for e in sk], vn))
                chk.count("asset-adapter-paths")
        key = "T-SIB/assets/FileAsset::read"
        try:
            for r in explore(FILE_READ[0], FA, "buf"):
                rd = [e for e in r.trace if e.path.endswith("std::io::Read>::read")]
                ok = r.outcome == "return" and len(rd) == 1 and isinstance(rd[0].args[1], Ref) and rd[0].args[1].obj == ("h", "buf") and rd[0].args[1].proj == ()
                chk.check(ok, key, "read on a file asset does not read once into the caller's whole buffer: %s" % [e.args[1:] for e in rd])
                chk.count("asset-adapter-paths")
        except Exception as e:
            chk.undecided_(key, "could not explore: %s" % e)
    else:
        chk.undecided_("T-SIB/assets/FileAsset/anchor", "seek %s read %s" % (FILE_SEEK, FILE_READ))
    for name, m, paths in fwd:
        short = m.split("::")[-1]
        key = "T-SIB/assets/%s::%s" % (name, short)
        if len(paths) != 1:
            chk.undecided_(key + "/anchor", "%s" % paths)
            continue
        A = prog.adt_path("rustzx_utils", name)
        cases = [(vi, Agg(("adt", SF), vi, [OFF])) for vi in range(len(vnames))] if short == "seek" else [(None, "buf")]
        for vi, arg in cases:
            try:
                rs = explore(paths[0], A, arg)
            except Exception as e:
                chk.undecided_(key, "could not explore: %s" % e)
                continue
            for r in rs:
                calls = [e for e in r.trace if e.path.endswith("::" + short) and ("Asset" in e.path)]
                ok = r.outcome == "return" and len(calls) == 1 and len(r.trace) == 1
                if ok and short == "seek":
                    a1 = calls[0].args[1]
                    ok = isinstance(a1, Agg) and a1.kind == ("adt", SF) and a1.variant == vi and a1.fields[0] is OFF
                elif ok:
                    a1 = calls[0].args[1]
                    ok = isinstance(a1, Ref) and a1.obj == ("h", "buf") and a1.proj == ()
                ok = ok and isinstance(r.ret, SymObj) and r.ret.name.startswith("ret0:")
                chk.check(ok, key, "%s::%s does not forward the call once with the caller's argument and return its result: calls %s, result %s" % (
                    name, short, [(e.path.split("::")[-1], e.args[1:]) for e in r.trace], r.ret))
                chk.count("asset-adapter-paths")
    if ISP is not None:
        for vi, vn in enumerate(vnames):
            w = Walker(prog)
            rs = w.run(prog.fn(ISP), [Agg(("adt", SF), vi, [OFF])], genv={})
            chk.check(len(rs) == 1 and rs[0].outcome == "return" and same_pos(rs[0].ret, vi), "T-SIB/assets/into_std_seek_pos/%s" % vn,
                      "%s(off) becomes %s for the OS" % (vn, rs[0].ret if rs else None))
            chk.count("asset-adapter-paths")
    chk.floor("asset-adapter-paths", 20)


def cc_dec(r, t):
    from .c04 import cc_decide
    return cc_decide(r, t)
