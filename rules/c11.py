"""C11 — tape waveform: pulse state machine table, delay countdown guard."""
from . import corecommon as cc
from . import c04
from .tapecommon import TapeNames, tap_state, describe_state, TAPOBJ, A
from zx import term as tm
from zx import lia
from zx.term import K, T
from zx.walk import Walker, Agg, Ref, EffectResult, UNIT, SymObj

LEVEL = "proof"

EXPL = (
    "Decided: the per-state summaries of Tap::process_clocks (block access as effects, symbolic pulse counter / bit mask / "
    "current byte) form the complete transition table and equal the standard loader waveform: Play -> level high, 2168 T, "
    "Pilot{8063 if flag byte == 0 else 3223}; Pilot{n} toggles, 2168 T, n-1, and at 0 -> 667 T Sync; Sync toggles, 735 T, "
    "first bit mask 0x80; NextBit{m} toggles, 855 T if (byte & m)==0 else 1710 T, second half repeats the same length, m>>1, "
    "next byte at m==0 (no time consumed fetching it), end of block -> toggle, 3,500,000 T pause, next block; end of tape -> "
    "Stop + rewind.  Guard: while delay > 0 nothing but the countdown happens and the countdown stores only 0 (clocks > "
    "delay) or delay - clocks, so no pulse is shorter than nominal; a stopped deck changes nothing.  With C05 (the whole "
    "clk of every wait reaches process_clocks) and C07 (EAR -> bit 6).  Upper jitter bound: the largest step passed to "
    "process_clocks over every call site of the workspace (constants of the CPU's bus calls, the contention table "
    "maximum, sums of the two; T-BOUND) is S = 8, and by the countdown form a pulse lasts at most nominal + 2S - 1 <= "
    "nominal + 32.  NOT decided: equivalence of real-time loading with fast loading (whole-program)."
)

PILOT, HDR, DATA, S1, S2, ONE, ZERO, PAUSE = 2168, 8063, 3223, 667, 735, 1710, 855, 3500000


MAX_EXTRA = 32      # the statement: no pulse more than 32 T-states longer than nominal


def make_argbound(prog, names, cg):
    """T-BOUND engine with the one call result it needs bounded: the contention table maximum (every machine)"""
    from . import argbound
    CCP = prog.fn_path("rustzx_core", "ZXMachine::contention_clocks")

    def ret_bound(path):
        if path != CCP:
            return None
        best = -1
        for m in names.machine_variants():
            w = Walker(prog)
            rs = w.run(prog.fn(CCP), [cc.machine_value(prog, names, m), tm.sym("T", 64)], genv={})
            if not rs:
                return None
            for r in rs:
                if r.outcome != "return" or not isinstance(r.ret, T):
                    return None
                best = max(best, tm.urange(r.ret)[1])
        return best
    return argbound.ArgBound(prog, cg, ret_bound)


def step_bound(chk, prog):
    """upper jitter bound.  A pulse of nominal length N starts at the call that runs the state machine (edge at that
    call's time) and ends at the first call entered with delay == 0; the calls in between count N down and the one that
    reaches 0 may overshoot by at most (its step - 1) (countdown rule above), after which exactly one more call passes
    before the state machine runs again (table rows: every state acts at delay == 0).  With S the largest step ever
    passed to Tap::process_clocks the pulse therefore lasts at most N + (S - 1) + S.  S is bounded over every call
    site of the whole workspace (T-BOUND, rules/argbound.py)."""
    from . import argbound
    names = cc.Names(prog)
    cg, fa = cc.scans(prog)
    chk.rule("T-BOUND", "largest step ever passed to Tap::process_clocks, over all call sites of the workspace: pulse <= nominal + 2*step - 1 <= nominal + 32")
    ab = make_argbound(prog, names, cg)
    tp = [p for p in prog.fns if p.endswith("::process_clocks") and "::tap::Tap<" in p]
    key = "T-BOUND/Tap::process_clocks/step"
    if len(tp) != 1:
        chk.undecided_(key + "/anchor", "Tap's process_clocks not unique: %s" % tp)
        return
    S = ab.param(tp[0], 1)
    chain = [v for k, v in ab.why.items() if k[0] == tp[0]]
    if not isinstance(S, int):
        chk.fail(key, "the step passed to Tap::process_clocks is not bounded: %s" % "; ".join(
            v for v in ab.why.values() if "not bounded" in v or "outside" in v or "value" in v or "no call" in v)[:600])
        return
    chk.check(2 * S - 1 <= MAX_EXTRA, key,
              "a single step of up to %d T-states reaches the tape (%s): a pulse can be %d T-states longer than nominal, the statement allows %d" % (
                  S, "; ".join(chain), 2 * S - 1, MAX_EXTRA))
    chk.count("step-call-sites", ab.sites)
    chk.floor("step-call-sites", 60)
    chk.sample({"largest_step": S, "pulse_excess_at_most": 2 * S - 1,
                "maximal_sites": dict(("::".join(k[0].replace("<", "").replace(">", "").split("::")[-2:]) + "#%d" % k[1], v) for k, v in ab.why.items())})


def run(chk):
    prog = cc.program("A")
    tn = TapeNames(prog)
    chk.rule("T-TABLE", "transition table of the pulse state machine == standard waveform")
    chk.rule("T-GUARD", "state machine entered only at delay == 0; countdown stores 0 or delay - clocks; Stop is inert")
    PCL = tn.method("process_clocks")
    NB, NBB, RW = tn.method("next_block"), tn.method("next_block_byte"), tn.method("rewind")
    bit0 = tm.sym("tap.curr_bit", 1)
    byte0 = tm.sym("tap.curr_byte", 8)
    clocks = tm.sym("clocks", 64)

    def explore(state, delay):
        w = Walker(prog)
        w.opaque_paths |= {NB, NBB, RW}
        w.effect_hook = lambda w_, st, path, a, d, wh: EffectResult(None, havoc=False)
        st = tap_state(w, prog, tn, state=state, overrides={"delay": delay})
        rs = w.run(prog.fn(PCL), [Ref(TAPOBJ, (), True), clocks], genv={"A": A}, state=st)
        return rs

    def final(r):
        t = r.store[TAPOBJ]
        return (describe_state(tn, t.fields[tn.fi("state")]), t.fields[tn.fi("delay")], t.fields[tn.fi("curr_bit")], t.fields[tn.fi("curr_byte")])

    def kconst(t, v):
        return isinstance(t, T) and t.is_const() and t.val == v

    def fbits(variant, field):
        """width of a state field as declared (a counter may be usize or a narrower integer)"""
        for v in prog.adt(tn.TS)["variants"]:
            if v["name"] == variant:
                for f in v["fields"]:
                    if f["name"] == field and f["ty"][0] == "int":
                        return f["ty"][1] or 64
        return 64
    toggled = tm.unop("not", bit0)
    # ---- guard: delay > 0
    for vn in tn.variants:
        rs = explore(vn, tm.sym("DELAY", 64))
        key = "T-GUARD/Tap::process_clocks/%s" % vn
        if not rs or any(r.outcome != "return" for r in rs):
            chk.fail(key + "/paths", "paths: %s" % [(r.outcome, r.detail) for r in rs if r.outcome != "return"][:2])
            continue
        D = tm.sym("DELAY", 64)
        for r in rs:
            stt, dl, bit, byte = final(r)
            nz = c04.cc_decide(r, tm.cmp("ult", K(0, 64), D))
            if vn == "Stop":
                chk.check(not r.trace and stt[0] == "Stop" and dl is D and bit is bit0, key + "/inert", "a stopped deck changes state: %s %s %s" % (stt, dl, bit))
                continue
            if nz is True:
                gt = c04.cc_decide(r, tm.cmp("ult", D, clocks))
                # the stored delay is 0 when clocks > delay and delay - clocks otherwise, whether the code branches
                # on it or computes it in one expression (saturating_sub): decided per case by linear arithmetic
                okd = isinstance(dl, T)
                if okd:
                    for case in ((1, lambda ctx: lia.lin(dl, ctx)), (0, lambda ctx: lia.lin(dl, ctx) - lia.lin(D, ctx) + lia.lin(clocks, ctx))):
                        if gt is not None and gt != bool(case[0]):
                            continue
                        f2 = dict(r.facts)
                        f2[tm.cmp("ult", D, clocks)] = K(case[0], 1)
                        okd = okd and lia.prove(f2, [], [(case[1], "==")], [dl])
                ok = (not r.trace) and stt[0] == vn and bit is bit0 and byte is byte0 and okd
                chk.check(ok, key + "/countdown", "with delay > 0 (clocks > delay: %s) the step gives state %s delay %s level %s effects %s" % (
                    gt, stt, dl, bit, r.trace))
                chk.count("countdown-paths")
    # ---- table at delay == 0
    rows = 0
    for vn in tn.variants:
        if vn == "Stop":
            continue
        rs = explore(vn, K(0, 64))
        key = "T-TABLE/Tap::process_clocks/%s" % vn
        if not rs or any(r.outcome != "return" for r in rs):
            chk.fail(key + "/paths", "paths: %s" % [(r.outcome, r.detail) for r in rs if r.outcome != "return"][:2])
            continue
        for r in rs:
            stt, dl, bit, byte = final(r)
            calls = [e.path.split("::")[-1] for e in r.trace if e.path in (NB, NBB, RW)]
            err = isinstance(r.ret, Agg) and r.ret.variant == 1
            var = dict((c[1], c[2]) for c in r.pc if c[0] == "variant")
            rows += 1
            if err:
                # a failing block access is propagated without consuming time or toggling
                chk.check(kconst(dl, 0) and bit is bit0, key + "/error", "an asset error changes the waveform: delay %s level %s" % (dl, bit))
                continue
            if vn == "Play":
                nb = [e for e in r.trace if e.path == NB]
                has_block = c04.cc_decide(r, nb[0].ret.fields[0] if isinstance(nb[0].ret, Agg) else tm.sym("ret0:next_block.Ok.0", 1)) if nb else None
                if calls[:1] != ["next_block"]:
                    chk.fail(key + "/next-block", "Play does not start by fetching the next block: %s" % calls)
                    continue
                if "rewind" in calls:
                    chk.check(stt[0] == "Stop" and calls == ["next_block", "rewind"], key + "/end-of-tape", "end of tape must stop and rewind: %s %s" % (stt, calls))
                    continue
                if calls != ["next_block", "next_block_byte"]:
                    chk.fail(key + "/calls", "Play path with calls %s" % calls)
                    continue
                bsym = [e for e in r.trace if e.path == NBB][0]
                bname = "ret%d:next_block_byte.Ok.0.Some.0" % r.trace.index(bsym)
                b = tm.sym(bname, 8)
                is0 = c04.cc_decide(r, tm.cmp("eq", b, K(0, 8)))
                if is0 is None:
                    chk.undecided_(key + "/flag", "path does not decide flag byte == 0")
                    continue
                n = HDR if is0 else DATA
                ok = stt[0] == "Pilot" and kconst(stt[1], n) and kconst(dl, PILOT) and bit is tm.TRUE and \
                    (tm.subst(byte, r.facts) is tm.subst(b, r.facts))
                chk.check(ok, key + "/pilot", "block with flag %s 0x00 starts with %s, delay %s, level %s, byte %s; documented Pilot{%d}, %d T, high" % (
                    "==" if is0 else "!=", stt, dl, bit, byte, n, PILOT))
            elif vn == "Pilot":
                nb_ = fbits("Pilot", "pulses_left")
                n0 = tm.sym("S.Pilot.pulses_left", nb_)
                last = c04.cc_decide(r, tm.cmp("eq", tm.binop("sub", n0, K(1, nb_)), K(0, nb_)))
                if last:
                    ok = stt[0] == "Sync" and kconst(dl, S1) and bit is toggled
                else:
                    ok = stt[0] == "Pilot" and tm.equiv(stt[1], tm.binop("sub", n0, K(1, nb_))) is True and kconst(dl, PILOT) and bit is toggled
                chk.check(last is not None and ok, key + "/pulse", "pilot pulse (last: %s): -> %s, %s T, level %s" % (last, stt, dl, bit))
            elif vn == "Sync":
                chk.check(stt[0] == "NextBit" and kconst(stt[1], 0x80) and kconst(dl, S2) and bit is toggled, key,
                          "first sync -> %s, %s T, level %s; documented second sync 735 T then MSB first" % (stt, dl, bit))
            elif vn in ("NextBit", "NextByte"):
                if vn == "NextByte":
                    if calls != ["next_block_byte"]:
                        chk.fail(key + "/calls", "NextByte path with calls %s" % calls)
                        continue
                    e = [x for x in r.trace if x.path == NBB][0]
                    none = any(c[2] == "None" for c in r.pc if c[0] == "variant" and c[1].endswith(".Ok.0"))
                    if none:
                        chk.check(stt[0] == "Play" and kconst(dl, PAUSE) and bit is toggled, key + "/pause",
                                  "end of block -> %s, %s T, level %s; documented pause 3500000 T then next block" % (stt, dl, bit))
                        continue
                    bname = "ret%d:next_block_byte.Ok.0.Some.0" % r.trace.index(e)
                    b = tm.sym(bname, 8)
                    mask = K(0x80, 8)
                    chk.check(byte is b, key + "/byte", "the fetched byte is not the one being sent")
                else:
                    b = byte0
                    mask = tm.sym("S.NextBit.mask", 8)
                zero = c04.cc_decide(r, tm.cmp("eq", tm.binop("and", b, mask), K(0, 8)))
                d = ZERO if zero else ONE
                ok = zero is not None and stt[0] == "BitHalf" and kconst(stt[1], d) and (stt[2] is mask) and kconst(dl, d) and bit is toggled
                chk.check(ok, key + "/bit", "bit (%s) -> %s, %s T, level %s; documented 855 T for 0 / 1710 T for 1, same mask" % (
                    "0" if zero else "1", stt, dl, bit))
            elif vn == "BitHalf":
                m0 = tm.sym("S.BitHalf.mask", 8)
                db_ = fbits("BitHalf", "half_bit_delay")
                d0 = tm.sym("S.BitHalf.half_bit_delay", db_)
                if db_ != 64:
                    d0 = tm.zext(d0, 64)
                m1 = tm.binop("lshr", m0, K(1, 8))
                done = c04.cc_decide(r, tm.cmp("eq", m1, K(0, 8)))
                if done:
                    ok = stt[0] == "NextByte"
                else:
                    ok = stt[0] == "NextBit" and tm.equiv(stt[1], m1) is True
                chk.check(done is not None and ok and (dl is d0 or (isinstance(dl, T) and tm.equiv(dl, d0) is True)) and bit is toggled, key + "/second-half",
                          "second half pulse -> %s, %s T, level %s; documented same length, mask >> 1" % (stt, dl, bit))
            elif vn == "Pause":
                chk.check(stt[0] == "Play" and kconst(dl, PAUSE) and bit is toggled, key, "pause -> %s, %s T" % (stt, dl))
    chk.count("table-rows", rows)
    chk.floor("table-rows", 18)
    chk.floor("countdown-paths", 7)
    chk.sample({"pulse_lengths": {"pilot": PILOT, "sync": [S1, S2], "bit0": ZERO, "bit1": ONE, "pause": PAUSE}, "rows": rows})
    step_bound(chk, prog)
    # the pulse lengths are counted in T-states only if every wait reaches the tape whole and exactly once: the
    # '/tape-gets-clk' obligation of C05's walk of wait_internal (both machines)
    from . import c05
    from zx.report import FilteredCheck
    chk.rule("T-PAIR (shared with C05)", "wait_internal hands the whole clk to Tap::process_clocks exactly once on every path")
    fc = FilteredCheck(chk, lambda k: k.endswith("/tape-gets-clk"), "c05")
    names_ = cc.Names(prog)
    for m_ in names_.machine_variants():
        c05.wait_internal(fc, prog, names_, m_)
    chk.check(fc.forwarded >= 4, "T-PAIR/ZXController::wait_internal/tape-gets-clk/judged", "judged on %d paths only" % fc.forwarded)
    # block framing / window invariant of the TAP reader (shared rule, rules/tapeinv.py)
    from . import tapeinv
    chk.rule("T-INV", "Tap window invariant: inductive over every writer and every exit; asserts and bounds implied; headers read only at block ends")
    tapeinv.run(chk, prog)
    return chk.finish(EXPL)
