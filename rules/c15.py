"""C15 — loaders are total: potential-panic inventory, allocation rule, EOF rule."""
import os
import re

from . import corecommon as cc
from . import c04
from . import loaders as ld
from .tapecommon import TapeNames, tap_state, TAPOBJ, A as TAPA
from zx import cpu
from zx import term as tm
from zx.term import K, T
from zx.walk import Walker, Agg, Ref, EffectResult, UNIT, SymObj, SymArr, Opaque

LEVEL = "other"

EXPL = (
    "Decided (inventory rule): every loader entry point (sna/szx/scr load, TAP open / block / byte access, fast loader, ROM "
    "and tape loading wrappers, BufferCursor, read_exact, VTX load, Player::new) is explored path-sensitively with the asset "
    "as an opaque source of arbitrary bytes, arbitrary lengths and arbitrary failures; every Assert terminator (bounds, "
    "overflow, division), every slice/Vec index or range, copy_from_slice length and every reachable panicking call whose "
    "condition is not discharged by constants, by the branch conditions that dominate it or by the interval of its operands "
    "is a *site*.  A site must be (a) absent, (b) listed in reviewed_sites.txt with the invariant that makes it unreachable, "
    "or (c) a finding.  Allocation rule: no allocation size derived from asset bytes without a dominating bound.  EOF rule: a "
    "loop that consumes an opaque read must leave the loop when the read returns 0.  RAM/ROM vector lengths are taken from "
    "the constructor (C06) and never change (mod-ref).  NOT decided: running time/memory of the external decompressors "
    "(miniz_oxide, flate2, delharc: no MIR), and the clause 'still emulates afterwards' beyond the fact that the loaders "
    "store only validated values into fields that index tables (IM, border colour, RAM page, paging latch)."
)

# entries whose successful end is covered by a separate exploration from a cut point
NO_OK_END = {"Vtx::load"}

REVIEWED = os.path.join(os.path.dirname(os.path.dirname(os.path.abspath(__file__))), "reviewed_sites.txt")


def load_reviewed():
    out = {}
    if os.path.exists(REVIEWED):
        for line in open(REVIEWED):
            line = line.strip()
            if not line or line.startswith("#"):
                continue
            k, _, why = line.partition("  ")
            out[k.strip()] = why.strip()
    return out


_OWNER = {"prog": None, "cg": None, "memo": {}}


def owner_fn(path):
    """the function a site is attributed to: a private helper (or closure) with a single calling function belongs to
    that caller, so that extracting part of a function into a helper does not change the key of a reviewed site"""
    prog, cg = _OWNER["prog"], _OWNER["cg"]
    if prog is None:
        return path
    if path in _OWNER["memo"]:
        return _OWNER["memo"][path]
    cur = cc.strip_closure(path)
    for _ in range(6):
        f = prog.fns.get(cur)
        if f is None or not f.local or f.reachable or f.vis == "pub":
            break
        a = f.assoc or {}
        if a.get("trait") or a.get("trait_item"):
            break
        callers = set(cc.strip_closure(x.fn.path) for x in cg.callers_of(cur)) - {cur}
        for cl in [p2 for p2 in prog.fns if p2.startswith(cur + "::{closure")]:
            callers |= set(cc.strip_closure(x.fn.path) for x in cg.callers_of(cl)) - {cur}
        if len(callers) != 1:
            break
        cur = callers.pop()
    _OWNER["memo"][path] = cur
    return cur


def _panic_path_infeasible(r):
    """the last branch condition on the way into a panicking call is refuted by the facts recorded before it (linear
    arithmetic over the path facts: e.g. `page <= 7` refutes `0x20000 < (page + 1) << 14`)"""
    from . import tapeinv
    last = None
    for c in reversed(r.pc):
        if c[0] in ("eq", "ne") and isinstance(c[1], T) and c[1].bits == 1 and not c[1].is_const():
            last = c
            break
    if last is None:
        return False
    cond = last[1]
    taken = last[2] if last[0] == "eq" else (1 if 0 in last[2] else 0 if 1 in last[2] else None)
    if taken not in (0, 1):
        return False
    before = dict((k, v) for k, v in r.facts.items() if k is not cond)
    try:
        return bool(tapeinv._prove_bool(before, [], cond, 1 - taken))
    except Exception:
        return False


def site_key(entry, s):
    fn = re.sub(r"^rustzx_core::|^vtx::|^rustzx_utils::", "", owner_fn(s["fn"]))
    kind = s["kind"]
    det = ""
    if "index" in s and isinstance(s["index"], T):
        det = "index=%s" % (s["index"].val if s["index"].is_const() else "var")
    elif kind.startswith("slice:"):
        # which container: the bound operand (its length), with run-specific numbering removed
        c = s["cond"]
        bound = c.args[1] if c.op in ("ult", "ule") else c.args[0]
        det = c.op + ":" + re.sub(r"\d+", "", tm.show(bound))[:60]
    elif kind.startswith("assert:overflow"):
        c = s["cond"]
        det = c.op
    return "%s/%s/%s" % (fn, kind, det)


def run(chk):
    prog = cc.program("A")
    ln = ld.LoaderNames(prog)
    chk.rule("INVENTORY", "every undischarged assert / index / panic site reachable from a loader entry is reviewed or a finding")
    chk.rule("ALLOC", "no allocation size tainted by asset bytes without a dominating bound")
    chk.rule("EOF", "a loop consuming an opaque read leaves when the read returns 0")
    reviewed = load_reviewed()
    _OWNER["prog"], _OWNER["cg"], _OWNER["memo"] = prog, cc.scans(prog)[0], {}
    deep = chk.tier == 'thorough'     # deeper unrolling of the loaders' loops
    inv = {}
    from . import tapeinv
    _e, _h = tapeinv.window_methods(prog, with_helpers=True)
    tinv_methods = set(_e) | set(_h)
    n_tinv, n_lia = [0], [0]
    lib_effects = {}

    def collect(entry, rs, ignore_budget=False):
        for r in rs:
            if r.outcome in ("error", "budget", "stuck"):
                if r.outcome == "budget" and ignore_budget:
                    continue
                chk.undecided_("INVENTORY/%s/exploration" % entry, "exploration of %s failed: %s %s" % (entry, r.outcome, r.detail))
                continue
            for s in r.sites:
                if s.get("fn") in tinv_methods:
                    # obligation (a) of T-INV: every assert / bound of the window methods is implied by the
                    # (inductive) window invariant — proved below from *every* state satisfying it
                    n_tinv[0] += 1
                    continue
                c = s.get("cond")
                nb = s.get("nfacts_before")
                if isinstance(c, T) and nb is not None:
                    before = dict(list(r.facts.items())[:nb])
                    try:
                        if tapeinv._prove_bool(before, [], c, s.get("expected", 1)):
                            n_lia[0] += 1      # implied by the comparisons between symbolic values that dominate it
                            continue
                    except Exception:
                        pass
                inv.setdefault(site_key(entry, s), []).append((entry, s, r))
            if r.outcome == "panic" and _panic_path_infeasible(r):
                n_lia[0] += 1       # the branch into the panic contradicts the comparisons made before it
                continue
            if r.outcome == "panic":
                d = r.detail
                fn = re.sub(r"^rustzx_core::|^vtx::|^rustzx_utils::", "", str(d[2]) if len(d) > 2 else "?")
                callee = str(d[1]).split("::")[-1]
                k = "%s/panic/%s" % (fn, callee)
                # a panic inside a shared helper is judged per calling function: a reviewed argument for one caller
                # says nothing about another
                stack = [x for x in getattr(r, "stack", []) if x in prog.fns and prog.fns[x].local]
                if len(stack) >= 2 and len(d) > 2 and cc.strip_closure(stack[-1]) == cc.strip_closure(str(d[2])):
                    helper = cc.strip_closure(stack[-1])
                    ncallers = len(set(cc.strip_closure(x.fn.path) for x in _OWNER["cg"].callers_of(helper)))
                    if ncallers > 1:
                        k += "@" + re.sub(r"^rustzx_core::|^vtx::|^rustzx_utils::", "", owner_fn(stack[-2]))
                inv.setdefault(k, []).append((entry, {"kind": "panic", "fn": d[2] if len(d) > 2 else "?", "loc": d[3] if len(d) > 3 else "?", "cond": None}, r))
            if r.outcome == "unreachable":
                k = "%s/unreachable" % re.sub(r"^rustzx_core::", "", str(r.detail[0]))
                inv.setdefault(k, []).append((entry, {"kind": "unreachable", "fn": r.detail[0], "loc": r.detail[1], "cond": None}, r))
        for r in rs:
            for e in r.trace:
                if not (e.path in prog.fns and prog.fns[e.path].local):
                    lib_effects.setdefault(e.path, []).append((entry, e, r))
        # coverage: an entry whose bounded exploration never reaches a successful end leaves the code behind its cut
        # loops unexplored (that was the case for Vtx::load, whose tail is now explored from a cut point)
        okret = [r for r in rs if r.outcome == "return" and not (isinstance(r.ret, Agg) and r.ret.kind == ("adt", "core::result::Result") and r.ret.variant == 1)]
        if not okret and entry not in NO_OK_END:
            chk.undecided_("INVENTORY/%s/reaches-end" % entry, "no explored path of %s ends successfully (outcomes %s): code behind a cut loop is not covered" % (
                entry, sorted(set(r.outcome for r in rs))))
        chk.count("paths", len(rs))
        chk.count("entries")
    # RAM/ROM vector lengths per machine (constructor, C06) as an invariant of the receiving emulator
    sizes = {"Sinclair48K": (0x4000, 0xC000), "Sinclair128K": (0x8000, 0x20000)}

    def emu_state(w, m):
        st = ld.emulator_state(w, prog, ln, m)
        emu = st.store[ld.EMU]
        ki = prog.field_index(ln.EM, "controller")
        ctl = emu.fields[ki]
        mi = prog.field_index(ln.CTL, "memory")
        mem = w.materialise(SymObj("emu.controller.memory", ("adt", ln.MEMORY, ())), st)
        mem = mem.with_field(prog.field_index(ln.MEMORY, "rom"), SymArr("rom", ("int", 8, False, False), K(sizes[m][0], 64)))
        mem = mem.with_field(prog.field_index(ln.MEMORY, "ram"), SymArr("ram", ("int", 8, False, False), K(sizes[m][1], 64)))
        st.store[ld.EMU] = emu.with_field(ki, ctl.with_field(mi, mem))
        return st
    common_opaque = [ln.POP, ln.REFRESH, ln.SETBORDER, ln.REMAP, ln.SWITCH, ln.WRITE_IO]
    for p in prog.fns:
        if p.endswith("decompress_zlib_stream") or "CodeGenerator" in p or p.endswith("ZXBeeper::change_state") or p.endswith("ZXAyChip::select_reg") \
                or p.endswith("::set_ay_enabled") or (p.startswith("<aym::") and p.endswith("::write_register")):
            common_opaque.append(p)
    allocs = []

    def alloc_hook(w_, st, path, args, dty, where):
        if path.endswith("vec::from_elem") or path.endswith("with_capacity"):
            allocs.append((path, args, list(st.pc), where))
        return None
    for m in ln.machine_variants():
        for entry, lb in (("snapshot::sna::load", 8), ("snapshot::szx::load", 1), ("screenshot::scr::load", 2)):
            w = ld.make_loader_walker(prog, ln, opaque=common_opaque, loop_bound=lb, max_paths=6000)
            st = emu_state(w, m)
            rs = ld.run_loader(prog, ln, w, entry, st)
            collect("%s@%s" % (entry.split("::")[-2], m), rs)
            for r in rs:
                for e in r.trace:
                    if e.path.endswith("vec::from_elem"):
                        n = e.args[1]
                        if isinstance(n, T) and not n.is_const() and any(s.startswith("file") for s in tm.syms(n)):
                            bounded = any(c[0] in ("eq", "ne") and isinstance(c[1], T) and (tm.syms(n) & tm.syms(c[1])) and c[1].op in ("ult",) for c in r.pc)
                            chk.check(bounded, "ALLOC/%s/from_elem" % entry.split("::")[-2],
                                      "%s allocates a buffer of %s bytes taken from the file without comparing it with anything first (a 4 GiB request from a 12-byte file)" % (entry, tm.show(n)))
                            chk.count("alloc-sites")
        # wrappers
        for entry, args in (("Emulator::<H>::load_rom", [Opaque("romset")]),):      # the public entry; helpers are inlined
            w = ld.make_loader_walker(prog, ln, opaque=common_opaque, loop_bound=5 if deep else 3)
            st = emu_state(w, m)
            fn = prog.fn(prog.fn_path("rustzx_core", entry))
            rs = w.run(fn, [Ref(ld.EMU, (), True)] + args, genv={"H": ld.H}, state=st)
            collect("%s@%s" % (entry.split("::")[-1], m), rs)
        # fast loader
        w = ld.make_loader_walker(prog, ln, opaque=common_opaque + [ln.bus("write_internal"), prog.fn_path("rustzx_core", "ZXMemory::read")] +
                                  [p for p in prog.fns if "ZXTape<A> as" in p and (p.endswith("::next_block") or p.endswith("::next_block_byte"))], loop_bound=5 if deep else 3)
        st = emu_state(w, m)
        rs = ld.run_loader(prog, ln, w, "fastload::tap::fast_load_tap", st, extra_args=[])
        collect("fast_load_tap@%s" % m, rs)
    # TAP deck
    tn = TapeNames(prog)
    for meth, extra in (("next_block", []), ("next_block_byte", []), ("rewind", [])):
        w = Walker(prog, loop_bound=2, max_paths=3000)
        w.opaque_paths |= {ld.READ_EXACT, ld.SEEK}
        if meth == "next_block":
            w.opaque_paths.add(tn.method("next_block_byte"))   # explored on its own below
        w.effect_hook = lambda w_, st, path, a, d, wh: EffectResult(None, havoc=(path == ld.READ_EXACT))
        st = tap_state(w, prog, tn)
        rs = w.run(prog.fn(tn.method(meth)), [Ref(TAPOBJ, (), True)] + extra, genv={"A": TAPA}, state=st)
        collect("Tap::%s" % meth, rs)
    # BufferCursor
    BC = prog.adt_path("rustzx_core", "BufferCursor")
    for meth, args in (("read", [Ref(("h", "dst"), (), True, tm.sym("DSTLEN", 64))]), ("seek", [SymObj("pos", ("adt", prog.adt_path("rustzx_core", "SeekFrom"), ()))])):
        c = [p for p in prog.fns if p.startswith("<rustzx_core::") and "BufferCursor<T>" in p and p.endswith("::" + meth)]
        if len(c) != 1:
            chk.undecided_("anchor/BufferCursor::%s" % meth, "%s" % c)
            continue
        w = Walker(prog, loop_bound=2)

        def hook(w_, st, path, a, d, wh):
            if path.endswith("AsRef::as_ref"):
                oid = ("h", "data")
                if oid not in st.store:
                    st.store[oid] = SymArr("data", ("int", 8, False, False), tm.sym("DATALEN", 64))
                return EffectResult(Ref(oid, (), False, tm.sym("DATALEN", 64)), havoc=False)
            return EffectResult(None, havoc=False)
        w.effect_hook = hook
        st = w.new_state()
        st.store[("h", "cur")] = w.materialise(SymObj("cur", ("adt", BC, (("param", "T", 0),))), st)
        st.store[("h", "dst")] = SymArr("dst", ("int", 8, False, False), tm.sym("DSTLEN", 64))
        rs = w.run(prog.fn(c[0]), [Ref(("h", "cur"), (), True)] + args, genv={"T": ("param", "T", 0)}, state=st)
        collect("BufferCursor::%s" % meth, rs)
    seek_arguments(chk, prog, framed=tinv_methods)
    # VTX
    vtx(chk, prog, collect)
    # library calls that stayed opaque effects (no MIR, no model): the inventory sees no panic inside them, so each must
    # be known not to panic for any argument (read in the std / crate documentation), or be one of the external
    # decoders the statement of what is decided excludes; anything else fails closed
    TOTAL_LIB = ("alloc::str::<impl str>::to_uppercase", "alloc::vec::from_elem", "aym::AymBackend::new", "byteorder::io::ReadBytesExt::read_",
                 "core::convert::AsRef::as_ref", "core::fmt::", "core::panicking::", "core::slice::<impl [T]>::copy_from_slice",
                 "core::str::converts::from_utf8", "num_traits::cast::FromPrimitive::from_u8", "rustzx_core::host::", "std::io::Read::read",
                 "std::io::Seek::", "delharc::", "miniz_oxide::", "flate2::", "alloc::vec::Vec::<T>::with_capacity", "alloc::vec::Vec::<T, A>::push",
                 "alloc::vec::Vec::<T, A>::pop", "alloc::vec::Vec::<T, A>::len", "core::iter::", "alloc::string::", "core::slice::<impl [T]>::split",
                 "alloc::borrow::", "core::clone::", "core::ops::", "core::option::", "core::result::", "core::cmp::", "core::num::", "core::mem::",
                 "alloc::vec::Vec::<T, A>::as_", "alloc::vec::Vec::<T, A>::is_empty", "alloc::vec::Vec::<T, A>::clear", "alloc::vec::Vec::<T, A>::extend_from_slice",
                 "alloc::vec::Vec::<T>::new", "core::slice::<impl [T]>::len", "core::slice::<impl [T]>::is_empty", "core::slice::<impl [T]>::iter",
                 "core::slice::<impl [T]>::fill", "core::slice::<impl [T]>::get", "core::slice::<impl [T]>::first", "core::slice::<impl [T]>::last",
                 "core::slice::<impl [T]>::contains", "core::slice::<impl [T]>::starts_with", "core::slice::<impl [T]>::ends_with", "core::str::",
                 "core::convert::", "core::default::", "core::array::", "log::", "alloc::boxed::", "core::ptr::", "core::intrinsics::", "core::hint::")
    MAY_PANIC = {"step_by", "chunks", "chunks_mut", "chunks_exact", "chunks_exact_mut", "rchunks", "rchunks_mut", "rchunks_exact", "windows",
                 "split_at", "split_at_mut", "copy_within", "swap", "rotate_left", "rotate_right", "remove", "swap_remove", "insert", "drain",
                 "split_off", "unwrap", "expect", "unwrap_err", "expect_err", "clone_from_slice", "swap_with_slice", "select_nth_unstable",
                 "from_digit", "pow", "abs_diff_panic", "div_euclid", "rem_euclid", "ilog2", "ilog10", "array_chunks", "as_chunks_panic"}
    for k in sorted(lib_effects):
        kk = k[1:] if k.startswith("<") else k
        if k.split("::<")[0].split("::")[-1] not in MAY_PANIC and any(kk.startswith(t) or (" as " in k and (" as " + t) in k) for t in TOTAL_LIB):
            chk.ok()
            continue
        entry0, e0, r0 = lib_effects[k][0]
        chk.undecided_("INVENTORY/library/%s" % k.split("::<")[0], "library call %s (reached from %s) has neither MIR nor a model and is not in the table of calls known "
                       "not to panic: a panic inside it would not be seen" % (k, sorted(set(x[0] for x in lib_effects[k]))[:3]))
    chk.count("library-effects", len(lib_effects))
    if os.environ.get('VERIF_DUMP_LIB'):
        for k in sorted(lib_effects):
            print('LIB', k, len(lib_effects[k]), sorted(set(x[0] for x in lib_effects[k]))[:3])
    # ---------------- verdicts
    n_rev = 0
    for k in sorted(inv):
        lst = inv[k]
        entry, s, r = lst[0]
        if k in reviewed:
            n_rev += 1
            chk.ok()
            continue
        cond = s.get("cond")
        chk.fail("INVENTORY/" + k, "potential panic in %s (%s at %s), reached from %s under %s: %s" % (
            s["fn"], s["kind"], s.get("loc", "?"), sorted(set(e for e, _, _ in lst))[:3], [tm.show(c[1]) + ("=%s" % (c[2],)) for c in r.pc if c[0] in ("eq", "ne")][-3:],
            ("condition %s can be false" % tm.show(cond)) if isinstance(cond, T) else "panicking call reachable"))
    unused = sorted(set(reviewed) - set(inv))
    chk.count("sites-reviewed", n_rev)
    chk.count("sites-total", len(inv))
    chk.count("sites-left-to-window-invariant", n_tinv[0])
    chk.count("sites-discharged-by-linear-facts", n_lia[0])
    chk.floor("entries", 14)
    chk.floor("paths", 300)
    chk.observe("reviewed entries not needed on this tree (site discharged or gone): %s" % unused)
    chk.sample({"sites": sorted(inv)[:12], "reviewed": n_rev})
    # block framing / window invariant of the TAP reader (shared rule, rules/tapeinv.py)
    chk.rule("T-INV", "Tap window invariant: inductive over every writer and every exit; asserts and bounds implied; headers read only at block ends")
    tapeinv.run(chk, prog)
    return chk.finish(EXPL)


def seek_arguments(chk, prog, framed=()):
    """The reviewed addition in BufferCursor::seek (data.len() + offset, pos + offset) rests on the offsets being the
    loaders' own constants: every call of SeekableAsset::seek in the core passes SeekFrom::Start(anything) (no addition)
    or End / Current with a constant offset.  Seeks of the TAP block reader are exempt: T-INV proves where each of them
    lands (the next block header), which bounds the offset by the block size."""
    from zx import scan
    SF = prog.adt_path("rustzx_core", "SeekFrom")
    names = prog.variant_names(SF)
    TR = "rustzx_core::host::io::SeekableAsset::seek"
    impls = set(item for im, item in prog.impl_candidates(TR))
    n = 0
    for fn in prog.fns.values():
        if not fn.local or fn.crate != "rustzx_core" or fn.path in impls:
            continue
        for body, bi, t in scan.call_sites(prog, fn, lambda tg: TR in tg or bool(impls & set(tg))):
            n += 1
            if cc.strip_closure(fn.path) in framed:
                chk.ok()
                continue
            arg = t["args"][1] if len(t["args"]) > 1 else None
            verdict = None
            if arg and arg[0] in ("cp", "mv") and not arg[1]["p"]:
                defs = [st_[2] for b in body["blocks"] for st_ in b["s"] if st_[0] == "=" and st_[1]["l"] == arg[1]["l"] and not st_[1]["p"]]
                if defs and all(d[0] == "agg" and d[1].get("path") == SF for d in defs):
                    verdict = True
                    for d in defs:
                        vn = names[d[1].get("variant") or 0]
                        off = d[2][0] if d[2] else None
                        if vn != "Start" and not (off and off[0] == "c"):
                            verdict = "%s(%s)" % (vn, "variable")
            elif arg and arg[0] == "c":
                verdict = True
            chk.check(verdict is True, "T-GUARD/seek-arguments/%s" % re.sub(r"^rustzx_core::", "", cc.strip_closure(fn.path)),
                      "%s seeks with %s (%s): BufferCursor::seek adds a relative offset to the length / position without a check" % (
                          fn.path.split("::")[-1], verdict or "an argument that is not a SeekFrom literal", fn.loc(t.get("span"))))
    chk.count("seek-call-sites", n)
    chk.floor("seek-call-sites", 8)


def vtx_frequency_guard(chk, prog):
    """The reviewed division in Player::new (sample_rate / player_frequency) rests on Vtx::load never returning a tune with
    frequency 0.  Must-pass-through on the CFG of Vtx::load: the local that ends up in the `player_frequency` field of the
    constructed Vtx is compared with a constant, and the construction is reachable only over the branch of that comparison
    which the value 0 does not take."""
    from zx import scan
    VTXL = prog.fn_path("vtx", "Vtx::load")
    VTX_ = prog.adt_path("vtx", "Vtx")
    fn = prog.fn(VTXL)
    key = "T-GUARD/Vtx::load/player-frequency"
    fi = prog.field_index(VTX_, "player_frequency")
    blocks = fn.body["blocks"]
    aggs = [(bi, st_) for bi, b in enumerate(blocks) if not b.get("cleanup") for st_ in b["s"]
            if st_[0] == "=" and st_[2][0] == "agg" and st_[2][1].get("path") == VTX_]
    if len(aggs) != 1:
        chk.undecided_(key + "/anchor", "Vtx::load constructs the tune at %d places" % len(aggs))
        return
    abi, ast_ = aggs[0]
    op = ast_[2][2][fi]
    if op[0] not in ("cp", "mv") or op[1]["p"]:
        chk.undecided_(key + "/anchor", "the player frequency stored in the tune is not a plain local: %s" % (op,))
        return
    # aliases: locals connected by plain copies / moves
    alias = {op[1]["l"]}
    changed = True
    while changed:
        changed = False
        for b in blocks:
            for st_ in b["s"]:
                if st_[0] == "=" and not st_[1]["p"] and st_[2][0] == "use" and st_[2][1][0] in ("cp", "mv") and not st_[2][1][1]["p"]:
                    x, y = st_[1]["l"], st_[2][1][1]["l"]
                    if (x in alias) != (y in alias):
                        alias |= {x, y}
                        changed = True
    OPS = {"Eq": lambda a_, c: a_ == c, "Ne": lambda a_, c: a_ != c, "Lt": lambda a_, c: a_ < c, "Le": lambda a_, c: a_ <= c,
           "Gt": lambda a_, c: a_ > c, "Ge": lambda a_, c: a_ >= c}
    succ = dict((i, [t for t in scan.successors(b["t"]) if not blocks[t].get("cleanup")]) for i, b in enumerate(blocks))
    guards = 0
    ok = False
    for bi, b in enumerate(blocks):
        t = b["t"]
        if t["k"] != "switch" or t["discr"][0] not in ("cp", "mv"):
            continue
        d = t["discr"][1]["l"]
        for st_ in b["s"]:
            if st_[0] == "=" and st_[1]["l"] == d and st_[2][0] == "bin" and st_[2][1] in OPS:
                a_, c_ = st_[2][2], st_[2][3]
                flip = False
                if a_[0] == "c":
                    a_, c_, flip = c_, a_, True
                if a_[0] in ("cp", "mv") and not a_[1]["p"] and a_[1]["l"] in alias and c_[0] == "c" and "int" in (c_[1].get("v") or {}):
                    cv = int(c_[1]["v"]["int"])
                    opn = st_[2][1]
                    truth0 = OPS[opn](cv, 0) if flip else OPS[opn](0, cv)
                    # switch on a bool: arms [[0, X]] otherwise Y  (false -> X, true -> Y)
                    arms = dict((v, tg) for v, tg in t["arms"])
                    tgt_false = arms.get(0, t.get("otherwise"))
                    tgt_true = arms.get(1, t.get("otherwise"))
                    nonzero_arm = tgt_false if truth0 else tgt_true
                    guards += 1
                    # reachability of the construction from the entry without the edge bi -> nonzero_arm
                    seen, work = set(), [0]
                    while work:
                        n_ = work.pop()
                        if n_ in seen:
                            continue
                        seen.add(n_)
                        for s2 in succ[n_]:
                            if n_ == bi and s2 == nonzero_arm and tgt_false != tgt_true:
                                continue
                            work.append(s2)
                    if abi not in seen:
                        ok = True
    chk.check(ok, key, "Vtx::load can return a tune whose player frequency was never found different from 0 on the way (%d comparisons of it with a constant found): Player::new divides by it" % guards)


def vtx(chk, prog, collect):
    VTXL = prog.fn_path("vtx", "Vtx::load")
    w = Walker(prog, loop_bound=2, max_paths=4000)
    zero_read = {"on": False}

    def hook(w_, st, path, a, d, wh):
        if path.endswith("io::Read::read") and zero_read["on"]:
            return EffectResult(Agg(("adt", "core::result::Result"), 0, [K(0, 64)]), havoc=False)
        return EffectResult(None, havoc=True)
    w.effect_hook = hook
    for p in prog.fns:
        if "Lh5Decoder" in p or "LhaV2Decoder" in p or "from_utf8_lossy" in p or p.endswith("::collect") or p.endswith("::split") or "Iterator::map" in p \
                or p.endswith("Vec::<T, A>::pop") or p.endswith("Vec::<T, A>::push") or "ReadBytesExt" in p or p.endswith("Vec::<T>::with_capacity") \
                or p.endswith("io::Read::read_exact") or p.endswith("io::default_read_exact"):
            w.opaque_paths.add(p)
    st = w.new_state()
    rs = w.run(prog.fn(VTXL), [Opaque("reader")], genv={"R": ("param", "R", 0)}, state=st)
    collect("Vtx::load", rs, ignore_budget=True)
    # allocation rule
    for r in rs:
        for e in r.trace:
            if e.path.endswith("vec::from_elem"):
                n = e.args[1]
                if isinstance(n, T) and not n.is_const() and any("read_u32" in s for s in tm.syms(n)):
                    bounded = any(c[0] in ("eq", "ne") and isinstance(c[1], T) and c[1].op == "ult" and (tm.syms(n) & tm.syms(c[1])) for c in r.pc)
                    chk.check(bounded, "ALLOC/Vtx::load/from_elem", "Vtx::load allocates %s bytes taken from the header without a bound" % tm.show(n))
                    chk.count("alloc-sites")
    vtx_frequency_guard(chk, prog)
    # the tail of Vtx::load (decompression, transposition, construction) lies behind the header's string loop, where
    # the bounded exploration above is cut: it is explored on its own from the allocation of the decompressed buffer
    # on, with every local arbitrary (the same cut point as C20's transposition rule)
    fnl = prog.fn(VTXL)
    blocks = fnl.body["blocks"]
    dec = [i for i, b in enumerate(blocks) if b["t"]["k"] == "call" and "path" in b["t"]["f"] and b["t"]["f"]["path"].endswith("::fill_buffer")]
    alloc = [i for i, b in enumerate(blocks) if b["t"]["k"] == "call" and "path" in b["t"]["f"] and b["t"]["f"]["path"].endswith("vec::from_elem")]
    if len(dec) != 1 or not [a for a in alloc if a < dec[0]]:
        chk.undecided_("INVENTORY/Vtx::load/tail/anchor", "allocation of the decompressed buffer before fill_buffer not found (%s, %s)" % (dec, alloc))
    else:
        wt = Walker(prog, loop_bound=2, max_paths=4000)
        wt.effect_hook = lambda w_, st, path, a, d, wh: EffectResult(None, havoc=True)
        for p in prog.fns:
            if "delharc::" in p or p.endswith("Vec::<T, A>::push") or p.endswith("Vec::<T>::with_capacity") or p.endswith("::collect") or "Iterator::map" in p:
                wt.opaque_paths.add(p)
        rt = wt.run(fnl, [], genv={"R": ("param", "R", 0)}, state=wt.new_state(), start_block=max(a for a in alloc if a < dec[0]))
        collect("Vtx::load/tail", rt, ignore_budget=True)
        done = [r for r in rt if r.outcome == "return" and isinstance(r.ret, Agg) and r.ret.variant == 0]
        chk.check(bool(done), "INVENTORY/Vtx::load/tail/reaches-end", "no explored path of the tail of Vtx::load returns a tune (outcomes %s)" % sorted(set(r.outcome for r in rt)))
    # EOF rule: the header string scan with read() returning 0
    zero_read["on"] = True
    st = w.new_state()
    rs = w.run(prog.fn(VTXL), [Opaque("reader")], genv={"R": ("param", "R", 0)}, state=st)
    stuck = [r for r in rs if r.outcome in ("cut", "stuck", "budget") and any(e.path.endswith("io::Read::read") for e in r.trace)]
    chk.check(not stuck, "EOF/Vtx::load/strings-loop", "the header string scan keeps calling read() after it returned 0: a file that ends inside the strings never finishes loading (%s)" % (
        stuck[0].detail if stuck else ""))
    chk.count("eof-loops")
    # Player::new
    PL = prog.fn_path("vtx", "Player::<AY>::new")
    VTX = prog.adt_path("vtx", "Vtx")
    w2 = Walker(prog)
    w2.effect_hook = lambda w_, st, path, a, d, wh: EffectResult(None, havoc=False)
    rs = w2.run(prog.fn(PL), [SymObj("vtx", ("adt", VTX, ())), tm.sym("rate", 64), tm.sym("stereo", 1)], genv={"AY": ("param", "AY", 0)}, state=w2.new_state())
    collect("Player::new", rs)
