"""C13 — SNA save then load restores the machine; saving is side-effect free."""
from . import corecommon as cc
from . import c04
from . import loaders as ld
from zx import cpu
from zx import term as tm
from zx.term import K, T
from zx.walk import Walker, Agg, Ref, EffectResult, UNIT, SymObj, SymArr, Opaque

LEVEL = "other"

EXPL = (
    "Decided: D1 writer/reader agreement - the 27 header bytes written by sna::save and the register roles assigned by "
    "sna::load (through the exx / swap_af_alt choreography, interpreted exactly) both equal the SNA layout; PC/7FFD of the "
    "128K extension likewise; the alternate-register getters used by save name the alternate fields (bound through exx()).  "
    "D2 side-effect freedom - on every exit of save (including every recorder failure) registers are what they were, the "
    "stack bytes temporarily overwritten on the 48K are restored and no bus time is consumed; PC is never routed through "
    "memory.  D3 load independence - on every successful path of load every Z80/Regs field and the paging latch + lock are "
    "defined by the file (exemptions with reasons: MEMPTR, Q, last Q are not carried by the format), whatever the receiving "
    "machine was doing (halted, EI pending, pending prefix, paging locked).  D4 bank order - head banks (5,2,n) and tail "
    "{0,1,3,4,6,7} minus n are the same in save and load; 48K: pages 0,1,2 and PC popped from the stack.  NOT decided: RAM "
    "contents byte for byte (opaque asset bytes; only bank order and page identity)."
)

LAYOUT = {0: "I", 1: "L'", 2: "H'", 3: "E'", 4: "D'", 5: "C'", 6: "B'", 7: "F'", 8: "A'", 9: "L", 10: "H", 11: "E", 12: "D", 13: "C", 14: "B",
          15: "IYL", 16: "IYH", 17: "IXL", 18: "IXH", 20: "R", 21: "F", 22: "A"}


def run(chk):
    prog = cc.program("A")
    ln = ld.LoaderNames(prog)
    chk.rule("T-TABLE", "SNA header offset <-> register role, save and load")
    chk.rule("T-PAIR", "save: temporary stack use is undone on every exit; registers unchanged")
    chk.rule("T-MUSTDEF", "load defines every CPU field and the paging latch/lock from the file")
    for m in ln.machine_variants():
        save(chk, prog, ln, m)
        load(chk, prog, ln, m)
    # the loaders hand the loaded RAM to the display through this routine: it must feed every screen page
    from . import c08
    chk.rule("T-PAIR/refresh", "refresh_memory_dependent_devices re-reads every screen page of the machine (shared with C08)")
    c08.refresh_covers_banks(chk, prog, cc.Names(prog))
    # the 7FFD byte save writes is the controller's record of the latch (read_7ffd); that record is the value *in
    # effect* only while every paging write keeps record, memory map and lock together: C06's rule on write_7ffd
    # (a locked write changes nothing - not even the record; an accepted one stores val and remaps from its bits)
    from . import c06
    from zx.report import FilteredCheck
    chk.rule("T-GUARD (shared with C06)", "write_7ffd: the recorded latch changes only together with the mapping it describes (nothing changes while paging is locked)")
    fc = FilteredCheck(chk, lambda k: "ZXController::write_7ffd" in k, "c06")
    c06.write_7ffd(fc, prog, cc.Names(prog))
    chk.check(fc.forwarded >= 4, "T-GUARD/ZXController::write_7ffd/judged", "the paging-write rule was judged on %d obligations only" % fc.forwarded)
    return chk.finish(EXPL)


def role_init():
    s = cpu.role_symbols()
    s["IXL"], s["IXH"] = tm.lo8(s["IX"]), tm.hi8(s["IX"])
    s["IYL"], s["IYH"] = tm.lo8(s["IY"]), tm.hi8(s["IY"])
    return s


def save(chk, prog, ln, m):
    is48 = m == "Sinclair48K"
    headers = []
    WI = ln.bus("write_internal")
    MR = prog.fn_path("rustzx_core", "ZXMemory::read")

    def extra(w_, st, path, args, dty, where):
        if path == ld.WRITE_ALL:
            buf = args[1]
            if isinstance(buf, Ref):
                v = w_.load(st, buf.obj, buf.proj)
                st.notes.append(("write_all", v))
            return EffectResult(None, havoc=False)
        if path == MR:
            return EffectResult(tm.sym("mem[%s]" % tm.show(args[1]), 8), havoc=False)
        return None
    w = ld.make_loader_walker(prog, ln, opaque=[ln.PUSH, ln.POP, ln.RAMDATA, ln.GETPAGE, WI, MR, ln.bus("wait_mreq")], extra_hook=extra, loop_bound=8)
    st = ld.emulator_state(w, prog, ln, m)
    init = role_init()
    rs = ld.run_loader(prog, ln, w, "snapshot::sna::save", st, extra_args=[Opaque("recorder")])
    key = "sna::save/%s" % m
    if not rs or any(r.outcome != "return" for r in rs):
        chk.fail("T-PAIR/%s/paths" % key, "paths: %s" % [(r.outcome, r.detail) for r in rs if r.outcome != "return"][:3])
        return
    n_ok = 0
    for r in rs:
        fin = ld.final_cpu(prog, ln, r)
        # D2: registers unchanged on every exit
        changed = sorted(k for k, v in fin.items() if k in init and not (v is init[k] or (isinstance(v, T) and tm.equiv(v, tm.subst(init[k], r.facts) if r.facts else init[k]) is True)))
        chk.check(not changed, "T-PAIR/%s/registers" % key, "after save the running machine's %s differ(s) from before: e.g. %s = %s" % (
            changed, changed[0] if changed else "", tm.show(fin[changed[0]]) if changed else ""))
        # the guard: whatever was written to the stack area is written back / nothing is left modified
        pushes = [x for x in r.notes if x[0] == "push"]
        pops = [x for x in r.notes if x[0] == "pop"]
        stores = [e for e in r.trace if e.path == WI]
        if pushes or pops:
            chk.fail("T-PAIR/%s/stack-through-bus" % key,
                     "save routes PC through the CPU stack with bus cycles (push/pop): the two bytes below SP stay overwritten, PC is re-read from memory "
                     "(a different word when they are ROM) and contention may consume T-states")
        elif is48:
            SP = init["SP"]
            a1, a2 = tm.binop("sub", SP, K(1, 16)), tm.binop("sub", SP, K(2, 16))
            final_mem = {}
            for e in stores:
                final_mem[tm.show(e.args[1])] = e.args[2]
            ok = set(final_mem) == {tm.show(a1), tm.show(a2)} and all(
                isinstance(v, T) and v.op == "sym" and v.args[0] == "mem[%s]" % k for k, v in final_mem.items())
            chk.check(ok, "T-PAIR/%s/stack-restored" % key, "the stack bytes used for PC are not restored on this exit: final writes %s" % (
                dict((k, tm.show(v)) for k, v in final_mem.items())))
        else:
            chk.check(not stores, "T-PAIR/%s/no-memory-writes" % key, "128K save writes memory")
        # D1: header
        wa = [x[1] for x in r.notes if x[0] == "write_all"]
        if not wa:
            continue
        hdr = wa[0]
        if not (isinstance(hdr, Agg) and len(hdr.fields) == 27):
            chk.fail("T-TABLE/%s/header" % key, "first record is not the 27-byte header")
            continue
        if n_ok == 0:
            for off, role in LAYOUT.items():
                v = hdr.fields[off]
                chk.check(isinstance(v, T) and tm.equiv(v, init[role]) is True, "T-TABLE/%s/offset-%d" % (key, off),
                          "save stores %s at header[%d]; SNA layout: %s" % (tm.show(v) if isinstance(v, T) else v, off, role))
            sp_saved = tm.join16(hdr.fields[24], hdr.fields[23])
            want_sp = tm.binop("sub", init["SP"], K(2, 16)) if is48 else init["SP"]
            chk.check(tm.equiv(sp_saved, want_sp) is True, "T-TABLE/%s/SP" % key, "saved SP is %s; documented %s" % (tm.show(sp_saved), tm.show(want_sp)))
        # IFF2 bit
        v19 = hdr.fields[19]
        v19 = tm.subst(v19, r.facts) if isinstance(v19, T) else v19
        iff2 = c04.cc_decide(r, init["IFF2"])
        chk.check(iff2 is not None and isinstance(v19, T) and v19.is_const() and v19.val == (4 if iff2 else 0), "T-TABLE/%s/offset-19" % key,
                  "header[19] = %s with IFF2=%s; documented bit 2 = IFF2" % (v19, iff2))
        if is48 and not pushes:
            # PC must be in the saved image at the saved SP: the two stack stores before the pages are recorded
            first = stores[:2]
            PC = init["PC"]
            ok = len(first) == 2 and {tm.show(first[0].args[1]), tm.show(first[1].args[1])} == {tm.show(tm.binop("sub", init["SP"], K(1, 16))), tm.show(tm.binop("sub", init["SP"], K(2, 16)))}
            if ok:
                by = dict((tm.show(e.args[1]), e.args[2]) for e in first)
                ok = tm.equiv(by[tm.show(tm.binop("sub", init["SP"], K(1, 16)))], tm.hi8(PC)) is True and tm.equiv(by[tm.show(tm.binop("sub", init["SP"], K(2, 16)))], tm.lo8(PC)) is True
            chk.check(ok, "T-TABLE/%s/pc-on-stack" % key, "48K save does not place PC at SP-1/SP-2 of the saved image")
        # bank order
        pages = [e.args[1] for e in r.trace if e.path == ln.RAMDATA]
        order = [p.val if isinstance(p, T) and p.is_const() else tm.show(p) for p in pages]
        if isinstance(r.ret, Agg) and r.ret.variant == 0:
            bank_order(chk, "save", key, order, is48, r)
            page_transfers(chk, r, ln.RAMDATA, ld.WRITE_ALL, "T-PAIR/%s/page-transfer" % key, "written by one write_all")
            n_ok += 1
        chk.count("save-paths")
    chk.check(n_ok >= 1, "T-TABLE/%s/success-path" % key, "no successful save path explored")


def page_transfers(chk, r, PAGE, XFER, key, what):
    """every RAM page obtained is, as a whole (the very slice the memory returned, no sub-range), the buffer of the
    next asset transfer: the 16 KiB of the page and the 16 KiB of the file correspond byte for byte in order"""
    tr = [e for e in r.trace if e.path in (PAGE, XFER)]
    ok = True
    n = 0
    for i, e in enumerate(tr):
        if e.path != PAGE:
            continue
        n += 1
        h = getattr(e.ret, "name", None)
        nxt = tr[i + 1] if i + 1 < len(tr) else None
        buf = nxt.args[1] if nxt is not None and nxt.path == XFER and len(nxt.args) > 1 else None
        whole = buf is not None and isinstance(buf, Ref) and (buf.meta is None or (isinstance(buf.meta, T) and tm.show(buf.meta) == "%s*.len" % h))
        good = isinstance(buf, Ref) and h is not None and buf.obj == ("h", h + "*") and buf.proj == () and whole
        ok = ok and good
    chk.check(ok and n > 0, key, "a RAM page handed out by the memory is not, as a whole, %s (%d pages)" % (what, n))


def paged_bank(r, what):
    """the bank paged at 0xC000 as this path knows it: a constant when the path pinned it down, else its symbol"""
    cands = set()
    for t in list(r.facts.keys()) + [c[1] for c in r.pc if len(c) > 1 and isinstance(c[1], T)]:
        for s_ in tm.syms(t):
            if ("get_page" in s_ and s_.endswith(".Ram.0")):
                cands.add(s_)
    if len(cands) != 1:
        return None
    n = tm.sym(cands.pop(), 8)
    f = r.facts.get(n)
    return (tm.show(n), f.val if f is not None else None)


def bank_order(chk, what, key, order, is48, r):
    if is48:
        chk.check(order == [0, 1, 2], "T-TABLE/%s/banks" % key, "48K %s handles RAM pages %s; documented 0,1,2" % (what, order))
        return
    head = order[:3]
    tail = order[3:]
    n = head[2] if len(head) == 3 else None
    ok = head[:2] == [5, 2] and n is not None
    if ok and what == "save":
        # the third head bank is the bank paged at 0xC000 itself — also when that is bank 5 or 2 (written twice)
        pb = paged_bank(r, what)
        if pb is not None and n not in pb:
            chk.fail("T-TABLE/%s/banks" % key, "128K save writes RAM banks %s with bank %s paged at 0xC000; documented 5, 2, paged bank (even when it is 5 or 2), then the others" % (
                order, pb[1] if pb[1] is not None else pb[0]))
            return
        if pb is not None and pb[1] is not None:
            n = pb[1]
    if ok:
        if isinstance(n, int):
            ok = tail == [b for b in (0, 1, 3, 4, 6, 7) if b != n]
        else:
            # symbolic paged bank: the tail is the constant list minus the banks equal to n on this path
            ok = all(isinstance(b, int) for b in tail) and tail == sorted(tail) and set(tail) <= {0, 1, 3, 4, 6, 7} and len(tail) >= 5
    chk.check(ok, "T-TABLE/%s/banks" % key, "128K %s handles RAM banks %s; documented 5,2,n then {0,1,3,4,6,7} minus n" % (what, order))


def load(chk, prog, ln, m):
    is48 = m == "Sinclair48K"
    size = K(49179 if is48 else 131103, 64)

    def extra(w_, st, path, args, dty, where):
        if path == ld.SEEK:
            k = sum(1 for e in st.trace if e.path == ld.SEEK)
            if k == 0:
                return EffectResult(Agg(("adt", "core::result::Result"), 0, [size]), havoc=False)
        return None
    # the receiving machine is in an arbitrary state: halted, EI pending, prefix pending, paging locked
    w = ld.make_loader_walker(prog, ln, opaque=[ln.POP, ln.REFRESH, ln.SETBORDER, ln.REMAP, ln.SWITCH, ln.RAMMUT], extra_hook=extra, loop_bound=8)
    st = ld.emulator_state(w, prog, ln, m, paging_enabled=tm.sym("PAGING_ENABLED", 1),
                           cpu_overrides={"halted": tm.sym("WAS_HALTED", 1), "skip_interrupt": tm.sym("WAS_SKIP", 1)})
    rs = ld.run_loader(prog, ln, w, "snapshot::sna::load", st)
    key = "sna::load/%s" % m
    good = [r for r in rs if r.outcome == "return" and isinstance(r.ret, Agg) and r.ret.variant == 0]
    bad = [r for r in rs if r.outcome not in ("return",)]
    # panics on hostile bytes are judged by C15; here only well-formed input matters
    if not good:
        chk.fail("T-MUSTDEF/%s/paths" % key, "no successful load path: %s" % [(r.outcome, r.detail) for r in rs][:3])
        return
    init = role_init()
    hdr = lambda i: ld.file_sym(0, i)
    first = True
    for r in good:
        fin = ld.final_cpu(prog, ln, r)
        chk.count("load-paths")
        if first:
            for off, role in LAYOUT.items():
                v = fin[role]
                chk.check(v is hdr(off) or (isinstance(v, T) and tm.equiv(v, hdr(off)) is True), "T-TABLE/%s/offset-%d" % (key, off),
                          "load assigns %s to %s; SNA layout: header[%d]" % (tm.show(v) if isinstance(v, T) else v, role, off))
            want_iff = tm.cmp("ne", tm.binop("and", hdr(19), K(4, 8)), K(0, 8))
            for f in ("IFF1", "IFF2"):
                chk.check(isinstance(fin[f], T) and tm.equiv(fin[f], tm.subst(want_iff, r.facts)) is True, "T-TABLE/%s/%s" % (key, f), "%s is %s; documented bit 2 of header[19]" % (f, fin[f]))
            first = False
        spf = tm.join16(hdr(24), hdr(23))
        want_sp = tm.binop("add", spf, K(2, 16)) if is48 else spf
        chk.check(tm.equiv(fin["SP"], tm.subst(want_sp, r.facts)) is True, "T-TABLE/%s/SP" % key, "SP after load is %s; documented %s" % (tm.show(fin["SP"]), tm.show(want_sp)))
        if is48:
            pops = [x for x in r.notes if x[0] == "pop"]
            chk.check(len(pops) == 1 and tm.equiv(pops[0][1], tm.subst(spf, r.facts)) is True and isinstance(fin["PC"], T) and fin["PC"].op == "sym" and fin["PC"].args[0].startswith("POPPED"),
                      "T-TABLE/%s/PC" % key, "48K load does not pop PC from the loaded stack")
        else:
            pcw = tm.join16(ld.file_sym(1, 1), ld.file_sym(1, 0))
            chk.check(tm.equiv(fin["PC"], pcw) is True, "T-TABLE/%s/PC" % key, "128K load takes PC from %s; documented extension bytes 0-1" % tm.show(fin["PC"]))
        im = fin["int_mode"]
        IM = prog.adt_path("rustzx_z80", "IntMode")
        d = c04.cc_decide(r, tm.cmp("eq", tm.binop("and", hdr(25), K(3, 8)), K(im.variant, 8))) if isinstance(im, Agg) else None
        chk.check(d is True, "T-TABLE/%s/IM" % key, "interrupt mode after load is %s; documented header[25]" % (im,))
        # must-def of the execution-state fields
        for f, nice in (("halted", "HALT state"), ("skip_interrupt", "EI-pending state")):
            v = fin[f]
            chk.check(isinstance(v, T) and v.is_const() and v.val == 0, "T-MUSTDEF/%s/%s" % (key, f),
                      "%s of the receiving CPU survives the load (%s): a snapshot loaded into a halted / mid-EI machine does not behave like the saved machine" % (nice, v))
        ap = fin["active_prefix"]
        PF = prog.adt_path("rustzx_z80", "Prefix")
        chk.check(isinstance(ap, Agg) and prog.variant_names(PF)[ap.variant] == "None", "T-MUSTDEF/%s/active_prefix" % key,
                  "a pending DD/FD/ED prefix of the receiving CPU survives the load (%s)" % (getattr(ap, "name", ap),))
        # border
        sb = [e for e in r.trace if e.path == ln.SETBORDER]
        okb = len(sb) == 1 and isinstance(sb[0].args[2], Agg)
        if okb:
            COLOR = prog.adt_path("rustzx_core", "ZXColor")
            dsc = prog.adt(COLOR)["variants"][sb[0].args[2].variant]["discr"]
            okb = c04.cc_decide(r, tm.cmp("eq", tm.binop("and", hdr(26), K(7, 8)), K(dsc, 8))) is True
        chk.check(okb, "T-TABLE/%s/border" % key, "border colour is not header[26] & 7")
        # paging
        ctl = ld.final_ctl(prog, ln, r)
        if not is48:
            latch = ctl.fields[prog.field_index(ln.CTL, "current_port_7ffd")]
            want = ld.file_sym(1, 2)
            chk.check(latch is want, "T-MUSTDEF/%s/paging-latch" % key,
                      "paging latch after load is %s (receiving machine locked: %s); documented extension byte 2 regardless of a previous lock" % (
                          tm.show(latch) if isinstance(latch, T) else latch, c04.cc_decide(r, tm.unop("not", tm.sym("PAGING_ENABLED", 1)))))
            pe = ctl.fields[prog.field_index(ln.CTL, "paging_enabled")]
            pe = tm.subst(pe, r.facts) if isinstance(pe, T) else pe
            lockbit = c04.cc_decide(r, tm.cmp("ne", tm.binop("and", want, K(0x20, 8)), K(0, 8)))
            chk.check(lockbit is not None and pe is (tm.FALSE if lockbit else tm.TRUE), "T-MUSTDEF/%s/paging-lock" % key,
                      "paging lock after load is enabled=%s with file bit5=%s" % (pe, lockbit))
        # bank order
        pages = [e.args[1] for e in r.trace if e.path == ln.RAMMUT]
        order = [p.val if isinstance(p, T) and p.is_const() else tm.show(p) for p in pages]
        bank_order(chk, "load", key, order, is48, r)
        page_transfers(chk, r, ln.RAMMUT, ld.READ_EXACT, "T-PAIR/%s/page-transfer" % key, "filled by one read_exact")
        rf = [e for e in r.trace if e.path == ln.REFRESH]
        chk.check(len(rf) >= 1, "T-PAIR/%s/refresh" % key, "a successful load does not refresh the memory-dependent devices")
    chk.floor("load-paths", 1)
