"""Shared set-up for the tape rules (C10, C11, C12)."""
from . import corecommon as cc
from zx import term as tm
from zx.term import K, T
from zx.walk import Walker, Agg, Ref, EffectResult, UNIT, SymObj

A = ("param", "A", 0)
TAPOBJ = ("h", "tap")


class TapeNames(object):
    def __init__(self, prog):
        self.prog = prog
        self.TAP = prog.adt_path("rustzx_core", "Tap")
        self.TS = prog.adt_path("rustzx_core", "TapeState")
        self.variants = prog.variant_names(self.TS)

    def method(self, name):
        c = [q for q in self.prog.fns if q.startswith("<rustzx_core::") and "tap::Tap<A>" in q and q.endswith("::" + name)]
        if len(c) != 1:
            raise KeyError("anchor: Tap::%s not unique: %s" % (name, c))
        return c[0]

    def fi(self, n):
        return self.prog.field_index(self.TAP, n)

    def state_value(self, w, st, vname, prefix="S"):
        return w.materialise(SymObj(prefix, ("adt", self.TS, ())), st, self.variants.index(vname))


def tap_state(w, prog, tn, state=None, prev=None, overrides=None):
    st = w.new_state()
    tap = w.materialise(SymObj("tap", ("adt", tn.TAP, (A,))), st)
    if state is not None:
        tap = tap.with_field(tn.fi("state"), state if not isinstance(state, str) else tn.state_value(w, st, state, "S"))
    if prev is not None:
        tap = tap.with_field(tn.fi("prev_state"), prev if not isinstance(prev, str) else tn.state_value(w, st, prev, "P"))
    for k, v in (overrides or {}).items():
        tap = tap.with_field(tn.fi(k), v)
    st.store[TAPOBJ] = tap
    return st


def describe_state(tn, v):
    if isinstance(v, Agg):
        # fields in the order of their names, not of their declaration (which a refactoring may change)
        names = [f["name"] for f in tn.prog.adt(tn.TS)["variants"][v.variant]["fields"]]
        order = sorted(range(len(names)), key=lambda i: names[i]) if len(names) == len(v.fields) else range(len(v.fields))
        return (tn.variants[v.variant],) + tuple(v.fields[i] for i in order)
    return ("?", v)
