"""C14 — loading a well-formed SNA / SZX / SCR file yields exactly the described state."""
import re
from . import corecommon as cc
from . import c04
from . import loaders as ld
from .c10 import decide2
from zx import cpu
from zx import term as tm
from zx.term import K, T
from zx.walk import Walker, Agg, Ref, EffectResult, UNIT, SymObj, SymArr, Opaque

LEVEL = "other"

EXPL = (
    "Decided: model guard - in sna::load, szx::load and scr::load every path that mutates CPU/controller/memory state has "
    "first decided that the file's model (SNA size class / SZX machine id / SCR target page is RAM) matches the emulator's "
    "machine, and mismatching files end in Err with nothing mutated.  SZX chunk arms (one chunk per path, chunk presence is "
    "data): Z80R offset->role map for all 37 bytes incl. IFF1/IFF2, IM, cycle counter, EI-last -> skip_interrupt, HALTED -> "
    "halted, Q flag, MEMPTR, and every CPU execution-state field is (re)defined by the arm (no pending prefix survives); "
    "SPCR: paging latch and lock defined from the chunk regardless of a previous lock, border = byte0 & 7 through the "
    "repainting setter, speaker/MIC bits restored without consuming emulated time (so chunk order does not matter); AY: "
    "selected register, 16 registers copied and each forwarded to the sound generator (port-visible and audible state stay "
    "one thing); AMXM: Kempston mouse presence; RAMP: page renumbering 5->0, 2->1, 0->2 on the 48K, flag bit 0 = zlib, "
    "payload from offset 3, page must exist; unknown chunk ids change nothing.  SNA map is C13.  SCR: 6912 bytes into the "
    "page mapped at 0x4000, followed by the refresh.  NOT decided: 'two encodings of one state behave identically' and "
    "zlib correctness (data-level); KEYB joystick presence (the statement does not list it)."
)

Z80R = {0: "F", 1: "A", 2: "C", 3: "B", 4: "E", 5: "D", 6: "L", 7: "H", 8: "F'", 9: "A'", 10: "C'", 11: "B'", 12: "E'", 13: "D'", 14: "L'", 15: "H'",
        16: "IXL", 17: "IXH", 18: "IYL", 19: "IYH", 24: "I", 25: "R"}


def run(chk):
    prog = cc.program("A")
    ln = ld.LoaderNames(prog)
    chk.rule("T-GUARD", "a model check dominates every mutation in each loader")
    chk.rule("T-TABLE", "SZX chunk layouts")
    chk.rule("T-MUSTDEF", "Z80R / SPCR arms define the CPU execution state and the paging latch + lock")
    chk.rule("T-PAIR", "AY register file stores are paired with generator writes")
    for m in ln.machine_variants():
        sna_guard(chk, prog, ln, m)
        szx(chk, prog, ln, m)
        scr(chk, prog, ln, m)
    ay_pairing(chk, prog)
    szx_ay_chunk(chk, prog, ln)
    # the loaders hand the loaded RAM to the display through this routine: it must feed every screen page
    from . import c08
    chk.rule("T-PAIR/refresh", "refresh_memory_dependent_devices re-reads every screen page of the machine (shared with C08)")
    c08.refresh_covers_banks(chk, prog, cc.Names(prog))
    return chk.finish(EXPL)


def mutations(prog, ln, r, init_emu):
    """names of the effects / stores on this path that change CPU, controller or memory state"""
    muts = []
    for e in r.trace:
        short = e.path.split("::")[-1]
        if e.path in (ln.RAMMUT, ln.W7FFD, ln.SETBORDER, ln.POP, ln.REMAP, ln.WRITE_IO) or short in ("load_7ffd", "write_internal", "set_regs", "select_reg", "change_state", "copy_from_slice"):
            muts.append(short)
    emu = r.store[ld.EMU]
    ci, ki = prog.field_index(ln.EM, "cpu"), prog.field_index(ln.EM, "controller")
    if emu.fields[ci] is not init_emu.fields[ci]:
        muts.append("cpu-state")
    if emu.fields[ki] is not init_emu.fields[ki]:
        muts.append("controller-state")
    return muts


def sna_guard(chk, prog, ln, m):
    size = tm.sym("FILESIZE", 64)

    def extra(w_, st, path, args, dty, where):
        if path == ld.SEEK and sum(1 for e in st.trace if e.path == ld.SEEK) == 0:
            return EffectResult(Agg(("adt", "core::result::Result"), 0, [size]), havoc=False)
        return None
    w = ld.make_loader_walker(prog, ln, opaque=[ln.POP, ln.REFRESH, ln.SETBORDER, ln.W7FFD, ln.ctl("load_7ffd") if has(prog, ln, "load_7ffd") else ln.W7FFD, ln.RAMMUT, ln.GETPAGE],
                              extra_hook=extra, loop_bound=8)
    st = ld.emulator_state(w, prog, ln, m)
    init_emu = st.store[ld.EMU]
    rs = ld.run_loader(prog, ln, w, "snapshot::sna::load", st)
    key = "T-GUARD/sna::load/%s" % m
    n = 0
    for r in rs:
        if r.outcome not in ("return",):
            continue
        muts = mutations(prog, ln, r, init_emu)
        if not muts:
            continue
        n += 1
        big = c04.cc_decide(r, tm.cmp("ult", K(49179, 64), size))
        want = (m == "Sinclair128K")
        chk.check(big is not None and big == want, key,
                  "sna::load on a %s changes state (%s) for a file of the %s size class; a file of another model must be rejected before anything is applied" % (
                      m, sorted(set(muts))[:4], "128K" if big else "48K" if big is not None else "undecided"))
    chk.check(n >= 1, key + "/explored", "no mutating path explored")
    chk.count("sna-guard-paths", n)
    rejections(chk, rs, "T-TABLE/sna::load/%s" % m, lambda x: x == "file0[25]", "an SNA file")


def rejections(chk, rs, key, allowed_syms, what):
    """T-TABLE/rejections: a loader may refuse a file because a read or seek failed, because of its size, or because of
    the few content bytes the format defines as invalid (`allowed_syms`: a predicate over symbol names).  An error exit
    whose deciding condition looks at any other byte of the file refuses well-formed files."""
    n = 0
    for r in rs:
        if not (r.outcome == "return" and isinstance(r.ret, Agg) and r.ret.variant == 1):
            continue
        last = [c for c in r.pc if c[0] in ("eq", "ne", "variant")]
        if not last:
            continue
        c = last[-1]
        n += 1
        if c[0] == "variant" or not isinstance(c[1], T):
            continue          # a failed read / seek / conversion
        bad = sorted(x for x in tm.syms(c[1]) if x.startswith("file") and not allowed_syms(x))
        chk.check(not bad, key + "/rejections", "%s is refused on a condition over %s (%s): not one of the reasons the format gives for rejecting a file, so well-formed files are refused" % (
            what, bad[:4], tm.show(c[1])[:120]))
    chk.count("rejection-paths", n)


def has(prog, ln, name):
    try:
        ln.ctl(name)
        return True
    except KeyError:
        return False


def szx(chk, prog, ln, m):
    FILESIZE = tm.sym("FILESIZE", 64)
    L7 = ln.ctl("load_7ffd") if has(prog, ln, "load_7ffd") else None
    CHST = [p for p in prog.fns if p.startswith("rustzx_core::") and p.endswith("ZXBeeper::change_state")]
    AYSEL = prog.fn_path("rustzx_core", "ZXAyChip::select_reg")
    AYSET = prog.fn_path("rustzx_core", "ZXAyChip::set_regs")
    SETAY = prog.fn_path("rustzx_core", "Emulator::<H>::set_ay_enabled")
    # the paging latch is followed into load_7ffd / write_7ffd (their map effects stay opaque): the final latch and
    # lock are judged on the controller state, not on which helper was called
    opaque = [ln.REFRESH, ln.SETBORDER, ln.REMAP, ln.SWITCH, ln.RAMMUT, ln.WRITE_IO, AYSEL, AYSET, SETAY] + CHST
    for p in prog.fns:
        if p.endswith("decompress_zlib_stream"):
            opaque.append(p)

    def extra(w_, st, path, args, dty, where):
        if path == ld.SEEK and sum(1 for e in st.trace if e.path == ld.SEEK) == 0:
            return EffectResult(Agg(("adt", "core::result::Result"), 0, [FILESIZE]), havoc=False)
        return None
    w = ld.make_loader_walker(prog, ln, opaque=opaque, extra_hook=extra, loop_bound=1, max_paths=4000)
    w.trace_calls = True     # the dispatched chunk parser is read off the call, not off the string comparisons
    st = ld.emulator_state(w, prog, ln, m, paging_enabled=tm.sym("PAGING_ENABLED", 1),
                           cpu_overrides={"halted": tm.sym("WAS_HALTED", 1), "skip_interrupt": tm.sym("WAS_SKIP", 1)})
    init_emu = st.store[ld.EMU]
    rs = ld.run_loader(prog, ln, w, "snapshot::szx::load", st)
    key = "szx::load/%s" % m
    bad = [r for r in rs if r.outcome in ("error", "budget")]
    if bad:
        chk.fail("T-TABLE/%s/paths" % key, "exploration failed: %s %s" % (bad[0].outcome, bad[0].detail))
        return
    mid = ld.file_sym(0, 6)
    arms = {}
    for r in rs:
        if r.outcome not in ("return", "cut"):
            continue
        chunk = None
        for e in r.trace:
            if e.path.startswith("enter:"):
                mm = re.search(r"::process_([a-z0-9]+)_block$", e.path)
                if mm:
                    chunk = mm.group(1).upper()
        muts = mutations(prog, ln, r, init_emu)
        if muts:
            # model guard
            is128 = c04.cc_decide(r, tm.cmp("eq", tm.zext(mid, 32), K(2, 32)))
            if is128 is None:
                is128 = c04.cc_decide(r, tm.cmp("eq", mid, K(2, 8)))
            chk.check(is128 is not None and is128 == (m == "Sinclair128K"), "T-GUARD/%s" % key,
                      "szx::load on a %s applies a chunk (%s: %s) although the file's machine id is %s for this machine" % (
                          m, chunk, sorted(set(muts))[:3], "not decided to match" if is128 is None else "of the other model"))
        if chunk is None:
            continue
        # the arm ran to completion: the walk went round the chunk loop (cut) or reached the end of the file
        if r.outcome == "return" and isinstance(r.ret, Agg) and r.ret.variant == 1:
            continue
        arms.setdefault(chunk, []).append(r)
    for name in ("Z80R", "SPCR", "RAMP", "AMXM"):
        chk.check(name in arms, "T-TABLE/%s/%s/explored" % (key, name), "chunk %s is never dispatched" % name)
    # ---------------- Z80R
    blk = lambda i: tm.sym("file2[%s]" % tm.show(K(i, 64)), 8)   # element names of the symbolic chunk buffer
    for r in arms.get("Z80R", []):
        if r.outcome == "return" and isinstance(r.ret, Agg) and r.ret.variant == 1:
            continue
        fin = ld.final_cpu(prog, ln, r)
        k = "T-TABLE/%s/Z80R" % key

        def byte(i):
            return tm.subst(blk(i), r.facts) if r.facts else blk(i)
        for off, role in Z80R.items():
            chk.check(isinstance(fin[role], T) and tm.equiv(fin[role], byte(off)) is True, k + "/offset-%d" % off,
                      "Z80R: %s is %s; documented chunk byte %d" % (role, tm.show(fin[role]) if isinstance(fin[role], T) else fin[role], off))
        chk.check(tm.equiv(fin["SP"], tm.join16(byte(21), byte(20))) is True, k + "/SP", "Z80R: SP is not bytes 20-21")
        halted = decide2(r, tm.cmp("ne", tm.binop("and", blk(34), K(2, 8)), K(0, 8)))
        pcw = tm.join16(byte(23), byte(22))
        chk.check(halted is not None and tm.equiv(fin["PC"], tm.binop("add", pcw, K(1 if halted else 0, 16))) is True, k + "/PC", "Z80R: PC is %s; documented bytes 22-23" % tm.show(fin["PC"]))
        for f, off in (("IFF1", 26), ("IFF2", 27)):
            want = tm.subst(tm.cmp("ne", blk(off), K(0, 8)), r.facts)
            chk.check(isinstance(fin[f], T) and tm.equiv(fin[f], want) is True, k + "/%s" % f, "Z80R: %s is %s; documented byte %d != 0" % (f, fin[f], off))
        im = fin["int_mode"]
        d = c04.cc_decide(r, tm.cmp("eq", blk(28), K(im.variant, 8))) if isinstance(im, Agg) else None
        chk.check(d is True, k + "/IM", "Z80R: interrupt mode is not byte 28")
        hv = fin["halted"]
        hv = tm.subst(hv, r.facts) if isinstance(hv, T) else hv
        chk.check(halted is not None and isinstance(hv, T) and hv.is_const() and hv.val == (1 if halted else 0), k + "/halted", "Z80R: halted is %s; documented flag bit 1" % (hv,))
        ei = decide2(r, tm.cmp("ne", tm.binop("and", blk(34), K(1, 8)), K(0, 8)))
        sv = fin["skip_interrupt"]
        sv = tm.subst(sv, r.facts) if isinstance(sv, T) else sv
        if ei is None and isinstance(sv, T):
            okei = tm.equiv(sv, tm.subst(tm.cmp("ne", tm.binop("and", tm.zext(blk(34), 32), K(1, 32)), K(0, 32)), r.facts)) is True
        else:
            okei = isinstance(sv, T) and sv.is_const() and sv.val == (1 if ei else 0)
        chk.check(okei, k + "/ei-last", "Z80R: EI-pending state is %s; documented flag bit 0" % (sv,))
        mp = fin["MEMPTR"]
        chk.check(tm.equiv(mp, tm.join16(byte(36), byte(35))) is True, k + "/MEMPTR", "Z80R: MEMPTR is not bytes 35-36")
        qset = decide2(r, tm.cmp("ne", tm.binop("and", blk(34), K(4, 8)), K(0, 8)))
        if qset is not None:
            want_q = fin["F"] if qset else K(0, 8)
            chk.check(fin["Q"] is want_q or tm.equiv(fin["Q"], want_q) is True, k + "/Q", "Z80R: Q latch is %s with flag bit 2 = %s" % (fin["Q"], qset))
        ctl = ld.final_ctl(prog, ln, r)
        fc = ctl.fields[prog.field_index(ln.CTL, "frame_clocks")]
        want_fc = tm.zext(tm.binop("or", tm.binop("or", tm.zext(byte(29), 32), tm.binop("shl", tm.zext(byte(30), 32), K(8, 32))),
                                   tm.binop("or", tm.binop("shl", tm.zext(byte(31), 32), K(16, 32)), tm.binop("shl", tm.zext(byte(32), 32), K(24, 32)))), 64)
        chk.check(isinstance(fc, T) and tm.equiv(fc, want_fc, max_bits=20) in (True, None) and set(tm.syms(fc)) <= set(tm.syms(want_fc)) | set(), k + "/cycles",
                  "Z80R: frame clock is not the 32-bit value at bytes 29-32: %s" % (fc,))
        ap = fin["active_prefix"]
        PF = prog.adt_path("rustzx_z80", "Prefix")
        chk.check(isinstance(ap, Agg) and prog.variant_names(PF)[ap.variant] == "None", "T-MUSTDEF/%s/Z80R/active_prefix" % key,
                  "Z80R: a pending DD/FD/ED prefix of the receiving CPU survives the chunk (%s)" % (getattr(ap, "name", ap),))
        chk.count("z80r-paths")
    # ---------------- SPCR
    for r in arms.get("SPCR", []):
        k = "T-TABLE/%s/SPCR" % key
        ctl = ld.final_ctl(prog, ln, r)
        entered = [e.path[len("enter:"):] for e in r.trace if e.path.startswith("enter:")]
        used = [e for e in r.trace if e.path.startswith("enter:") and e.path[len("enter:"):] in (ln.W7FFD, L7)
                and not (e.path[len("enter:"):] == ln.W7FFD and L7 in entered)]
        wio = [e for e in r.trace if e.path == ln.WRITE_IO]
        chk.check(not wio, k + "/no-timed-io", "SPCR replays the ULA port write through write_io: emulated time advances, so the loaded state depends on chunk order")
        want7 = blk(1) if m == "Sinclair128K" else K(0, 8)
        chk.check(len(used) == 1 and used[0].args[1] is want7, "T-MUSTDEF/%s/SPCR/paging" % key,
                  "SPCR applies the paging value %s through %s; documented: byte 1 (0 on 16/48K)" % (
                      [tm.show(e.args[1]) if isinstance(e.args[1], T) else e.args[1] for e in used], [e.path.split("::")[-1] for e in used]))
        if m == "Sinclair128K":
            latch = ctl.fields[prog.field_index(ln.CTL, "current_port_7ffd")]
            latch = tm.subst(latch, r.facts) if isinstance(latch, T) and r.facts else latch
            chk.check(latch is want7 or (isinstance(latch, T) and tm.equiv(latch, want7) is True), "T-MUSTDEF/%s/SPCR/paging-latch" % key,
                      "after SPCR the paging latch is %s (receiving machine locked: %s); documented chunk byte 1 whatever the machine was doing, incl. a value with the lock bit set" % (
                          tm.show(latch) if isinstance(latch, T) else latch, c04.cc_decide(r, tm.unop("not", tm.sym("PAGING_ENABLED", 1)))))
            pe = ctl.fields[prog.field_index(ln.CTL, "paging_enabled")]
            pe = tm.subst(pe, r.facts) if isinstance(pe, T) and r.facts else pe
            lockbit = c04.cc_decide(r, tm.cmp("ne", tm.binop("and", want7, K(0x20, 8)), K(0, 8)))
            chk.check(lockbit is not None and pe is (tm.FALSE if lockbit else tm.TRUE), "T-MUSTDEF/%s/SPCR/paging-lock" % key,
                      "after SPCR paging_enabled is %s with chunk bit 5 = %s" % (pe, lockbit))
            rem = [e for e in r.trace if e.path == ln.REMAP]
            chk.check(len(rem) == 2, "T-MUSTDEF/%s/SPCR/remap" % key, "SPCR on the 128K remaps %d windows; documented: RAM bank at 0xC000 and ROM at 0x0000 from the chunk" % len(rem))
        sb = [e for e in r.trace if e.path == ln.SETBORDER]
        okb = len(sb) == 1 and isinstance(sb[0].args[2], Agg)
        if okb:
            COLOR = prog.adt_path("rustzx_core", "ZXColor")
            dsc = prog.adt(COLOR)["variants"][sb[0].args[2].variant]["discr"]
            okb = c04.cc_decide(r, tm.cmp("eq", tm.binop("and", blk(0), K(7, 8)), K(dsc, 8))) is True
        chk.check(okb, k + "/border", "SPCR does not set the border to byte 0 & 7 through the repainting setter (set_border_color)")
        if sb:
            chk.check(isinstance(sb[0].args[1], T) and sb[0].args[1].is_const(), k + "/border-clock", "SPCR stamps the border change with a clock that another chunk may set (chunk-order dependence): %s" % (sb[0].args[1],))
        bp = [e for e in r.trace if e.path in CHST]
        okp = len(bp) == 1 and tm.equiv(bp[0].args[1], tm.cmp("ne", tm.binop("and", blk(3), K(0x10, 8)), K(0, 8))) is True and \
            tm.equiv(bp[0].args[2], tm.cmp("ne", tm.binop("and", blk(3), K(0x08, 8)), K(0, 8))) is True
        chk.check(okp, k + "/speaker", "SPCR does not restore speaker (bit 4) / MIC (bit 3) of byte 3")
        chk.count("spcr-paths")
    # ---------------- AMXM
    for r in arms.get("AMXM", []):
        ctl = ld.final_ctl(prog, ln, r)
        mouse = ctl.fields[prog.field_index(ln.CTL, "mouse")]
        kem = decide2(r, tm.cmp("ne", tm.binop("and", blk(0), K(2, 8)), K(0, 8)))
        if kem is None:
            kem = c04.cc_decide(r, tm.cmp("ult", K(0, 32), tm.binop("and", tm.zext(blk(0), 32), K(2, 32))))
        present = isinstance(mouse, Agg) and mouse.variant == 1
        defined = isinstance(mouse, Agg)
        chk.check(defined and kem is not None and present == kem, "T-TABLE/%s/AMXM" % key, "AMXM: mouse present=%s with Kempston bit=%s" % (present if defined else mouse, kem))
        chk.count("amxm-paths")
    # ---------------- RAMP
    for r in arms.get("RAMP", []):
        pages = [e.args[1] for e in r.trace if e.path == ln.RAMMUT]
        if not pages:
            continue
        pg = pages[0]
        pg = tm.subst(pg, r.facts) if isinstance(pg, T) else pg
        b2 = tm.subst(blk(2), r.facts) if r.facts else blk(2)
        if m == "Sinclair48K":
            if isinstance(b2, T) and b2.is_const():
                want = {5: 0, 2: 1, 0: 2}.get(b2.val, b2.val)
                ok = isinstance(pg, T) and pg.is_const() and pg.val == want
            else:
                ok = isinstance(pg, T) and tm.equiv(pg, b2) is True and all(c04.cc_decide(r, tm.cmp("eq", blk(2), K(v, 8))) is False for v in (5, 2, 0))
            chk.check(ok, "T-TABLE/%s/RAMP/renumber" % key, "RAMP on the 48K: file page %s goes to RAM page %s; documented 5->0, 2->1, 0->2" % (b2, pg))
        else:
            chk.check(isinstance(pg, T) and tm.equiv(pg, b2) is True, "T-TABLE/%s/RAMP/page" % key, "RAMP on the 128K: page %s; documented chunk byte 2" % (pg,))
        # the page must exist on this machine before it is touched
        limit = 3 if m == "Sinclair48K" else 8
        okl = isinstance(pg, T) and (pg.is_const() and pg.val < limit or c04.cc_decide(r, tm.cmp("ult", pg, K(limit, 8))) is True or bounded(r, pg, limit))
        chk.check(okl, "T-GUARD/%s/RAMP/page-exists" % key, "RAMP touches RAM page %s without first checking that it exists on a %s" % (pg, m))
        chk.count("ramp-paths")
    # ---------------- RAMP: a compressed page is judged by what it inflates to, never by how long the stream is
    # (an incompressible page deflates to MORE than 16384 bytes); the same state with stored or compressed pages must load
    size_syms = set("file1[%d]" % i for i in (4, 5, 6, 7))
    n_rej = 0
    for r in rs:
        if not (r.outcome == "return" and isinstance(r.ret, Agg) and r.ret.variant == 1):
            continue
        entered = [e.path for e in r.trace if e.path.startswith("enter:") and re.search(r"::process_[a-z0-9]+_block$", e.path)]
        if not entered or not entered[-1].endswith("process_ramp_block"):
            continue
        # is this the compressed branch?  the path tested the flags word (bytes 0-1 of the chunk) somehow: evaluate that
        # test for flags = 1 and flags = 0 and see which agrees with the branch taken
        comp = None
        fl = set((tm.show(blk(0)), tm.show(blk(1))))
        for c in r.pc:
            if c[0] in ("eq", "ne") and isinstance(c[1], T) and tm.syms(c[1]) and tm.syms(c[1]) <= fl:
                v1 = int(tm.evaluate(c[1], {tm.show(blk(0)): 1, tm.show(blk(1)): 0}))
                v0 = int(tm.evaluate(c[1], {tm.show(blk(0)): 0, tm.show(blk(1)): 0}))
                took = (lambda v: v == c[2]) if c[0] == "eq" else (lambda v: v not in c[2])
                if took(v1) and not took(v0):
                    comp = True
                elif took(v0) and not took(v1):
                    comp = False
        last = [c for c in r.pc if c[0] in ("eq", "ne")]
        if comp is True and last and isinstance(last[-1][1], T):
            n_rej += 1
            bad = tm.syms(last[-1][1]) & size_syms
            inflated = any("decompress" in x for x in tm.syms(last[-1][1]))
            chk.check(not bad or inflated, "T-TABLE/%s/RAMP/compressed-rejection" % key,
                      "a compressed RAM page is rejected on a condition over the length of the compressed stream (%s): an incompressible page deflates to more than 16384 bytes, and the same state with stored pages loads" % tm.show(last[-1][1])[:160])
    chk.count("ramp-rejections", n_rej)
    def szx_ok(x):
        if x.startswith("file0[") or x.startswith("file1["):
            return True           # file header (magic, version, machine id) and chunk header (id, size)
        return x in (tm.show(blk(0)), tm.show(blk(1)), tm.show(blk(2)), tm.show(blk(28)))      # RAMP flags, RAMP page, Z80R interrupt mode
    rejections(chk, rs, "T-TABLE/%s" % key, szx_ok, "an SZX file")
    # ---------------- unknown chunk: nothing applied
    for r in rs:
        if r.outcome != "return":
            continue
        decided = [c for c in r.pc if c[0] in ("eq", "ne") and isinstance(c[1], T) and c[1].op == "sym" and c[1].args[0].startswith("streq(") and "ZXST" not in c[1].args[0]]
        if decided and all(not pc_true(c) for c in decided) and len(decided) >= 6:
            muts = [x for x in mutations(prog, ln, r, init_emu)]
            chk.check(not muts, "T-TABLE/%s/unknown-chunk" % key, "an unknown chunk id changes state: %s" % muts)
            chk.count("unknown-chunk-paths")
    chk.floor("z80r-paths", 1)
    chk.floor("spcr-paths", 1)
    chk.floor("ramp-paths", 1)
    chk.sample({"machine": m, "chunk_arms": dict((k, len(v)) for k, v in arms.items())})


def pc_true(c):
    return (c[0] == "eq" and c[2] == 1) or (c[0] == "ne" and 0 in c[2])


def bounded(r, t, limit):
    for ft, fv in r.facts.items():
        if ft.op == "ult" and ft.args[1].is_const() and fv.val == 1 and ft.args[1].val <= limit:
            if ft.args[0] is t or (ft.args[0].bits == t.bits and tm.equiv(ft.args[0], t) is True):
                return True
        if ft.op == "ult" and ft.args[0].is_const() and fv.val == 0 and ft.args[0].val + 1 <= limit:
            # !(K < t)  =>  t <= K
            if ft.args[1] is t or (ft.args[1].bits == t.bits and tm.equiv(ft.args[1], t) is True):
                return True
    return False


def scr(chk, prog, ln, m):
    size = tm.sym("FILESIZE", 64)
    CG = [p for p in prog.fns if "CodeGenerator" in p]

    def extra(w_, st, path, args, dty, where):
        if path == ld.SEEK and sum(1 for e in st.trace if e.path == ld.SEEK) == 0:
            return EffectResult(Agg(("adt", "core::result::Result"), 0, [size]), havoc=False)
        return None
    w = ld.make_loader_walker(prog, ln, opaque=[ln.REFRESH, ln.RAMMUT, ln.GETPAGE] + CG + [p for p in prog.fns if "SliceIndex" in p or "index_mut" in p], extra_hook=extra)
    # the receiving machine is in an arbitrary state: halted, EI pending, interrupts enabled
    st = ld.emulator_state(w, prog, ln, m, cpu_overrides={"halted": tm.sym("WAS_HALTED", 1), "skip_interrupt": tm.sym("WAS_SKIP", 1)})
    init_emu = st.store[ld.EMU]
    rs = ld.run_loader(prog, ln, w, "screenshot::scr::load", st)
    key = "scr::load/%s" % m
    ok_paths = 0
    for r in rs:
        if r.outcome != "return":
            chk.fail("T-TABLE/%s/paths" % key, "%s %s" % (r.outcome, r.detail))
            continue
        ram = [e for e in r.trace if e.path == ln.RAMMUT]
        if not ram:
            continue
        sz = c04.cc_decide(r, tm.cmp("eq", size, K(6912, 64)))
        chk.check(sz is True, "T-GUARD/%s/size" % key, "scr::load touches RAM for a file that is not 6912 bytes")
        gp = [e for e in r.trace if e.path == ln.GETPAGE]
        okp = len(gp) >= 1 and isinstance(gp[0].args[1], T) and gp[0].args[1].is_const() and gp[0].args[1].val == 0x4000 and \
            any(c[0] == "variant" and c[2] == "Ram" for c in r.pc)
        chk.check(okp and len(ram) == 1, "T-TABLE/%s/page" % key, "SCR data does not go to the RAM page mapped at 0x4000")
        if isinstance(r.ret, Agg) and r.ret.variant == 0:
            ok_paths += 1
            rf = [e for e in r.trace if e.path == ln.REFRESH]
            rd = [e for e in r.trace if e.path == ld.READ_EXACT]
            chk.check(len(rf) == 1 and len(rd) == 1, "T-PAIR/%s/refresh" % key, "a successful SCR load reads once and refreshes the screen")
            # the loader parks the CPU in a loop it writes itself; nothing of the program that ran before may run behind
            # the picture: not halted (a halted CPU leaves the loop's first byte at the next interrupt), no pending
            # prefix / EI, and interrupts disabled (otherwise the old program's handler keeps running every frame)
            fin = ld.final_cpu(prog, ln, r)
            for f, nice in (("halted", "HALT state"), ("skip_interrupt", "EI-pending state"), ("IFF1", "interrupt enable")):
                v = fin[f]
                chk.check(isinstance(v, T) and v.is_const() and v.val == 0, "T-MUSTDEF/%s/%s" % (key, f),
                          "%s of the receiving CPU survives the SCR load (%s): the machine does not stay parked in the loader's loop and what runs can overwrite the picture" % (nice, v))
            ap = fin["active_prefix"]
            PF = prog.adt_path("rustzx_z80", "Prefix")
            chk.check(isinstance(ap, Agg) and prog.variant_names(PF)[ap.variant] == "None", "T-MUSTDEF/%s/active_prefix" % key,
                      "a pending DD/FD/ED prefix of the receiving CPU survives the SCR load (%s)" % (getattr(ap, "name", ap),))
    chk.check(ok_paths >= 1, "T-TABLE/%s/success-path" % key, "no successful SCR path")


def ay_pairing(chk, prog):
    """every store into ZXAyChip.regs is paired with AymPrecise::write_register for the same register and byte"""
    cg, fa = cc.scans(prog)
    CH = prog.adt_path("rustzx_core", "ZXAyChip")
    WR = [p for p in prog.fns if p.startswith("<aym::") and "AymBackend" in p and p.endswith("::write_register")]
    writers = fa.writers(CH, "regs")
    for fpath in sorted(writers):
        fn = prog.fns[fpath]
        calls = [cp for cp, s in cg.calls.get(fpath, ())]
        paired = any(c in WR or c.endswith("AymBackend::write_register") for c in calls)
        chk.check(paired, "T-PAIR/ZXAyChip.regs/%s" % fpath.split("::")[-1],
                  "%s stores into the AY register file without forwarding to the sound generator: read-back changes, sound does not" % fpath.split("::")[-1])
        chk.count("ay-reg-writers")
    chk.floor("ay-reg-writers", 1)      # one shared store helper, or the port write and the snapshot restore separately
    # set_regs: forwards all 16 registers with the stored bytes
    SET = prog.fn_path("rustzx_core", "ZXAyChip::set_regs")
    w = Walker(prog, loop_bound=2)
    w.opaque_paths |= set(WR)
    w.effect_hook = lambda w_, st, path, a, d, wh: EffectResult(None, havoc=False)
    st = w.new_state()
    st.store[("h", "chip")] = w.materialise(SymObj("chip", ("adt", CH, ())), st)
    st.store[("h", "src")] = SymArr("src", ("int", 8, False, False), tm.sym("SRCLEN", 64))
    rs = w.run(prog.fn(SET), [Ref(("h", "chip"), (), True), Ref(("h", "src"), (), False, tm.sym("SRCLEN", 64))], genv={}, state=st)
    good = [r for r in rs if r.outcome == "return"]
    ok = bool(good)
    for r in good:
        regs = r.store[("h", "chip")].fields[prog.field_index(CH, "regs")]
        fw = [(e.args[1], e.args[2]) for e in r.trace if e.path in WR]
        ok = ok and isinstance(regs, Agg) and len(fw) == 16 and all(
            isinstance(a, T) and a.is_const() and a.val == i and b is regs.fields[i] and isinstance(b, T) and "chip.regs" not in tm.show(b) for i, (a, b) in enumerate(fw))
    chk.check(ok, "T-PAIR/ZXAyChip::set_regs", "set_regs does not forward each of the 16 loaded registers to the sound generator")


def szx_ay_chunk(chk, prog, ln):
    """T-TABLE/szx/AY: the AY chunk handler (chFlags, chCurrentRegister, chAyRegs[16]) walked with the chip's own
    methods inlined and only the sound generator's register write as an effect: on every path on which the chip is
    restored, afterwards the selected register is byte 1 (mod 16), register i holds byte 2+i, and the generator was
    given exactly the sixteen pairs (i, byte 2+i) — whatever order the restore goes through the chip's methods."""
    chk.rule("T-TABLE/szx/AY", "final AY chip state after the AY chunk: selected register, register file, generator writes")
    try:
        AYB = prog.fn_path("rustzx_core", "szx::process_ay_block")
    except KeyError:
        chk.undecided_("T-TABLE/szx/AY/anchor", "the AY chunk handler (szx::process_ay_block) was not found")
        return
    CH = prog.adt_path("rustzx_core", "ZXAyChip")
    MIX = prog.adt_path("rustzx_core", "ZXMixer")
    WR = [p for p in prog.fns if p.startswith("<aym::") and "AymBackend" in p and p.endswith("::write_register")]
    SETAY = prog.fn_path("rustzx_core", "Emulator::<H>::set_ay_enabled")
    n = 0
    for m in ("Sinclair48K", "Sinclair128K"):
        w = Walker(prog, loop_bound=20, max_paths=4000)
        w.opaque_paths |= set(WR) | {SETAY}
        w.effect_hook = lambda w_, st_, path, a, d, wh: EffectResult(None, havoc=False)
        st = ld.emulator_state(w, prog, ln, m)
        emu = st.store[ld.EMU]
        # AY present: the handler's own enabling logic (48K files with the 128AY flag) is C14's guard rule; here the
        # restore itself is judged, so the chip is taken as enabled
        s = emu.fields[prog.field_index(ln.EM, "settings")].with_field(prog.field_index(ln.SET, "ay_enabled"), tm.TRUE)
        st.store[ld.EMU] = emu.with_field(prog.field_index(ln.EM, "settings"), s)
        data = Agg(("array",), 0, [tm.sym("ay[%d]" % i, 8) for i in range(18)])
        st.store[("h", "aydata")] = data
        fnb = prog.fn(AYB)
        # the machine id in whatever type the handler takes it (a plain integer or a wrapper)
        mid = w.symval("machine_id", fnb.T[fnb.body["locals"][2]])
        rs = w.run(fnb, [Ref(ld.EMU, (), True), mid, Ref(("h", "aydata"), (), False, K(18, 64))], genv={"H": ld.H}, state=st)
        key = "T-TABLE/szx::load/%s/AY" % m
        good = [r for r in rs if r.outcome == "return"]
        bad = [r for r in rs if r.outcome not in ("return", "panic")]
        if not good or bad:
            chk.undecided_(key + "/paths", "exploration of the AY chunk handler failed: %s" % [(r.outcome, r.detail) for r in (bad or rs)][:2])
            continue
        for r in good:
            fw = [(e.args[1], e.args[2]) for e in r.trace if e.path in WR]
            if not fw:
                continue
            ctl = r.store[ld.EMU].fields[prog.field_index(ln.EM, "controller")]
            chip = cc.tree_get(ctl, (prog.field_index(ln.CTL, "mixer"), prog.field_index(MIX, "ay")))
            if not isinstance(chip, Agg):
                chk.undecided_(key + "/chip", "the AY chip is not reached at controller.mixer.ay")
                continue
            cur = cc.leaf_term(chip.fields[prog.field_index(CH, "current_reg")])
            want = tm.zext(tm.binop("and", tm.sym("ay[1]", 8), K(0x0F, 8)), cur.bits) if isinstance(cur, T) else None
            chk.check(isinstance(cur, T) and tm.equiv(cur, want) is True, key + "/selected-register",
                      "after the AY chunk the selected register is %s; the file says chCurrentRegister (byte 1, mod 16)" % (tm.show(cur) if isinstance(cur, T) else cur))
            regs = chip.fields[prog.field_index(CH, "regs")]
            okr = isinstance(regs, Agg) and len(regs.fields) == 16 and all(cc.leaf_term(regs.fields[i]) is tm.sym("ay[%d]" % (2 + i), 8) for i in range(16))
            chk.check(okr, key + "/register-file", "after the AY chunk the register file is not chAyRegs[0..16]: %s" % (regs,))
            last = {}
            for a, b in fw:
                if isinstance(a, T) and a.is_const():
                    last[a.val] = b
                else:
                    last = None
                    break
            okg = last is not None and sorted(last) == list(range(16)) and all(last[i] is tm.sym("ay[%d]" % (2 + i), 8) for i in range(16))
            chk.check(okg, key + "/generator", "the sound generator does not end with register i = chAyRegs[i] for all 16 registers")
            n += 1
    chk.count("ay-chunk-paths", n)
    chk.floor("ay-chunk-paths", 2)
