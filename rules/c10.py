"""C10 — fast tape loading: trap condition, one block per request, register discipline, result flags."""
from . import corecommon as cc
from . import c04
from . import z80common as zc
from zx import cpu
from zx import term as tm
from zx.term import K, T
from zx.walk import Walker, Agg, Ref, EffectResult, UNIT, SymObj, Opaque

LEVEL = "other"

EXPL = (
    "Decided: the trap fires exactly at PC == 0x056B with the 48K BASIC ROM paged (48K: ROM 0, 128K: ROM 1) and is served "
    "only when the deck is stopped and fast loading is on.  On every explored path of fast_load_tap (block access, memory "
    "access and the RET as effects; the byte loop explored for its first iterations and every exit): exactly one next_block "
    "per request; an exit that does not complete the request (no block left, asset error) leaves every CPU register as it "
    "was; every completing exit performs exactly one RET and defines IX = IX0+n, DE = DE0-n, A, F; LOAD stores go through "
    "write_internal(IX0+k, byte) (so the screen copy follows, C08), VERIFY compares memory.read(IX0+k); flag-byte mismatch, "
    "verify mismatch and parity/short-block exits deliver carry = 0, success (length exhausted and XOR of all bytes == 0) "
    "carry = 1.  NOT decided: equality with the ROM's LD-BYTES for all blocks/requests (program equivalence over unbounded data)."
)


def run(chk):
    prog = cc.program("A")
    names = cc.Names(prog)
    chk.rule("T-TABLE", "trap condition of pc_callback")
    chk.rule("T-PAIR/T-GUARD", "one next_block per request; no RET => registers untouched; RET => result registers defined")
    trap(chk, prog, names)
    served(chk, prog, names)
    loader(chk, prog, names)
    # block framing / window invariant of the TAP reader (shared rule, rules/tapeinv.py)
    from . import tapeinv
    chk.rule("T-INV", "Tap window invariant: inductive over every writer and every exit; asserts and bounds implied; headers read only at block ends")
    tapeinv.run(chk, prog)
    # switching fast loading on or off is a flag, not an action on the machine
    cg, fa = cc.scans(prog)
    chk.rule("T-NONINT/fast-load-switch", "set_fast_load changes its flag only")
    cc.check_mod_set(chk, prog, cg, fa, "set_fast_load", {(prog.adt_path("rustzx_core", "Emulator"), "fast_load")},
                     "T-NONINT/fast-load-switch/set_fast_load", "its own flag")
    return chk.finish(EXPL)


def trap(chk, prog, names):
    EV = prog.adt_path("rustzx_core", "EmulationEvents")
    for m, rom in (("Sinclair48K", 0), ("Sinclair128K", 1)):
        w = Walker(prog)
        w.effect_hook = lambda w_, st, path, a, d, wh: EffectResult(None, havoc=False)
        st = cc.controller_state(w, prog, names, m)
        addr = tm.sym("addr", 16)
        rs = w.run(prog.fn(names.bus("pc_callback")), [Ref(cc.CTL, (), True), addr], genv=cc.GENV, state=st)
        key = "T-TABLE/ZXController::pc_callback/%s" % m
        if not rs or any(r.outcome != "return" for r in rs):
            chk.fail(key + "/paths", "paths: %s" % [(r.outcome, r.detail) for r in rs if r.outcome != "return"][:2])
            continue
        ei = prog.field_index(names.CTL, "events")
        for r in rs:
            ev0 = tm.sym("ctl.events.bits", 8)
            ev = r.store[cc.CTL].fields[ei]
            bits = ev.fields[0] if isinstance(ev, Agg) else None
            is_addr = c04.cc_decide(r, tm.cmp("eq", addr, K(0x056B, 16)))
            var = dict((c[1], c[2]) for c in r.pc if c[0] == "variant")
            page = var.get("ctl.memory.map[0]")
            romn = c04.cc_decide(r, tm.cmp("eq", tm.sym("ctl.memory.map[0].Rom.0", 8), K(rom, 8))) if page == "Rom" else False
            if isinstance(ev, SymObj):
                bits = tm.sym("ctl.events.bits", 8)   # never touched on this path
            if not isinstance(bits, T):
                chk.undecided_(key + "/events", "events field is not a bit set: %r" % (ev,))
                continue
            # the trap bit is the one the fast-load consumer tests: find it as the bit that can be set here
            newbits = [j for j in range(bits.bits) if tm.bv(bits)[j] == 1]
            if is_addr is None and page != "Rom":
                is_addr = False
            dbg = [c for c in r.pc if c[0] == "variant" and c[1] == "ctl.debug_interface"]
            trapped = len(newbits) >= 1 and any(tm.bv(bits)[j] == 1 for j in newbits)
            want = bool(is_addr) and page == "Rom" and bool(romn)
            if is_addr is None or (page == "Rom" and romn is None):
                if not newbits:
                    chk.ok()
                    continue
            # debug breakpoints may set another bit; only judge paths without a debug hit
            dbg_hit = any(e.path.endswith("check_pc_breakpoint") for e in r.trace) and \
                any(c[0] in ("eq", "ne") and isinstance(c[1], T) and "check_pc_breakpoint" in tm.show(c[1]) and ((c[0] == "eq" and c[2] == 1) or (c[0] == "ne" and 0 in c[2])) for c in r.pc)
            if dbg_hit:
                continue
            chk.check(trapped == want, key, "%s: trap raised=%s at addr==0x056B:%s with window 0 = %s%s; documented: only at 0x056B with ROM %d paged" % (
                m, trapped, is_addr, page, "" if page != "Rom" else "(%s ROM %d)" % ("is" if romn else "not", rom), rom))
            chk.count("trap-paths")
    chk.floor("trap-paths", 4)


def served(chk, prog, names):
    """process_fast_load_event: fast_load_tap only when can_fast_load() && fast_load"""
    cg, fa = cc.scans(prog)
    PF = prog.fn_path("rustzx_core", "Emulator::<H>::process_fast_load_event")
    FL = prog.fn_path("rustzx_core", "fastload::tap::fast_load_tap")
    EM = prog.adt_path("rustzx_core", "Emulator")
    w = Walker(prog)
    w.opaque_paths.add(FL)

    def hook(w_, st, path, a, d, wh):
        if path.endswith("::can_fast_load"):
            return EffectResult(tm.sym("STOPPED", 1), havoc=False)
        return EffectResult(None, havoc=False)
    w.effect_hook = hook
    for p in prog.fns:
        if p.endswith("TapeImpl>::can_fast_load") and "ZXTape" in p:
            w.opaque_paths.add(p)
    st = w.new_state()
    st.store[("h", "emu")] = w.materialise(SymObj("emu", ("adt", EM, (("param", "H", 0),))), st)
    rs = w.run(prog.fn(PF), [Ref(("h", "emu"), (), True)], genv=cc.GENV, state=st)
    key = "T-GUARD/Emulator::process_fast_load_event"
    for r in rs:
        if r.outcome != "return":
            chk.fail(key + "/paths", "%s %s" % (r.outcome, r.detail))
            continue
        called = any(e.path == FL for e in r.trace)
        stopped = c04.cc_decide(r, tm.sym("STOPPED", 1))
        on = c04.cc_decide(r, tm.sym("emu.fast_load", 1))
        chk.check(called == bool(stopped and on), key, "fast loader runs=%s with deck stopped=%s, option=%s" % (called, stopped, on))
        chk.count("served-paths")
    # the loader is reached only through the guarded event handler, and that only from the emulation loop
    # (private helpers in between are followed up to the API entry points)
    callers = set(s.fn.path.split("::")[-1] for s in cg.callers_of(FL))
    chk.check(callers == {"process_fast_load_event"}, key + "/callers", "fast_load_tap is called from %s" % sorted(callers))
    callers = cc.entry_points_reaching(prog, cg, names, PF)
    chk.check(callers == {"emulate_frames"}, key + "/callers2", "process_fast_load_event can be reached from %s" % sorted(callers))
    chk.floor("served-paths", 3)


def loader(chk, prog, names):
    EM = prog.adt_path("rustzx_core", "Emulator")
    FL = prog.fn_path("rustzx_core", "fastload::tap::fast_load_tap")
    H = ("param", "H", 0)
    deep = getattr(chk, 'tier', 'quick') == 'thorough'
    w = Walker(prog, loop_bound=6 if deep else 3, max_paths=40000 if deep else 4000)     # byte loop depth
    NBs = [p for p in prog.fns if "ZXTape<A> as" in p and p.endswith("::next_block")]
    NBBs = [p for p in prog.fns if "ZXTape<A> as" in p and p.endswith("::next_block_byte")]
    WI = names.bus("write_internal")
    MR = prog.fn_path("rustzx_core", "ZXMemory::read")
    POP = prog.fn_path("rustzx_z80", "Z80::pop_pc_from_stack")
    if len(NBs) != 1 or len(NBBs) != 1:
        chk.undecided_("anchor/ZXTape", "ZXTape::next_block(_byte) not unique")
        return
    NB, NBB = NBs[0], NBBs[0]
    w.opaque_paths |= {NB, NBB, WI, MR, POP}

    def hook(w_, st, path, a, d, wh):
        if path == NBB:
            n = sum(1 for e in st.trace if e.path == NBB)
            return None if False else EffectResult(None, havoc=False)
        return EffectResult(None, havoc=False)
    w.effect_hook = hook
    st = w.new_state()
    emu = w.materialise(SymObj("emu", ("adt", EM, (H,))), st)
    ci = prog.field_index(EM, "cpu")
    cpuv = w.materialise(SymObj("emu.cpu", ("adt", cpu.Z80, ())), st)
    cpuv = cpuv.with_field(prog.field_index(cpu.Z80, "regs"), cpu.symbolic_regs(prog, w, st))
    emu = emu.with_field(ci, cpuv)
    st.store[("h", "emu")] = emu
    rs = w.run(prog.fn(FL), [Ref(("h", "emu"), (), True)], genv=cc.GENV, state=st)
    key = "fastload::tap::fast_load_tap"
    roles = cpu.bind_roles(prog)
    init = cpu.role_symbols()
    IX0, DE0 = init["IX"], init["DE"]
    Fp, Ap = init["F'"], init["A'"]
    n_exit = 0
    kinds = set()
    for r in rs:
        if r.outcome not in ("return", "cut"):
            chk.fail("T-PAIR/%s/paths" % key, "path %s %s" % (r.outcome, r.detail))
            continue
        nb = [e for e in r.trace if e.path == NB]
        chk.check(len(nb) == 1, "T-PAIR/%s/one-block" % key, "a load request consumes %d blocks (path %s)" % (len(nb), [c[:3] for c in r.pc][:6]))
        if r.outcome == "cut":
            continue
        n_exit += 1
        regs = r.store[("h", "emu")].fields[ci].fields[prog.field_index(cpu.Z80, "regs")]
        cur = dict((role, regs.fields[idx]) for role, idx in roles.items() if not role.startswith("_"))
        pops = [e for e in r.trace if e.path == POP]

        def under(t):
            return tm.subst(t, r.facts) if isinstance(t, T) and r.facts else t

        def eq_under(a, b):
            a, b = under(a), under(b)
            return a is b or (isinstance(a, T) and isinstance(b, T) and tm.equiv(a, b) is True)
        changed = sorted(role for role, v in cur.items() if not eq_under(v, init[role]))
        is_err = isinstance(r.ret, Agg) and r.ret.variant == 1
        if not pops:
            kinds.add("no-ret")
            why = "asset error" if is_err else "no block left"
            nbb = [e for e in r.trace if e.path == NBB]
            if is_err and nbb:
                # an asset failure in the middle of a block is reported to the host as Err; the statement only fixes
                # the no-block-left case, so the CPU state of this exit is not judged
                continue
            chk.check(not changed, "T-GUARD/%s/undisturbed/%s" % (key, why.replace(" ", "-")),
                      "the request does not complete (%s) but CPU registers %s are changed (e.g. A/F exchanged with A'/F'); documented: CPU state is not disturbed, as with a silent tape" % (why, changed))
            continue
        chk.check(len(pops) == 1, "T-PAIR/%s/one-ret" % key, "a completed request performs %d RETs" % len(pops))
        # follow the documented LD-BYTES algorithm along the decisions this path took
        bytes_ = []
        for e in r.trace:
            if e.path == NBB:
                i = r.trace.index(e)
                none = any(c[0] == "variant" and c[1] == "ret%d:next_block_byte.Ok.0" % i and c[2] == "None" for c in r.pc)
                bytes_.append(None if none else tm.sym("ret%d:next_block_byte.Ok.0.Some.0" % i, 8))
        stores = [e for e in r.trace if e.path == WI]
        reads = [e for e in r.trace if e.path == MR]
        m = model(r, bytes_, Ap, Fp, IX0, DE0, [e.ret for e in reads])
        if m is None:
            chk.undecided_("T-GUARD/%s/model" % key, "the path does not decide a test the documented LD-BYTES routine makes: %s" % ([c[:3] for c in r.pc],))
            continue
        kind, carry, ix_w, de_w, st_w, rd_w = m
        kinds.add(kind)
        fl = under(cur["F"])
        ixv = tm.join16(cur["IXH"], cur["IXL"])
        dev = tm.join16(cur["D"], cur["E"])
        chk.check(isinstance(fl, T) and fl.is_const() and (fl.val & 1) == carry, "T-GUARD/%s/carry/%s" % (key, kind),
                  "exit '%s': F = %s, documented carry = %d" % (kind, fl, carry))
        chk.check(eq_under(ixv, ix_w) and eq_under(dev, de_w), "T-GUARD/%s/ix-de/%s" % (key, kind),
                  "exit '%s': IX = %s, DE = %s; documented %s, %s" % (kind, tm.show(under(ixv)), tm.show(under(dev)), tm.show(under(ix_w)), tm.show(under(de_w))))
        ok = len(stores) == len(st_w) and all(eq_under(e.args[1], a) and e.args[2] is b for e, (a, b) in zip(stores, st_w))
        chk.check(ok, "T-GUARD/%s/stores/%s" % (key, kind), "exit '%s': LOAD stores %s; documented %s (through write_internal)" % (
            kind, [(tm.show(e.args[1]), tm.show(e.args[2])) for e in stores], [(tm.show(a), tm.show(b)) for a, b in st_w]))
        ok = len(reads) == len(rd_w) and all(eq_under(e.args[1], a) for e, a in zip(reads, rd_w))
        chk.check(ok, "T-GUARD/%s/verify-reads/%s" % (key, kind), "exit '%s': VERIFY reads %s; documented %s" % (
            kind, [tm.show(e.args[1]) for e in reads], [tm.show(a) for a in rd_w]))
        chk.count("completed-exits")
    chk.check({"no-ret", "short-block", "success-or-parity", "flag-mismatch"} <= kinds, "T-GUARD/%s/exit-kinds" % key, "exit kinds explored: %s" % sorted(kinds))
    chk.count("loader-paths", len(rs))
    chk.floor("completed-exits", 8)
    chk.sample({"loader_paths": len(rs), "exits": n_exit, "kinds": sorted(kinds)})


def decide2(r, cond):
    d = zc.decide(r, cond)
    if d is not None:
        return d
    sy = tm.syms(cond)
    for t, v in r.facts.items():
        if t.bits == 1 and tm.syms(t) == sy:
            if tm.equiv(t, cond) is True:
                return bool(v.val)
            if tm.equiv(t, tm.unop("not", cond)) is True:
                return not bool(v.val)
    # cond of the form x == 0 / x != 0 with a recorded fact on an equivalent x
    if cond.op in ("eq", "ne") and cond.args[1].is_const():
        x, k = cond.args
        for t, v in r.facts.items():
            if t.bits == x.bits and tm.syms(t) == tm.syms(x) and tm.syms(t) and tm.equiv(t, x) is True:
                return (v.val == k.val) == (cond.op == "eq")
        for t, vals in r.nfacts.items():
            if t.bits == x.bits and tm.syms(t) == tm.syms(x) and tm.syms(t) and k.val in vals and tm.equiv(t, x) is True:
                return cond.op == "ne"
    return None


def model(r, bytes_, A_, F_, IX0, DE0, read_vals):
    """documented LD-BYTES (ROM 0x0556..0x05E2) followed along the path's decisions.
    returns (exit kind, carry, IX, DE, [(addr, byte)] stored, [addr] verified) or None if a decision is not made"""
    zero = decide2(r, tm.cmp("ne", tm.binop("and", F_, K(0x40, 8)), K(0, 8)))     # flag byte already matched?
    load = decide2(r, tm.cmp("ne", tm.binop("and", F_, K(0x01, 8)), K(0, 8)))
    acc = A_
    parity = K(0, 8)
    n = 0
    stores, reads = [], []
    ri = 0
    for b in bytes_:
        ix, de = tm.binop("add", IX0, K(n, 16)), tm.binop("sub", DE0, K(n, 16))
        if b is None:
            return ("short-block", 0, ix, de, stores, reads)
        parity = tm.binop("xor", parity, b)
        l0 = decide2(r, tm.cmp("eq", de, K(0, 16)))
        if l0 is None:
            return None
        if l0:
            z = decide2(r, tm.cmp("eq", parity, K(0, 8)))
            if z is None:
                return None
            return ("success-or-parity", 1 if z else 0, ix, de, stores, reads)
        if zero is None:
            return None
        if not zero:
            acc = tm.binop("xor", acc, b)
            mm = decide2(r, tm.cmp("ne", acc, K(0, 8)))
            if mm is None:
                return None
            if mm:
                return ("flag-mismatch", 0, ix, de, stores, reads)
            zero = True
            continue
        if load is None:
            return None
        if load:
            stores.append((ix, b))
        else:
            reads.append(ix)
            if ri >= len(read_vals):
                return None
            mm = decide2(r, tm.cmp("ne", tm.binop("xor", read_vals[ri], b), K(0, 8)))
            ri += 1
            if mm is None:
                return None
            if mm:
                return ("verify-mismatch", 0, ix, de, stores, reads)
        n += 1
    return None


def zdecide(r, par):
    """parity == 0 decided through the recorded fact on a structurally different but equal term"""
    for t, v in r.facts.items():
        if t.bits == 8 and tm.syms(t) == tm.syms(par) and tm.syms(t):
            try:
                if tm.equiv(t, par) is True:
                    return v.val == 0
            except Exception:
                pass
    for t, vals in r.nfacts.items():
        if t.bits == 8 and tm.syms(t) == tm.syms(par) and tm.syms(t) and 0 in vals:
            if tm.equiv(t, par) is True:
                return False
    return None
