"""T-INV — inductive invariant of the TAP block reader (shared by C10, C11 and C15).

Tap keeps a 128-byte window over the current block:  S = current_block_size, O = buffer_offset,
R = block_bytes_read, and — as a ghost quantity tracked from the asset effects — G = number of bytes of the
current block's data that have been taken from the asset.

    Inv:   no current block,   or
           O <= R <= O + 128,  R <= S,  S <= 65535,  and  G = min(S, O + 128)

Obligations, for every method that writes one of these fields, from every state satisfying Inv (the two arms
of the min are explored separately), on every path:
  (a) every assert / index / slice bound reached is implied by Inv and the branch facts before it
      (so the arithmetic on O, R, S cannot overflow and buffer[..] cannot be indexed out of range);
  (b) every exit — Ok *and* Err, the object survives an I/O error — re-establishes the structural part of Inv;
      Ok exits re-establish G = min(S, O+128) as well;
  (c) framing: a new block size is taken only from two bytes read when G == S of the previous block (the asset
      stands at the next header), it is their little-endian value, and a block is dropped only when G == S.
Relational facts are decided by zx/lia.py (Fourier-Motzkin over the path's linear facts; case split on min).
"""
from . import corecommon as cc
from . import tapecommon as tc
from . import loaders as ld
from zx import term as tm
from zx import lia
from zx.lia import Lin, const
from zx.term import K, T
from zx.walk import Walker, Agg, Ref, EffectResult

OPT = "core::option::Option"
BUF = 128
CURRENT = 2      # SeekFrom::{Start, End, Current}; checked against the ADT on every run


def _some(S):
    return Agg(("adt", OPT, (("int", 64, False, True),)), 1, [S])


def _none():
    return Agg(("adt", OPT, (("int", 64, False, True),)), 0, [])


def window_methods(prog, with_helpers=False):
    """entry methods through which the window fields can change: the direct writers that are API methods of Tap
    (trait methods / public methods taking only self), and for private helpers their callers inside Tap, upwards.
    with_helpers: also return the private helpers (they are analysed inlined in their callers)."""
    tn = tc.TapeNames(prog)
    cg, fa = cc.scans(prog)
    writers = set()
    for f in ("buffer_offset", "block_bytes_read", "current_block_size"):
        writers |= set(fa.writers(tn.TAP, f))
    writers = set(p for p in writers if not p.endswith("::from_asset"))

    def is_api(p):
        f = prog.fns.get(p)
        if f is None or f.body is None or not f.assoc:
            return False
        st = f.assoc.get("self_ty")
        if not (st and st[0] == "adt" and st[1] == tn.TAP):
            return False
        return f.body["argc"] == 1 and (f.assoc.get("trait") is not None or f.vis == "pub")

    entries, helpers = set(), set()
    work = list(writers)
    seen = set()
    while work:
        p = work.pop()
        if p in seen:
            continue
        seen.add(p)
        if is_api(p):
            entries.add(p)
            continue
        helpers.add(p)
        for s in cg.callers_of(p):
            work.append(s.fn.path)
    if with_helpers:
        return sorted(entries), sorted(helpers)
    return sorted(entries)


def run(chk, prog, pid_note=""):
    tn = tc.TapeNames(prog)
    cg, fa = cc.scans(prog)
    SF = prog.adt_path("rustzx_core", "SeekFrom")
    if prog.variant_names(SF) != ["Start", "End", "Current"]:
        chk.undecided_("T-INV/Tap/seekfrom", "SeekFrom variants are %s" % (prog.variant_names(SF),))
        return
    methods, helpers = window_methods(prog, with_helpers=True)
    # a helper reached from outside Tap's own methods would escape the analysis
    for h in helpers:
        f = prog.fns.get(h)
        st = f.assoc.get("self_ty") if f is not None and f.assoc else None
        chk.check(bool(st) and st[0] == "adt" and st[1] == tn.TAP and f.vis != "pub", "T-INV/Tap/helper/%s" % h.split("::")[-1],
                  "%s writes the window fields but is neither an API method of Tap nor a private helper of it" % h)
    key0 = "T-INV/Tap"
    _constructor(chk, prog, tn, key0)
    names = [m.split("::")[-1] for m in methods]
    chk.check(set(names) >= {"next_block", "next_block_byte", "rewind"}, key0 + "/writers",
              "methods writing buffer_offset / block_bytes_read / current_block_size: %s" % names)
    S, O, R = tm.sym("S", 64), tm.sym("O", 64), tm.sym("R", 64)
    inv_common = [(Lin({O: 1, R: -1}), "<="), (Lin({R: 1, O: -1}, -BUF), "<="), (Lin({R: 1, S: -1}), "<="),
                  (Lin({S: 1}, -65535), "<=")]
    cases = {
        "none": (None, []),
        "tail": (S, inv_common + [(Lin({S: 1, O: -1}, -BUF), "<=")]),            # S <= O+128, G = S
        "body": (S, inv_common + [(Lin({O: 1, S: -1}, BUF + 1), "<=")]),         # S >= O+129, G = O+128
    }
    ghost0 = {"none": None, "tail": Lin({S: 1}), "body": Lin({O: 1}, BUF)}
    n_paths = 0
    for m in methods:
        mname = m.split("::")[-1]
        for cname, (size, assumed) in cases.items():
            w = Walker(prog, loop_bound=1)
            w.call_site_bound = 1     # the drain loop of next_block: one (arbitrary, by induction) iteration
            w.opaque_paths |= {ld.READ_EXACT, ld.SEEK}

            def hook(w_, st, path, a, d, wh):
                if path == ld.READ_EXACT:
                    buf = a[1]
                    k = sum(1 for n in st.notes if n[0] == "read")
                    ln = buf.meta if isinstance(buf, Ref) else None
                    if isinstance(buf, Ref):
                        cur = w_.load(st, buf.obj, buf.proj)
                        if isinstance(cur, Agg) and cur.kind == ("array",) and len(cur.fields) <= 4:
                            ln = K(len(cur.fields), 64)
                            w_.store_to(st, buf.obj, buf.proj, Agg(("array",), 0, [tm.sym("hdr%d_%d" % (k, i), 8) for i in range(len(cur.fields))]))
                    st.notes.append(("read", ln, len(st.facts), k))
                    return EffectResult(None, havoc=False)
                if path == ld.SEEK:
                    sk = a[1]
                    if isinstance(sk, Agg) and "SeekFrom" in str(sk.kind) and sk.variant == CURRENT and isinstance(sk.fields[0], T):
                        # a relative seek advances the file position like a read of that many bytes (no data)
                        k = sum(1 for n in st.notes if n[0] == "read")
                        st.notes.append(("read", sk.fields[0], len(st.facts), -1 - k))
                    else:
                        st.notes.append(("seek", sk, len(st.facts)))
                    return EffectResult(None, havoc=False)
                return None
            w.effect_hook = hook
            st = tc.tap_state(w, prog, tn, overrides={
                "buffer_offset": O, "block_bytes_read": R,
                "current_block_size": _some(S) if size is not None else _none()})
            fn = prog.fn(m)
            rs = w.run(fn, [Ref(tc.TAPOBJ, (), True)], genv={"A": tc.A}, state=st)
            key = "%s::%s/%s" % (key0, mname, cname)
            bad = [r for r in rs if r.outcome not in ("return", "cut")]
            if bad or not rs:
                chk.undecided_(key + "/paths", "exploration failed: %s" % [(r.outcome, r.detail) for r in (bad or rs)][:2])
                continue
            for r in rs:
                if r.outcome == "cut":
                    # the drain loop went round: the state at the loop head satisfies Inv by (b) of the callee
                    continue
                n_paths += 1
                _judge(chk, prog, tn, key, r, cname, assumed, ghost0[cname], S, O, R)
    chk.count("tap-invariant-paths", n_paths)
    chk.floor("tap-invariant-paths", 12)


def _constructor(chk, prog, tn, key0):
    """a fresh Tap has no current block (Inv holds trivially)"""
    c = [p for p in prog.fns if "::tap::Tap" in p and p.endswith("::from_asset")]
    if len(c) != 1:
        chk.undecided_(key0 + "/constructor", "Tap::from_asset not unique: %s" % c)
        return
    w = Walker(prog)
    from zx.walk import Opaque
    rs = w.run(prog.fn(c[0]), [Opaque("asset")], genv={"A": tc.A})
    ok = False
    if len(rs) == 1 and rs[0].outcome == "return" and isinstance(rs[0].ret, Agg) and rs[0].ret.variant == 0:
        tap = rs[0].ret.fields[0]
        if isinstance(tap, Agg):
            cbs = tap.fields[tn.fi("current_block_size")]
            ok = isinstance(cbs, Agg) and cbs.variant == 0
    chk.check(ok, key0 + "/constructor", "a new Tap does not start without a current block")


def _facts_upto(r, n):
    return dict(list(r.facts.items())[:n])


def _judge(chk, prog, tn, key, r, cname, assumed, g0, S, O, R):
    facts = dict(r.facts)
    # ---- (a) every assert / bound on the path is implied by what was known before it
    for site in r.sites:
        c = site.get("cond")
        if not isinstance(c, T):
            continue
        nb = site.get("nfacts_before")
        before = _facts_upto(r, nb) if nb is not None else {}
        exp = site.get("expected", 1)
        ok = _prove_bool(before, assumed, c, exp)
        chk.check(ok, key + "/" + site["kind"].replace(" ", "_"),
                  "%s (%s at %s) is not excluded by the window invariant and the preceding tests: condition %s must be %d" % (
                      site["kind"], site["fn"].split("::")[-1], site["loc"], tm.show(c), exp))
    tap = r.store[tc.TAPOBJ]
    O2, R2 = tap.fields[tn.fi("buffer_offset")], tap.fields[tn.fi("block_bytes_read")]
    cbs = tap.fields[tn.fi("current_block_size")]
    is_err = isinstance(r.ret, Agg) and r.ret.kind[1].endswith("Result") and r.ret.variant == 1
    # a tape marked as ended is dead until rewind() (which re-establishes everything): like an error exit, only
    # the structural part matters
    ended = tap.fields[tn.fi("tape_ended")]
    if ended is tm.TRUE:
        is_err = True
    reads = [n for n in r.notes if n[0] == "read"]
    seeks = [n for n in r.notes if n[0] == "seek"]
    absolute = False
    for sk in seeks:
        a = sk[1]
        if isinstance(a, Agg) and "SeekFrom" in str(a.kind) and a.variant == 0 and isinstance(a.fields[0], T) and a.fields[0].is_const() and a.fields[0].val == 0:
            absolute = True      # SeekFrom::Start(0): the first header
        else:
            chk.fail(key + "/seek", "absolute seek to a position other than the start of the tape inside the block reader: the position bookkeeping of the window cannot follow it (%s)" % (a,))
            return
    if not (isinstance(cbs, Agg) and cbs.variant in (0, 1)):
        chk.undecided_(key + "/state", "current_block_size after the call is %s" % (cbs,))
        return
    terms = [x for x in [O2, R2] + [n[1] for n in reads] if isinstance(x, T)]

    def total(ctx, items):
        e = const(0)
        for n in items:
            if not isinstance(n[1], T):
                return None
            e = e + lia.lin(n[1], ctx)
        return e
    if cbs.variant == 0:
        if cname != "none" and not is_err and not absolute:
            # the block is dropped: everything of it must have been taken from the asset
            ok = lia.prove(facts, assumed, [(lambda ctx: g0 + total(ctx, reads) - Lin({S: 1}), "==")], terms)
            chk.check(ok, key + "/drop-at-block-end", "the current block is forgotten while the asset does not stand at the next header (bytes taken != block size)")
        else:
            chk.ok()
        return
    S2 = cbs.fields[0]
    if S2 is S:
        after = reads
        gbase = g0
        if cname == "none":
            chk.fail(key + "/state", "a block size appears without a header having been read")
            return
    else:
        # a new block: which read delivered its size?
        hk = None
        for n in reads:
            k = n[3]
            want = tm.zext(tm.join16(tm.sym("hdr%d_1" % k, 8), tm.sym("hdr%d_0" % k, 8)), 64)
            if isinstance(S2, T) and tm.equiv(S2, want) is True:
                hk = n
        if hk is None:
            chk.fail(key + "/header", "the new block size %s is not the little-endian 16-bit value of two bytes read from the asset" % (S2,))
            return
        idx = reads.index(hk)
        before_reads = reads[:idx]
        after = reads[idx + 1:]
        gbase = const(0)
        if cname != "none" and not absolute:
            fb = _facts_upto(r, hk[2])
            ok = lia.prove(fb, assumed, [(lambda ctx: g0 + total(ctx, before_reads) - Lin({S: 1}), "==")],
                           [n[1] for n in before_reads if isinstance(n[1], T)])
            chk.check(ok, key + "/framing", "the next block header is read while the asset is not proven to stand at the end of the current block: "
                      "bytes of the block taken from the asset = %s + %s, block size S" % (g0, [tm.show(n[1]) for n in before_reads]))
        else:
            chk.ok()
    if not (isinstance(O2, T) and isinstance(R2, T) and isinstance(S2, T)):
        chk.undecided_(key + "/state", "window fields after the call: %s %s %s" % (O2, R2, S2))
        return
    L = lambda t: (lambda ctx: lia.lin(t, ctx))
    structural = [
        (lambda ctx: lia.lin(O2, ctx) - lia.lin(R2, ctx), "<="),
        (lambda ctx: lia.lin(R2, ctx) - lia.lin(O2, ctx) - const(BUF), "<="),
        (lambda ctx: lia.lin(R2, ctx) - lia.lin(S2, ctx), "<="),
        (lambda ctx: lia.lin(S2, ctx) - const(65535), "<="),
    ]
    ok = lia.prove(facts, assumed, structural, terms + [S2])
    chk.check(ok, key + ("/exit-err" if is_err else "/exit") + "/window",
              "after %s the window fields are O=%s R=%s S=%s: O <= R <= O+128, R <= S is not re-established — the next call computes R - O / indexes the buffer from a broken window" % (
                  "an I/O error" if is_err else "the call", tm.show(O2), tm.show(R2), tm.show(S2)))
    if is_err:
        return
    # ghost: G' = min(S', O'+128), proved per case of the min
    def ghost(ctx):
        t_ = total(ctx, after)
        return gbase + t_

    def in_tail(ctx):     # S' <= O'+128
        return lia.lin(S2, ctx) - lia.lin(O2, ctx) - const(BUF)
    okg = _prove_min(facts, assumed, ghost, S2, O2, terms + [S2])
    chk.check(okg, key + "/exit/fetched", "after the call the bytes of the block taken from the asset are not min(S, O+128) (S=%s, O=%s, reads %s): the window and the file position disagree" % (
        tm.show(S2), tm.show(O2), [tm.show(n[1]) if isinstance(n[1], T) else n[1] for n in after]))


def _prove_min(facts, assumed, ghost, S2, O2, terms):
    """ghost == min(S2, O2+128) in every case of the facts"""
    its = lia.ite_atoms(terms, facts)[:4]
    for mask_ in range(1 << len(its)):
        f2 = dict(facts)
        for i, it in enumerate(its):
            f2[it.args[0]] = K((mask_ >> i) & 1, 1)
        cons, ctx = lia.hypotheses(f2)
        cons = cons + list(assumed)
        if lia.infeasible(cons):
            continue
        g = ghost(ctx)
        s2, o2 = lia.lin(S2, ctx), lia.lin(O2, ctx)
        # split on S2 <= O2+128
        for tail in (True, False):
            c2 = cons + [((s2 - o2 - const(BUF)), "<=") if tail else ((o2 - s2 + const(BUF + 1)), "<=")]
            if lia.infeasible(c2):
                continue
            goal = g - s2 if tail else g - o2 - const(BUF)
            if not lia.entails(c2, goal, "=="):
                return False
    return True


def _prove_bool(before, assumed, c, exp):
    """the 1-bit term c has value exp under the facts known before it and the assumed invariant"""
    its = lia.ite_atoms([c], before)[:4]
    for mask_ in range(1 << len(its)):
        f2 = dict(before)
        for i, it in enumerate(its):
            f2[it.args[0]] = K((mask_ >> i) & 1, 1)
        cons, ctx = lia.hypotheses(f2)
        cons = cons + list(assumed)
        if lia.infeasible(cons):
            continue
        # c == exp  is implied iff  facts + (c == 1-exp) is infeasible
        neg, _ = lia.hypotheses(f2, extra=[(c, 1 - exp)])
        if not lia.infeasible(neg + list(assumed)):
            return False
    return True
