"""Shared exploration of Z80::emulate per encoding (used by C01, C02, C03)."""
import os
import sys

sys.path.insert(0, os.path.dirname(os.path.dirname(os.path.abspath(__file__))))
from zx import term as tm
from zx.term import K, T
from zx import cpu
from zx.facts import Program
from zx.walk import Walker, Agg, Ref
from oracle import z80 as oz

BUS = cpu.BUS

_prog = {}


def program(tag="A"):
    tag = os.environ.get("VERIF_CONFIG", tag)     # thorough tier: second pass over the feature-less build (B)
    if tag not in _prog:
        _prog[tag] = Program(tag, crates=["rustzx_z80"])
    return _prog[tag]


def same(a, b):
    if a is b:
        return True
    if not (isinstance(a, T) and isinstance(b, T)) or a.bits != b.bits:
        return False
    if tm.cmp("eq", a, b) is tm.TRUE:
        return True
    key = (a, b)
    r = _same_memo.get(key)
    if r is None:
        r = tm.equiv(a, b) is True
        _same_memo[key] = r
    return r


_same_memo = {}


def is_ir(addr):
    """high byte is exactly I, low byte depends on R only"""
    if not isinstance(addr, T) or addr.bits != 16:
        return False
    b = tm.bv(addr)
    for j in range(8):
        x = b[8 + j]
        if not (isinstance(x, tuple) and x[0] == "c" and x[1] == "I" and x[2] == j and not x[3]):
            return False
    low = set()
    for j in range(8):
        x = b[j]
        if x in (0, 1):
            return False
        low |= set(s for (s, _) in tm._dep_of(x))
    return low == {"R"}


def events_of(path):
    """Primitive bus trace of one path as timing events (see oracle/z80.py)."""
    ev = []
    side = []
    tr = path.trace
    i = 0
    n = len(tr)
    while i < n:
        e = tr[i]
        if not e.path.startswith(BUS):
            ev.append(("?", e.path))
            i += 1
            continue
        name = e.path[len(BUS):]
        a = e.args
        if name == "wait_mreq":
            addr, clk = a[1], a[2]
            clk = clk.val if isinstance(clk, T) and clk.is_const() else None
            nx = tr[i + 1] if i + 1 < n else None
            if nx is not None and nx.path == BUS + "read_internal" and nx.args[1] is addr:
                ev.append(("R", addr, clk, nx.ret))
                i += 2
                continue
            if nx is not None and nx.path == BUS + "write_internal" and nx.args[1] is addr:
                ev.append(("W", addr, clk, nx.args[2]))
                i += 2
                continue
            ev.append(("M?", addr, clk))
        elif name == "wait_no_mreq":
            addr, clk = a[1], a[2]
            # an internal cycle is ONE T-state with the address on the bus: the ULA looks at every single one, so a
            # k-T wait issued as one bus call (delayed once) is not k internal cycles
            if isinstance(clk, T) and clk.is_const() and clk.val == 1:
                ev.append(("I", addr))
            else:
                ev.append(("I?", addr, clk))
        elif name == "wait_internal":
            clk = a[1]
            ev.append(("X", clk.val if isinstance(clk, T) and clk.is_const() else None))
        elif name == "read_internal":
            ev.append(("R0", a[1], e.ret))
        elif name == "write_internal":
            ev.append(("W0", a[1], a[2]))
        elif name == "read_io":
            ev.append(("IOR", a[1], e.ret))
        elif name == "write_io":
            ev.append(("IOW", a[1], a[2]))
        elif name in ("halt", "reti", "pc_callback", "process_unknown_opcode", "int_active", "nmi_active",
                      "read_interrupt"):
            side.append((name,) + tuple(a[1:]) + ((e.ret,) if name == "read_interrupt" else ()))
            if name == "read_interrupt":
                ev.append(("INTACK", e.ret))
        else:
            ev.append(("?", e.path))
        i += 1
    return ev, side


def show_event(e):
    k = e[0]
    if k in ("R", "W"):
        return "%s %s:%s" % (k, tm.show(e[1]), e[2])
    if k == "I":
        return "I %s" % ("IR" if is_ir(e[1]) else tm.show(e[1]))
    if k == "IR":
        return "I IR"
    if k in ("IOR", "IOW"):
        return "%s %s" % (k, tm.show(e[1]))
    return " ".join(tm.show(x) if isinstance(x, T) else str(x) for x in e)


def event_matches(exp, act):
    k = exp[0]
    if k in ("R", "W"):
        return act[0] == k and act[2] == exp[2] and same(exp[1], act[1])
    if k == "I":
        return act[0] == "I" and same(exp[1], act[1])
    if k == "IR":
        return act[0] == "I" and is_ir(act[1])
    if k in ("IOR", "IOW"):
        return act[0] == k and same(exp[1], act[1])
    return False


def trace_matches(exp, act):
    if len(exp) != len(act):
        return False
    return all(event_matches(x, y) for x, y in zip(exp, act))


def decide(path, t):
    """Truth of 1-bit term t under the path's recorded branch facts: True / False / None."""
    if t.is_const():
        return bool(t.val)
    facts = path.facts
    nfacts = path.nfacts
    t2 = tm.subst(t, facts) if facts else t
    if t2.is_const():
        return bool(t2.val)
    t = t2
    if t.op == "not":
        r = decide(path, t.args[0])
        return None if r is None else not r
    if t.op in ("eq", "ne"):
        x, y = t.args
        if not y.is_const():
            x = tm.binop("sub", x, y)
            y = K(0, x.bits)
            x = tm.subst(x, facts) if facts else x
        if x.is_const():
            r = x.val == y.val
        else:
            f = facts.get(x)
            if f is not None:
                r = f.val == y.val
            elif y.val in nfacts.get(x, ()):
                r = False
            else:
                # boolean-valued comparison recorded directly
                e = tm.cmp("eq", x, y)
                if e.is_const():
                    r = bool(e.val)
                else:
                    f = facts.get(e)
                    if f is None:
                        ne = tm.cmp("ne", x, y)
                        f2 = facts.get(ne)
                        if f2 is None:
                            return None
                        r = not bool(f2.val)
                    else:
                        r = bool(f.val)
        return r if t.op == "eq" else not r
    if t.op == "and" and t.bits == 1:
        a, b = decide(path, t.args[0]), decide(path, t.args[1])
        if a is False or b is False:
            return False
        if a is True and b is True:
            return True
        return None
    if t.op == "or" and t.bits == 1:
        a, b = decide(path, t.args[0]), decide(path, t.args[1])
        if a is True or b is True:
            return True
        if a is False and b is False:
            return False
        return None
    if t.bits == 1 and t.op in ("ult", "ule", "slt", "sle"):
        # the branch may have been taken on the complementary comparison
        n = tm.unop("not", t)
        f = facts.get(n)
        if f is not None:
            return not bool(f.val)
    if t.bits == 1 and t.op in ("ult", "ule", "eq", "ne"):
        return _decide_linear(facts, nfacts, t)
    return None


def _decide_linear(facts, nfacts, t):
    """comparison of two symbolic quantities implied (or refuted) by the recorded comparisons: linear arithmetic over
    the path facts; recorded disequalities x != v are used by splitting into x < v and x > v"""
    from zx import lia
    syms_t = tm.syms(t)
    neq = [(x, v) for x, vs in nfacts.items() for v in vs if isinstance(x, T) and not x.is_const() and (tm.syms(x) & syms_t)][:3]
    verdicts = set()
    for mask_ in range(1 << len(neq)):
        extra = []
        for i, (x, v) in enumerate(neq):
            if (mask_ >> i) & 1:
                extra.append((tm.cmp("ult", K(v, x.bits), x), 1))
            else:
                extra.append((tm.cmp("ult", x, K(v, x.bits)), 1))
        try:
            cons, ctx = lia.hypotheses(dict(facts), extra=extra)
            if lia.infeasible(cons):
                continue
            yes, _ = lia.hypotheses(dict(facts), extra=extra + [(t, 0)])
            no, _ = lia.hypotheses(dict(facts), extra=extra + [(t, 1)])
        except Exception:
            return None
        if lia.infeasible(yes):
            verdicts.add(True)
        elif lia.infeasible(no):
            verdicts.add(False)
        else:
            return None
    if len(verdicts) == 1:
        return verdicts.pop()
    return None


_explored = {}


def explore(prog, group, opc, walker=None):
    key = (id(prog), group, opc)
    if key not in _explored:
        enc = oz.encoding_bytes(group, opc)
        w = walker or Walker(prog, max_paths=600)
        _explored[key] = cpu.run_encoding(prog, enc, walker=w)
    return _explored[key]


def enc_name(group, opc):
    b = oz.encoding_bytes(group, opc)
    return " ".join("d" if x is None else "%02X" % x for x in b)


def final_cpu(prog, path):
    """role -> final term (simplified under the path's branch facts); plus halted / skip_interrupt / int_mode /
    active_prefix"""
    out = _final_cpu(prog, path)
    if path.facts:
        for k, v in list(out.items()):
            if isinstance(v, T) and not v.is_const():
                out[k] = tm.subst(v, path.facts)
    return out


def _final_cpu(prog, path):
    roles = cpu.bind_roles(prog)
    cpuv = path.store[cpu.CPU]
    fi = lambda n: prog.field_index(cpu.Z80, n)
    regs = cpuv.fields[fi("regs")]
    out = {}
    for role, idx in roles.items():
        if role.startswith("_"):
            continue
        out[role] = regs.fields[idx]
    for pr, (hi, lo) in cpu.PAIRS.items():
        out[pr] = tm.join16(out[hi], out[lo])
    out["AF"] = tm.join16(out["A"], out["F"])
    out["AF'"] = tm.join16(out["A'"], out["F'"])
    out["halted"] = cpuv.fields[fi("halted")]
    out["skip_interrupt"] = cpuv.fields[fi("skip_interrupt")]
    im = cpuv.fields[fi("int_mode")]
    ap = cpuv.fields[fi("active_prefix")]
    IM = prog.adt_path("rustzx_z80", "IntMode")
    PF = prog.adt_path("rustzx_z80", "Prefix")
    out["int_mode"] = prog.variant_names(IM)[im.variant] if isinstance(im, Agg) else "unchanged:%s" % getattr(im, "name", im)
    out["active_prefix"] = prog.variant_names(PF)[ap.variant] if isinstance(ap, Agg) else "unchanged:%s" % getattr(ap, "name", ap)
    return out


INITIAL = cpu.role_symbols()
INITIAL["AF"] = tm.join16(INITIAL["A"], INITIAL["F"])
INITIAL["AF'"] = tm.join16(INITIAL["A'"], INITIAL["F'"])


def side_effects(path, name):
    out = []
    for e in path.trace:
        if e.path == BUS + name:
            out.append(e)
    return out


def val(path, t):
    """term t as seen under the path's branch facts"""
    if isinstance(t, T) and not t.is_const() and path.facts:
        return tm.subst(t, path.facts)
    return t


def eq_under(path, a, b):
    return same(val(path, a), val(path, b))
