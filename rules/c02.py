"""C02 — interrupt, NMI, HALT and prefix sequencing (T-GUARD / T-PAIR / T-SIB on Z80::emulate)."""
from . import z80common as zc
from oracle import z80 as oz
from zx import term as tm
from zx.term import K, T
from zx import cpu
from zx.walk import Walker, Agg, Ref, SymObj

LEVEL = "proof"

EXPL = (
    "Decided on complete path sets of Z80::emulate (acyclic): (1) acceptance guard - with the opcode fixed to NOP and "
    "skip_interrupt, halted, IFF1, interrupt mode, NMI and INT line levels all symbolic, every path is classified by its "
    "branch facts and must show: no line sampling and skip_interrupt cleared when skip was set; NMI sampled first; INT "
    "accepted iff int_active && IFF1; acceptance clears IFF1 (+IFF2 for INT, IFF2 preserved for NMI), releases HALT "
    "(halt(false), halted=false, PC+1), pushes the then-current PC at SP-1/SP-2, continues at 0x0066 / 0x0038 / word read "
    "at I*256+bus byte (bit provenance).  (2) every path of every one of the 1792 encodings that leaves a pending prefix "
    "sets skip_interrupt, and only DD/FD followed by DD/ED/FD leaves one; EI/DI set skip_interrupt and the flip-flops.  "
    "(3) entering with a pending DD/FD/ED prefix gives the bus trace of the prefixed page minus the prefix fetch "
    "(768 sibling comparisons).  (4) HALT: halted=1, halt(true), PC unchanged, one 4-T fetch.  (5) RETN/RETI x8: IFF1 := IFF2, "
    "reti() only for ED 4D.  Not decided: when the machine raises INT (C05)."
)


def classify(zcmod, p, terms):
    out = {}
    for k, t in terms.items():
        out[k] = zcmod.decide(p, t) if isinstance(t, T) else None
    return out


def run(chk):
    prog = zc.program("A")
    chk.rule("T-GUARD", "interrupt handling is reachable only when skip_interrupt was false; NMI before INT; INT needs IFF1")
    chk.rule("T-POST", "post-state of acceptance paths (IFFs, halt release, pushed PC, vector) by constants / bit provenance")
    chk.rule("T-PAIR", "pending prefix => skip_interrupt set; EI/DI set skip_interrupt")
    chk.rule("T-SIB", "pending-prefix entry == prefixed page minus the prefix fetch")
    acceptance(chk, prog)
    prefix_pairing(chk, prog)
    pending_sibling(chk, prog)
    halt_retn(chk, prog)
    return chk.finish(EXPL)


def acceptance(chk, prog):
    IM = prog.adt_path("rustzx_z80", "IntMode")
    w = Walker(prog, max_paths=2000)
    base_hook = cpu.make_fetch_hook([0x00])

    def hook(w_, st, path, args, dest_ty, where):
        if path == cpu.BUS + "read_internal" and st.trace and st.trace[-1].path == cpu.BUS + "wait_mreq":
            c = st.trace[-1].args[2]
            if isinstance(c, T) and c.is_const() and c.val == 4:
                return K(0, 8)
        if path == cpu.BUS + "nmi_active":
            return tm.sym("NMI", 1)
        if path == cpu.BUS + "int_active":
            return tm.sym("INT", 1)
        if path == cpu.BUS + "read_interrupt":
            return tm.sym("BUSBYTE", 8)
        return base_hook(w_, st, path, args, dest_ty, where)
    w.effect_hook = hook
    st = cpu.cpu_state(w, prog, skip_interrupt=None, pending_prefix="None",
                       overrides={"skip_interrupt": tm.sym("SKIP", 1), "halted": tm.sym("HALTED", 1)})
    fn = prog.fn(cpu.EMULATE)
    rs = w.run(fn, [Ref(cpu.CPU, (), True), Ref(cpu.BUSOBJ, (), True)], genv={}, state=st)
    SKIP, NMI, INT, HALTED = tm.sym("SKIP", 1), tm.sym("NMI", 1), tm.sym("INT", 1), tm.sym("HALTED", 1)
    IFF1, IFF2 = zc.INITIAL["IFF1"], zc.INITIAL["IFF2"]
    PC, SP, I = zc.INITIAL["PC"], zc.INITIAL["SP"], zc.INITIAL["I"]
    seen = set()
    fnkey = "Z80::emulate"
    for p in rs:
        if p.outcome != "return":
            chk.fail("T-GUARD/%s/path" % fnkey, "interrupt-sampling path does not return: %s %s" % (p.outcome, p.detail))
            continue
        c = classify(zc, p, {"skip": SKIP, "nmi": NMI, "int": INT, "iff1": IFF1, "halted": HALTED})
        fin = zc.final_cpu(prog, p)
        ev, side = zc.events_of(p)
        sampled = [s[0] for s in side if s[0] in ("nmi_active", "int_active")]
        writes = [e for e in ev if e[0] == "W"]
        im = None
        for x in p.pc:
            if x[0] == "variant" and x[1] == "cpu.int_mode":
                im = x[2]
        case = None
        if c["skip"] is True:
            case = "skip"
            chk.check(not sampled and not writes, "T-GUARD/%s/skip-no-sample" % fnkey,
                      "with skip_interrupt set the lines are sampled or a push happens: %s" % sampled)
            chk.check(fin["skip_interrupt"] is tm.FALSE, "T-GUARD/%s/skip-cleared" % fnkey,
                      "skip_interrupt is not cleared by the step that honours it: %r" % (fin["skip_interrupt"],))
            chk.check(zc.same(fin["PC"], tm.binop("add", PC, K(1, 16))) and zc.eq_under(p, fin["IFF1"], IFF1) and zc.eq_under(p, fin["IFF2"], IFF2),
                      "T-GUARD/%s/skip-plain-step" % fnkey, "skipped-interrupt step changed PC/IFF unexpectedly")
        elif c["skip"] is False:
            chk.check(sampled[:1] == ["nmi_active"], "T-GUARD/%s/nmi-first" % fnkey,
                      "NMI is not the first line sampled: %s" % sampled)
            if c["nmi"] is True:
                case = "nmi"
                chk.check("int_active" not in sampled or True, "T-GUARD/%s/nmi-wins" % fnkey, "")
                pushed_pc = tm.binop("add", PC, K(1, 16)) if c["halted"] else PC
                post_accept(chk, prog, p, fin, ev, side, c, "NMI", pushed_pc, iff2_expected=IFF2,
                            vector=K(0x0066, 16))
            elif c["nmi"] is False and c["int"] is True and c["iff1"] is True:
                case = "int/" + str(im)
                pushed_pc = tm.binop("add", PC, K(1, 16)) if c["halted"] else PC
                if im == "Im2":
                    lo = [e for e in ev if e[0] == "R" and e[2] == 3]
                    vec_ok = len(lo) == 2
                    if vec_ok:
                        a0 = lo[0][1]
                        vec_addr = tm.join16(I, tm.sym("BUSBYTE", 8))
                        vec_ok = zc.same(a0, vec_addr) and zc.same(lo[1][1], tm.binop("add", vec_addr, K(1, 16)))
                    chk.check(vec_ok, "T-POST/%s/IM2-vector-address" % fnkey,
                              "IM2 vector is not read at I*256+bus byte: %s" % [zc.show_event(e) for e in lo])
                    vector = tm.join16(lo[1][3], lo[0][3]) if len(lo) == 2 else None
                else:
                    vector = K(0x0038, 16)
                post_accept(chk, prog, p, fin, ev, side, c, "INT/%s" % im, pushed_pc, iff2_expected=tm.FALSE,
                            vector=vector)
            elif c["nmi"] is False and (c["int"] is False or c["iff1"] is False):
                case = "none"
                chk.check(not writes and zc.eq_under(p, fin["IFF1"], IFF1) and zc.eq_under(p, fin["IFF2"], IFF2) and
                          zc.same(fin["PC"], tm.binop("add", PC, K(1, 16))) and zc.same(fin["SP"], SP),
                          "T-GUARD/%s/no-accept" % fnkey,
                          "state changed although no interrupt may be accepted (int=%s iff1=%s)" % (c["int"], c["iff1"]))
            else:
                chk.undecided_("T-GUARD/%s/classify" % fnkey, "cannot classify path %r" % (c,))
        else:
            chk.undecided_("T-GUARD/%s/classify" % fnkey, "path does not decide skip_interrupt: %r" % (p.pc,))
        if case:
            seen.add(case)
            chk.count("acceptance-paths")
    want = {"skip", "nmi", "none", "int/Im0", "int/Im1", "int/Im2"}
    chk.check(want <= seen, "T-GUARD/%s/cases" % fnkey, "acceptance cases missing from the path set: %s" % sorted(want - seen))
    chk.floor("acceptance-paths", 10)
    chk.sample({"acceptance_cases": sorted(seen), "paths": len(rs)})


def post_accept(chk, prog, p, fin, ev, side, c, name, pushed_pc, iff2_expected, vector):
    fnkey = "Z80::handle_interrupt"
    SP = zc.INITIAL["SP"]
    k = "T-POST/%s/%s" % (fnkey, name)
    chk.check(fin["IFF1"] is tm.FALSE, k + "/iff1", "%s acceptance does not clear IFF1: %r" % (name, fin["IFF1"]))
    chk.check(zc.eq_under(p, fin["IFF2"], iff2_expected), k + "/iff2",
              "%s acceptance leaves IFF2 = %r, expected %r" % (name, fin["IFF2"], iff2_expected))
    chk.check(fin["halted"] is tm.FALSE, k + "/halt-released", "%s acceptance leaves halted = %r" % (name, fin["halted"]))
    halts = [s for s in side if s[0] == "halt"]
    if c["halted"]:
        chk.check(len(halts) == 1 and halts[0][1] is tm.FALSE, k + "/halt-line", "halted CPU: halt(false) not signalled: %s" % (halts,))
    else:
        chk.check(not halts, k + "/halt-line", "halt line touched on a running CPU: %s" % (halts,))
    ws = [e for e in ev if e[0] == "W"]
    okp = len(ws) == 2 and zc.same(ws[0][1], tm.binop("add", SP, K(-1, 16))) and \
        zc.same(ws[1][1], tm.binop("add", SP, K(-2, 16))) and \
        zc.same(ws[0][3], tm.hi8(pushed_pc)) and zc.same(ws[1][3], tm.lo8(pushed_pc))
    chk.check(okp, k + "/push", "%s: pushed word is not the address of the next instruction at SP-1/SP-2: %s" % (
        name, [(tm.show(e[1]), tm.show(e[3])) for e in ws]))
    chk.check(zc.same(fin["SP"], tm.binop("add", SP, K(-2, 16))), k + "/sp", "%s: SP after entry is %r" % (name, fin["SP"]))
    if vector is not None:
        # the step continues with the (NOP) instruction at the vector, so PC = vector + 1
        chk.check(zc.same(fin["PC"], tm.binop("add", vector, K(1, 16))), k + "/vector",
                  "%s: execution continues at %r, expected %r" % (name, fin["PC"], vector))
        fetches = [e for e in ev if e[0] == "R" and e[2] == 4]
        chk.check(len(fetches) == 1 and zc.same(fetches[0][1], vector), k + "/vector-fetch",
                  "%s: first fetch after acceptance is not at the vector" % name)


def prefix_pairing(chk, prog):
    n = 0
    for group, opc in oz.all_encodings():
        if oz.timing(group, opc) is None:
            continue
        name = zc.enc_name(group, opc)
        chain = group in ("dd", "fd") and opc in (0xDD, 0xED, 0xFD)
        for p in zc.explore(prog, group, opc):
            if p.outcome != "return":
                chk.fail("T-PAIR/Z80::emulate/%s" % name.replace(" ", "_"), "path does not return")
                continue
            fin = zc.final_cpu(prog, p)
            ap = fin["active_prefix"]
            n += 1
            if chain:
                want = {0xDD: "DD", 0xED: "ED", 0xFD: "FD"}[opc]
                chk.check(ap == want and fin["skip_interrupt"] is tm.TRUE, "T-PAIR/Z80::emulate/%s" % name.replace(" ", "_"),
                          "prefix chain %s: pending prefix %s / skip_interrupt %r (want %s / 1)" % (name, ap, fin["skip_interrupt"], want))
            else:
                chk.check(ap == "None", "T-PAIR/Z80::emulate/%s" % name.replace(" ", "_"),
                          "encoding %s leaves a pending prefix %s" % (name, ap))
            x, y, z = opc >> 6, (opc >> 3) & 7, opc & 7
            if group in ("main", "dd", "fd") and opc in (0xF3, 0xFB):
                v = tm.TRUE if opc == 0xFB else tm.FALSE
                chk.check(fin["skip_interrupt"] is tm.TRUE and fin["IFF1"] is v and fin["IFF2"] is v,
                          "T-PAIR/Z80::emulate/%s/eidi" % name.replace(" ", "_"),
                          "%s: skip_interrupt=%r IFF1=%r IFF2=%r" % (name, fin["skip_interrupt"], fin["IFF1"], fin["IFF2"]))
            elif not chain:
                chk.check(fin["skip_interrupt"] is tm.FALSE, "T-PAIR/Z80::emulate/%s/skip" % name.replace(" ", "_"),
                          "%s sets skip_interrupt (only EI, DI and prefix chains may)" % name)
    chk.count("pairing-paths", n)
    chk.floor("pairing-paths", 1786)


def pending_sibling(chk, prog):
    PC = zc.INITIAL["PC"]
    shift = {PC: tm.binop("add", PC, K(-1, 16))}
    n = 0
    for pend, group in (("DD", "dd"), ("FD", "fd"), ("ED", "ed")):
        for opc in range(256):
            g = group
            enc = [None, opc]
            if group in ("dd", "fd") and opc == 0xCB:
                g = "ddcb" if group == "dd" else "fdcb"
                # all 256 DDCB opcodes are covered through their own page; take a sample here
                for op4 in (0x06, 0x46, 0x86, 0xC6, 0x7E, 0x00):
                    n += sibling_one(chk, prog, pend, g, op4, [None, 0xCB, None, op4], shift)
                continue
            n += sibling_one(chk, prog, pend, g, opc, enc, shift)
    chk.count("sibling-comparisons", n)
    chk.floor("sibling-comparisons", 768)


def sibling_one(chk, prog, pend, group, opc, enc, shift):
    """emulate entered with pending prefix `pend`, bytes enc[1:] at PC; oracle = page trace minus the prefix fetch"""
    exp = oz.timing(group, opc)
    name = "pending-%s:%s" % (pend, zc.enc_name(group, opc))
    key = "T-SIB/Z80::emulate/%s" % name.replace(" ", "_")
    if exp is None:
        return 0
    w = Walker(prog, max_paths=600)
    # reads at PC0+k deliver byte k+1 of the full encoding and are named op{k+1}
    full = enc

    def hook(w_, st, path, args, dest_ty, where):
        if path == cpu.BUS + "read_internal":
            addr = args[1]
            base, off = tm.affine(addr)
            if base is zc.INITIAL["PC"]:
                off = (off & 0xFFFF) + 1
                if off < len(full) and full[off] is not None:
                    return K(full[off], 8)
                if off < 8:
                    return tm.sym("op%d" % off, 8)
            return tm.sym("mem[%s]#%d" % (tm.show(addr), len(st.trace)), 8)
        return None
    w.effect_hook = hook
    st = cpu.cpu_state(w, prog, skip_interrupt=True, pending_prefix=pend)
    rs = w.run(prog.fn(cpu.EMULATE), [Ref(cpu.CPU, (), True), Ref(cpu.BUSOBJ, (), True)], genv={}, state=st)
    seen = set()
    for p in rs:
        if p.outcome != "return":
            chk.fail(key, "%s: path does not return (%s %s)" % (name, p.outcome, p.detail))
            return 1
        ev, side = zc.events_of(p)
        # shift the oracle: PC0 of the oracle is the prefix byte, here PC points one further
        m = []
        for i, (vn, pred, e) in enumerate(exp):
            e2 = []
            for x in e[1:]:
                if x[0] in ("R", "W"):
                    e2.append((x[0], tm.subst(x[1], shift), x[2]))
                elif x[0] in ("I", "IOR", "IOW"):
                    e2.append((x[0], tm.subst(x[1], shift)))
                else:
                    e2.append(x)
            if zc.trace_matches(e2, ev):
                m.append(i)
        if not m:
            chk.fail(key, "%s: trace [%s] differs from the prefixed page minus the prefix fetch" % (
                name, ", ".join(zc.show_event(e) for e in ev)))
            return 1
        seen.update(m)
    if len(seen) != len(exp):
        chk.fail(key, "%s: variants missing" % name)
        return 1
    chk.ok()
    return 1


def halt_retn(chk, prog):
    PC = zc.INITIAL["PC"]
    for group, off in (("main", 0), ("dd", 1), ("fd", 1)):
        for p in zc.explore(prog, group, 0x76):
            fin = zc.final_cpu(prog, p)
            ev, side = zc.events_of(p)
            halts = [s for s in side if s[0] == "halt"]
            name = zc.enc_name(group, 0x76).replace(" ", "_")
            chk.check(fin["halted"] is tm.TRUE and len(halts) == 1 and halts[0][1] is tm.TRUE,
                      "T-POST/Z80::emulate/%s/halted" % name, "HALT does not set halted / signal halt(true)")
            chk.check(zc.same(fin["PC"], tm.binop("add", PC, K(off, 16))), "T-POST/Z80::emulate/%s/pc" % name,
                      "HALT leaves PC = %r; the next step must re-fetch the HALT opcode at PC+%d" % (fin["PC"], off))
            chk.count("halt-paths")
    IFF2 = zc.INITIAL["IFF2"]
    for y in range(8):
        opc = 0x45 | (y << 3)
        for p in zc.explore(prog, "ed", opc):
            fin = zc.final_cpu(prog, p)
            name = zc.enc_name("ed", opc).replace(" ", "_")
            chk.check(zc.eq_under(p, fin["IFF1"], IFF2) and zc.eq_under(p, fin["IFF2"], IFF2), "T-POST/Z80::emulate/%s/iff" % name,
                      "RETN/RETI: IFF1 = %r, IFF2 = %r (IFF1 must become a copy of IFF2)" % (fin["IFF1"], fin["IFF2"]))
            r = zc.side_effects(p, "reti")
            chk.check((len(r) == 1) == (y == 1), "T-POST/Z80::emulate/%s/reti" % name,
                      "reti() signalled %d time(s) for ED %02X" % (len(r), opc))
            chk.count("retn-paths")
    chk.floor("halt-paths", 3)
    chk.floor("retn-paths", 8)
