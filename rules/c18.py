"""C18 — AY chip: envelope tables and automaton, DAC tables, pan table, register decode, port-level select/read/write."""
import struct

from . import corecommon as cc
from . import c04
from zx import term as tm
from zx.term import K, T
from zx.walk import Walker, Agg, Ref, EffectResult, UNIT, SymObj

LEVEL = "other"

EXPL = (
    "Decided: the 16x2 ENVELOPES function table and ENVELOPE_RESET_TO_MAX (evaluated statics) with the extracted summaries "
    "of slide_up / slide_down / hold_* / reset_segment compose to the data-sheet envelope of each of the 16 shape codes "
    "(level sequence over three periods generated from the CONT/ATT/ALT/HOLD bits); AY DAC levels strictly increase with the "
    "4-bit volume (index 2v+1), YM levels strictly increase over the 32 envelope steps, all finite and within [0,1]; the pan "
    "triple of each of the 7 stereo modes; write_register decode: R0/R1.. 12-bit tone periods (high register masked 0x0F), "
    "R6 5 bits, R7 bit i -> tone off, bit 3+i -> noise off, R8-10 bit 4 -> envelope, low 4 bits volume, R11/12 16-bit period, "
    "R13 low nibble + restart, addresses >= 14 ignored; period 0 acts as 1 for tone, noise and envelope (term equivalence "
    "over all inputs); the mixer index is envelope or 2*volume+1 gated by (tone|tone_off)&(noise|noise_off); ZXAyChip: "
    "select keeps the low 4 bits (wraps modulo 16), read returns regs[selected], write stores and forwards the same register "
    "and byte.  NOT decided: frequencies, envelope period in seconds, amplitudes after FIR/DC filtering, finiteness of the "
    "floating-point output (numeric)."
)


def run(chk):
    prog = cc.program("A")
    chk.rule("T-TABLE", "envelope tables/automaton, DAC tables, pan table")
    chk.rule("T-BITS", "register decode, period clamps, mixer index, port-level select/read/write")
    envelopes(chk, prog)
    dac(chk, prog)
    pan(chk, prog)
    decode(chk, prog)
    clamps(chk, prog)
    zxaychip(chk, prog)
    # the resampler's phase stays in [0,1): a necessary condition of 'every sample is finite and bounded'
    from . import floatinv
    chk.rule("T-INV/float", "interval analysis of AymPrecise::process: phase accumulator in [0,1) at every interpolation use and at return, for every step up to clock/(8000*64)")
    floatinv.phase_accumulator(chk, prog)
    return chk.finish(EXPL)


def static(prog, name):
    c = [p for p in prog.statics if p.startswith("aym::") and p.endswith("::" + name)]
    if len(c) != 1:
        raise KeyError("anchor: static %s: %s" % (name, c))
    return prog.statics[c[0]]["v"]


def datasheet_envelope(shape, steps):
    """AY-3-8910 data sheet, 5-bit (32 step) variant: CONT ATT ALT HOLD"""
    cont, att, alt, hold = (shape >> 3) & 1, (shape >> 2) & 1, (shape >> 1) & 1, shape & 1
    out = []
    up = bool(att)
    level = 0 if up else 31
    holding = False
    for _ in range(steps):
        out.append(level)
        if holding:
            continue
        if up and level < 31:
            level += 1
            continue
        if not up and level > 0:
            level -= 1
            continue
        # end of a ramp
        if not cont:
            holding = True
            level = 0
            continue
        if hold:
            holding = True
            if alt:
                level = 0 if up else 31
            continue
        if alt:
            up = not up
            # the reversed ramp starts from the level just reached
            if up:
                level = 0
            else:
                level = 31
        else:
            level = 0 if up else 31
    return out


def envelopes(chk, prog):
    AY = prog.adt_path("aym", "AymPrecise")
    env = static(prog, "ENVELOPES")
    rst = static(prog, "ENVELOPE_RESET_TO_MAX")
    try:
        table = [[f["fnptr"].split("::")[-1] for f in row["fields"]] for row in env["fields"]]
        reset = [[b for b in bytes.fromhex(row["bytes"])] for row in rst["fields"]]
    except Exception as e:
        chk.undecided_("anchor/ENVELOPES", "cannot read the envelope tables: %s" % e)
        return
    chk.check(len(table) == 16 and all(len(r) == 2 for r in table) and len(reset) == 16, "T-TABLE/ENVELOPES/shape", "envelope tables are not 16x2")
    # summaries of the four segment functions
    fi = lambda n: prog.field_index(AY, n)
    E, SEG, SH = tm.sym("ay.envelope", 64), tm.sym("ay.envelope_segment", 64), tm.sym("ay.envelope_shape", 64)
    RS = prog.fn_path("aym", "AymPrecise::reset_segment")
    sem = {}
    for name in ("slide_up", "slide_down", "hold_top", "hold_bottom"):
        w = Walker(prog)
        w.opaque_paths.add(RS)
        w.effect_hook = lambda w_, st, path, a, d, wh: EffectResult(UNIT, havoc=False)
        st = w.new_state()
        st.store[("h", "ay")] = w.materialise(SymObj("ay", ("adt", AY, ())), st)
        rs = w.run(prog.fn(prog.fn_path("aym", "AymPrecise::" + name)), [Ref(("h", "ay"), (), True)], genv={}, state=st)
        key = "T-TABLE/AymPrecise::%s" % name
        if not rs or any(r.outcome != "return" for r in rs):
            chk.fail(key, "paths: %s" % [(r.outcome, r.detail) for r in rs][:2])
            continue
        if name.startswith("hold"):
            ok = len(rs) == 1 and not rs[0].trace and rs[0].store[("h", "ay")].fields[fi("envelope")] is E
            chk.check(ok, key, "%s changes the envelope level" % name)
            sem[name] = "hold"
            continue
        edge = 31 if name == "slide_up" else 0
        ok = True
        for r in rs:
            at_edge = c04.cc_decide(r, tm.cmp("eq", E, K(edge, 64)))
            a = r.store[("h", "ay")]
            if at_edge:
                ok = ok and len([e for e in r.trace if e.path == RS]) == 1 and tm.equiv(a.fields[fi("envelope_segment")], tm.binop("xor", SEG, K(1, 64))) is True
            elif at_edge is False:
                want = tm.binop("add", E, K(1 if name == "slide_up" else -1, 64))
                ok = ok and not r.trace and tm.equiv(a.fields[fi("envelope")], want) is True and a.fields[fi("envelope_segment")] is SEG
            else:
                ok = False
        chk.check(ok and len(rs) == 2, key, "%s is not 'step by one, at %d flip the segment and reload'" % (name, edge))
        sem[name] = "up" if name == "slide_up" else "down"
    # reset_segment: envelope = 31 if table[shape][segment] else 0
    ok = True
    for sh in range(16):
        for sg in range(2):
            w = Walker(prog)
            st = w.new_state()
            a = w.materialise(SymObj("ay", ("adt", AY, ())), st)
            a = a.with_field(fi("envelope_shape"), K(sh, 64)).with_field(fi("envelope_segment"), K(sg, 64))
            st.store[("h", "ay")] = a
            rs = w.run(prog.fn(RS), [Ref(("h", "ay"), (), True)], genv={}, state=st)
            v = rs[0].store[("h", "ay")].fields[fi("envelope")] if len(rs) == 1 and rs[0].outcome == "return" else None
            ok = ok and isinstance(v, T) and v.is_const() and v.val == (31 if reset[sh][sg] else 0)
    chk.check(ok, "T-TABLE/AymPrecise::reset_segment", "reset_segment does not load 31/0 according to ENVELOPE_RESET_TO_MAX")
    if len(sem) != 4:
        return
    # compose the summaries: level sequence of each shape over 3 periods
    for shape in range(16):
        seg = 0
        level = 31 if reset[shape][0] else 0
        got = []
        for _ in range(96):
            got.append(level)
            f = sem[table[shape][seg]]
            if f == "hold":
                continue
            if f == "up":
                if level == 31:
                    seg ^= 1
                    level = 31 if reset[shape][seg] else 0
                else:
                    level += 1
            else:
                if level == 0:
                    seg ^= 1
                    level = 31 if reset[shape][seg] else 0
                else:
                    level -= 1
        want = datasheet_envelope(shape, 96)
        first = next((i for i in range(96) if got[i] != want[i]), None)
        chk.check(first is None, "T-TABLE/ENVELOPES/shape-%d" % shape,
                  "envelope shape %d: step %s is level %s, data sheet %s (segments %s, reload %s)" % (
                      shape, first, got[first] if first is not None else "-", want[first] if first is not None else "-", table[shape], reset[shape]))
        chk.count("envelope-shapes")
    chk.floor("envelope-shapes", 16)
    chk.sample({"shape": 10, "segments": table[10], "reload": reset[10], "levels": datasheet_envelope(10, 70)[28:70:6]})


def floats(v):
    out = []
    for f in v["fields"]:
        out.append(struct.unpack("<d", struct.pack("<Q", f["bits"]))[0])
    return out


def dac(chk, prog):
    for name in ("AY_DAC_TABLE", "YM_DAC_TABLE"):
        c = [p for p in prog.consts if p.startswith("aym::") and p.endswith("::" + name)]
        if len(c) != 1:
            chk.undecided_("anchor/%s" % name, "constant not found")
            continue
        t = floats(prog.consts[c[0]]["v"])
        fin = all(x == x and abs(x) != float("inf") and 0.0 <= x <= 1.0 for x in t)
        chk.check(len(t) == 32 and fin, "T-TABLE/%s/range" % name, "%s has %d entries / values outside [0,1]" % (name, len(t)))
        if name == "AY_DAC_TABLE":
            lv = [t[2 * v + 1] for v in range(16)]
            chk.check(all(lv[i] < lv[i + 1] for i in range(15)), "T-TABLE/%s/monotone" % name, "amplitude does not grow strictly with the 4-bit volume: %s" % lv)
            chk.check(all(t[2 * v] == t[2 * v + 1] for v in range(16)), "T-TABLE/%s/pairs" % name, "AY levels are not duplicated per 5-bit step pair")
        else:
            chk.check(all(t[i] <= t[i + 1] for i in range(31)) and all(t[i] < t[i + 1] for i in range(1, 31)), "T-TABLE/%s/monotone" % name,
                      "YM levels do not increase over the 32 steps")
        chk.check(t[0] == 0.0 and t[31] == 1.0, "T-TABLE/%s/ends" % name, "DAC table does not span 0..1")


def pan(chk, prog):
    MODE = prog.adt_path("aym", "AyMode")
    CHIP = prog.adt_path("aym", "SoundChip")
    NEW = [p for p in prog.fns if p.startswith("<aym::") and "AymBackend" in p and p.endswith("::new")]
    INH = prog.fn_path("aym", "AymPrecise::new")
    SP = prog.fn_path("aym", "AymPrecise::set_pan")
    if len(NEW) != 1:
        chk.undecided_("anchor/AymBackend::new", "%s" % NEW)
        return
    want = {"Mono": (0.5, 0.5, 0.5), "ABC": (0.0, 0.5, 1.0), "ACB": (0.0, 1.0, 0.5), "BAC": (0.5, 0.0, 1.0),
            "BCA": (1.0, 0.0, 0.5), "CAB": (0.5, 1.0, 0.0), "CBA": (1.0, 0.5, 0.0)}
    for mn, trip in want.items():
        w = Walker(prog)
        w.opaque_paths |= {INH, SP}
        w.effect_hook = lambda w_, st, path, a, d, wh: EffectResult(None, havoc=False)
        rs = w.run(prog.fn(NEW[0]), [Agg(("adt", CHIP), 0, ()), Agg(("adt", MODE), prog.variant_index(MODE, mn), ()), tm.sym("freq", 64), tm.sym("rate", 64)], genv={})
        key = "T-TABLE/AymBackend::new/pan/%s" % mn
        if len(rs) != 1 or rs[0].outcome != "return":
            chk.fail(key, "paths: %s" % [(r.outcome, r.detail) for r in rs][:2])
            continue
        sp = [e for e in rs[0].trace if e.path == SP]
        got = {}
        for e in sp:
            ch, pv, eqp = e.args[1], e.args[2], e.args[3]
            if isinstance(ch, T) and ch.is_const() and isinstance(pv, T) and pv.is_const():
                got[ch.val] = struct.unpack("<d", struct.pack("<Q", pv.val))[0]
        chk.check(tuple(got.get(i) for i in range(3)) == trip, key, "stereo mode %s pans A,B,C at %s; documented %s (0 = left, 1 = right)" % (mn, got, trip))
        chk.count("pan-modes")
    chk.floor("pan-modes", 7)
    # set_pan: left weight falls, right weight rises with pan
    w = Walker(prog)
    st = w.new_state()
    AY = prog.adt_path("aym", "AymPrecise")
    st.store[("h", "ay")] = w.materialise(SymObj("ay", ("adt", AY, ())), st)
    rs = w.run(prog.fn(SP), [Ref(("h", "ay"), (), True), K(0, 64), tm.sym("pan", 64), K(0, 1)], genv={}, state=st)
    ok = len(rs) == 1 and rs[0].outcome == "return"
    if ok:
        ch = rs[0].store[("h", "ay")].fields[prog.field_index(AY, "channels")].fields[0]
        TC = prog.adt_path("aym", "ToneChannel")
        l, r = ch.fields[prog.field_index(TC, "pan_left")], ch.fields[prog.field_index(TC, "pan_right")]
        ok = r is tm.sym("pan", 64) and isinstance(l, T) and l.op == "app:fSub" and l.args[1] is tm.sym("pan", 64)
    chk.check(ok, "T-TABLE/AymPrecise::set_pan", "linear pan is not (1 - pan, pan)")


def decode(chk, prog):
    AY = prog.adt_path("aym", "AymPrecise")
    WR = [p for p in prog.fns if p.startswith("<aym::") and "AymBackend" in p and p.endswith("::write_register")]
    if len(WR) != 1:
        chk.undecided_("anchor/write_register", "%s" % WR)
        return
    setters = dict((n, prog.fn_path("aym", "AymPrecise::" + n)) for n in ("set_tone", "set_noise", "set_mixer", "set_volume", "set_envelope", "set_envelope_shape"))
    rev = dict((v, k) for k, v in setters.items())
    v = tm.sym("value", 8)
    reg = lambda i: tm.sym("ay.registers[%d]" % i, 8)

    def R(i, addr):
        return v if i == addr else reg(i)
    for addr in range(16):
        w = Walker(prog)
        w.opaque_paths |= set(setters.values())
        w.effect_hook = lambda w_, st, path, a, d, wh: EffectResult(UNIT, havoc=False)
        st = w.new_state()
        st.store[("h", "ay")] = w.materialise(SymObj("ay", ("adt", AY, ())), st)
        rs = w.run(prog.fn(WR[0]), [Ref(("h", "ay"), (), True), K(addr, 8), v], genv={}, state=st)
        key = "T-BITS/AymPrecise::write_register/R%d" % addr
        if len(rs) != 1 or rs[0].outcome != "return":
            chk.fail(key, "register %d: %s" % (addr, [(r.outcome, r.detail) for r in rs][:2]))
            continue
        calls = [(rev[e.path], e.args[1:]) for e in rs[0].trace if e.path in rev]
        regs = rs[0].store[("h", "ay")].fields[prog.field_index(AY, "registers")]
        if addr >= 14:
            untouched = isinstance(regs, SymObj) or all((x is reg(i)) or isinstance(x, SymObj) for i, x in enumerate(regs.fields))
            chk.check(not calls and untouched, key, "address %d (>= 14) is not ignored: %s" % (addr, calls))
            continue
        stored = isinstance(regs, Agg) and regs.fields[addr] is v
        chk.check(stored, key + "/stored", "the written byte is not kept in the register file")

        def eq(a, b):
            return isinstance(a, T) and tm.equiv(a, b) is True
        ok = False
        if addr <= 5:
            chn = addr // 2
            want = tm.join16(tm.binop("and", R(2 * chn + 1, addr), K(0x0F, 8)), R(2 * chn, addr))
            ok = len(calls) == 1 and calls[0][0] == "set_tone" and calls[0][1][0].is_const() and calls[0][1][0].val == chn and eq(calls[0][1][1], want)
        elif addr == 6:
            ok = len(calls) == 1 and calls[0][0] == "set_noise" and eq(calls[0][1][0], tm.zext(tm.binop("and", v, K(0x1F, 8)), 16))
        elif addr in (7, 8, 9, 10):
            chans = (0, 1, 2) if addr == 7 else (addr - 8,)
            mix = [c for c in calls if c[0] == "set_mixer"]
            ok = len(mix) == len(chans)
            for c, chn in zip(mix, chans):
                r7, rv = R(7, addr), R(8 + chn, addr)
                ok = ok and c[1][0].is_const() and c[1][0].val == chn and \
                    eq(c[1][1], tm.cmp("eq", tm.binop("and", r7, K(1 << chn, 8)), K(0, 8))) and \
                    eq(c[1][2], tm.cmp("eq", tm.binop("and", r7, K(8 << chn, 8)), K(0, 8))) and \
                    eq(c[1][3], tm.cmp("ne", tm.binop("and", rv, K(0x10, 8)), K(0, 8)))
            if addr != 7:
                vol = [c for c in calls if c[0] == "set_volume"]
                ok = ok and len(vol) == 1 and vol[0][1][0].val == addr - 8 and eq(vol[0][1][1], tm.zext(tm.binop("and", v, K(0x0F, 8)), 64))
        elif addr in (11, 12):
            ok = len(calls) == 1 and calls[0][0] == "set_envelope" and eq(calls[0][1][0], tm.join16(R(12, addr), R(11, addr)))
        elif addr == 13:
            ok = len(calls) == 1 and calls[0][0] == "set_envelope_shape" and eq(calls[0][1][0], tm.zext(tm.binop("and", v, K(0x0F, 8)), 64))
        chk.check(ok, key, "register %d decodes to %s" % (addr, [(n, [tm.show(x) if isinstance(x, T) else x for x in a]) for n, a in calls]))
        chk.count("registers-decoded")
    chk.floor("registers-decoded", 14)


def clamps(chk, prog):
    AY = prog.adt_path("aym", "AymPrecise")
    TC = prog.adt_path("aym", "ToneChannel")

    def run_(name, args):
        w = Walker(prog)
        w.opaque_paths.add(prog.fn_path("aym", "AymPrecise::reset_segment"))
        w.effect_hook = lambda w_, st, path, a, d, wh: EffectResult(UNIT, havoc=False)
        st = w.new_state()
        st.store[("h", "ay")] = w.materialise(SymObj("ay", ("adt", AY, ())), st)
        rs = w.run(prog.fn(prog.fn_path("aym", "AymPrecise::" + name)), [Ref(("h", "ay"), (), True)] + args, genv={}, state=st)
        return rs[0].store[("h", "ay")] if len(rs) == 1 and rs[0].outcome == "return" else None
    p = tm.sym("p", 16)

    def clamp(x):
        return tm.ite(tm.cmp("eq", x, K(0, 16)), K(1, 16), x)
    a = run_("set_tone", [K(1, 64), p])
    v = a.fields[prog.field_index(AY, "channels")].fields[1].fields[prog.field_index(TC, "tone_period")] if a else None
    chk.check(isinstance(v, T) and tm.equiv(v, clamp(tm.binop("and", p, K(0xFFF, 16)))) is True, "T-BITS/AymPrecise::set_tone",
              "tone period is not the 12-bit value with 0 acting as 1: %s" % (v,))
    a = run_("set_noise", [p])
    v = a.fields[prog.field_index(AY, "noise_period")] if a else None
    chk.check(isinstance(v, T) and tm.equiv(v, clamp(tm.binop("and", p, K(0x1F, 16)))) is True, "T-BITS/AymPrecise::set_noise", "noise period is not 5 bits with 0 acting as 1: %s" % (v,))
    a = run_("set_envelope", [p])
    v = a.fields[prog.field_index(AY, "envelope_period")] if a else None
    chk.check(isinstance(v, T) and tm.equiv(v, clamp(p)) is True, "T-BITS/AymPrecise::set_envelope", "envelope period is not 16 bits with 0 acting as 1: %s" % (v,))
    s = tm.sym("s", 64)
    a = run_("set_envelope_shape", [s])
    ok = a is not None and tm.equiv(a.fields[prog.field_index(AY, "envelope_shape")], tm.binop("and", s, K(15, 64))) is True and \
        a.fields[prog.field_index(AY, "envelope_counter")].is_const() and a.fields[prog.field_index(AY, "envelope_segment")].is_const() and \
        a.fields[prog.field_index(AY, "envelope_segment")].val == 0
    chk.check(ok, "T-BITS/AymPrecise::set_envelope_shape", "writing R13 does not restart the envelope with the low nibble as shape")
    vol = tm.sym("vol", 64)
    a = run_("set_volume", [K(2, 64), vol])
    v = a.fields[prog.field_index(AY, "channels")].fields[2].fields[prog.field_index(TC, "volume")] if a else None
    chk.check(isinstance(v, T) and tm.equiv(v, tm.binop("and", vol, K(15, 64))) is True, "T-BITS/AymPrecise::set_volume", "volume is not 4 bits")
    t, n, e = tm.sym("t", 1), tm.sym("n", 1), tm.sym("e", 1)
    a = run_("set_mixer", [K(0, 64), t, n, e])
    ch = a.fields[prog.field_index(AY, "channels")].fields[0] if a else None
    ok = ch is not None and tm.equiv(ch.fields[prog.field_index(TC, "tone_off_bit")], tm.zext(tm.unop("not", t), 64)) is True and \
        tm.equiv(ch.fields[prog.field_index(TC, "noise_off_bit")], tm.zext(tm.unop("not", n), 64)) is True and ch.fields[prog.field_index(TC, "envelope_enabled")] is e
    chk.check(ok, "T-BITS/AymPrecise::set_mixer", "mixer bits are not stored as tone_off / noise_off / envelope flags")


def zxaychip(chk, prog):
    CH = prog.adt_path("rustzx_core", "ZXAyChip")
    WRs = [p for p in prog.fns if p.startswith("<aym::") and "AymBackend" in p and p.endswith("::write_register")]
    fi = lambda n: prog.field_index(CH, n)

    def run_(name, args):
        w = Walker(prog)
        w.opaque_paths |= set(WRs)
        w.effect_hook = lambda w_, st, path, a, d, wh: EffectResult(UNIT, havoc=False)
        st = w.new_state()
        chip = w.materialise(SymObj("chip", ("adt", CH, ())), st)
        st.store[("h", "chip")] = chip
        rs = w.run(prog.fn(prog.fn_path("rustzx_core", "ZXAyChip::" + name)), [Ref(("h", "chip"), (), name != "read")] + args, genv={}, state=st)
        return rs
    v = tm.sym("v", 8)
    rs = run_("select_reg", [v])
    ok = len(rs) == 1 and rs[0].outcome == "return" and tm.equiv(rs[0].store[("h", "chip")].fields[fi("current_reg")], tm.zext(tm.binop("and", v, K(15, 8)), 64)) is True
    chk.check(ok, "T-BITS/ZXAyChip::select_reg", "register select does not keep the low 4 bits (wrap modulo 16)")
    cur = tm.sym("chip.current_reg", 64)
    rs = [r for r in run_("read", []) if r.outcome == "return"]
    ok = len(rs) == 1 and isinstance(rs[0].ret, T)
    n = 0
    for j in range(16):
        if not ok:
            break
        got = tm.subst(rs[0].ret, {cur: K(j, 64)})
        ok = got is tm.sym("chip.regs[%d]" % j, 8)
        n += 1
    chk.check(ok, "T-BITS/ZXAyChip::read", "AY read-back is not regs[selected register] for all 16 selections")
    rs = [r for r in run_("write", [v]) if r.outcome == "return"]
    ok = len(rs) == 1
    if ok:
        r = rs[0]
        regs = r.store[("h", "chip")].fields[fi("regs")]
        fw = [e for e in r.trace if e.path in WRs]
        ok = isinstance(regs, Agg) and len(fw) == 1 and fw[0].args[2] is v and isinstance(fw[0].args[1], T) and \
            tm.equiv(fw[0].args[1], tm.trunc(cur, 8)) is True
        for j in range(16):
            if not ok:
                break
            for i in range(16):
                x = regs.fields[i]
                x = tm.subst(x, {cur: K(j, 64)}) if isinstance(x, T) else x
                ok = ok and (x is (v if i == j else tm.sym("chip.regs[%d]" % i, 8)))
            n += 1
    chk.check(ok, "T-PAIR/ZXAyChip::write", "AY data write does not store the byte and forward the same (register, byte) to the sound generator")
    chk.count("chip-paths", n)
    chk.floor("chip-paths", 32)
