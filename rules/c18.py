"""C18 — AY chip: envelope tables and automaton, DAC tables, pan table, register decode, port-level select/read/write."""
import struct

from . import corecommon as cc
from . import c04
from zx import term as tm
from zx.term import K, T
from zx.walk import Walker, Agg, Ref, EffectResult, UNIT, SymObj

LEVEL = "other"

EXPL = (
    "Decided: the 16x2 ENVELOPES function table and ENVELOPE_RESET_TO_MAX (evaluated statics) with the extracted summaries "
    "of slide_up / slide_down / hold_* / reset_segment compose to the data-sheet envelope of each of the 16 shape codes "
    "(level sequence over three periods generated from the CONT/ATT/ALT/HOLD bits); AY DAC levels strictly increase with the "
    "4-bit volume (index 2v+1), YM levels strictly increase over the 32 envelope steps, all finite and within [0,1]; the pan "
    "triple of each of the 7 stereo modes; write_register decode: R0/R1.. 12-bit tone periods (high register masked 0x0F), "
    "R6 5 bits, R7 bit i -> tone off, bit 3+i -> noise off, R8-10 bit 4 -> envelope, low 4 bits volume, R11/12 16-bit period, "
    "R13 low nibble + restart, addresses >= 14 ignored; period 0 acts as 1 for tone, noise and envelope (term equivalence "
    "over all inputs); the mixer index is envelope or 2*volume+1 gated by (tone|tone_off)&(noise|noise_off); ZXAyChip: "
    "select keeps the low 4 bits (wraps modulo 16), read returns regs[selected], write stores and forwards the same register "
    "and byte.  NOT decided: frequencies, envelope period in seconds, amplitudes after FIR/DC filtering, finiteness of the "
    "floating-point output (numeric)."
)


def run(chk):
    prog = cc.program("A")
    chk.rule("T-TABLE", "envelope tables/automaton, DAC tables, pan table")
    chk.rule("T-BITS", "register decode, period clamps, mixer index, port-level select/read/write")
    envelopes(chk, prog)
    dac(chk, prog)
    pan(chk, prog)
    decode(chk, prog)
    clamps(chk, prog)
    zxaychip(chk, prog)
    port_wrappers(chk, prog)
    chk.rule("T-TABLE/tick", "per-tick summaries of the tone / noise / envelope generators and of the mixer (DAC index tabulated over every channel input); tick rate f_clk/8 from the resampler's step and loop structure")
    generators(chk, prog)
    mixer(chk, prog)
    tick_rate(chk, prog)
    # the resampler's phase stays in [0,1): a necessary condition of 'every sample is finite and bounded'
    from . import floatinv
    chk.rule("T-INV/float", "interval analysis of AymPrecise::process: phase accumulator in [0,1) at every interpolation use and at return, for every step up to clock/(8000*64)")
    floatinv.phase_accumulator(chk, prog)
    return chk.finish(EXPL)


def port_wrappers(chk, prog):
    """The controller's three AY port leaves (reached from the decode chain C07 judges) forward to the chip
    unconditionally: whatever the sound settings or the machine state, a data write reaches ZXAyChip::write once with
    the byte written, a register select reaches select_reg once with the byte, a data read returns ZXAyChip::read."""
    names = cc.Names(prog)
    chk.rule("T-PAIR/ports", "ZXController::write_ay_port / select_ay_reg / read_ay_port forward to the chip exactly once on every path, with the byte unchanged")
    chip = dict((n, prog.fn_path("rustzx_core", "ZXAyChip::" + n)) for n in ("write", "select_reg", "read"))
    for wrapper, target, has_arg in (("write_ay_port", "write", True), ("select_ay_reg", "select_reg", True), ("read_ay_port", "read", False)):
        key = "T-PAIR/ZXController::%s" % wrapper
        try:
            fn = prog.fn(names.ctl(wrapper))
        except Exception as e:
            chk.undecided_(key + "/anchor", "%s" % e)
            continue
        for m in names.machine_variants():
            w = Walker(prog)
            w.opaque_paths |= set(chip.values())
            w.effect_hook = lambda w_, st, path, a, d, wh: EffectResult(tm.sym("CHIPREAD", 8), havoc=False) if path == chip["read"] else EffectResult(None, havoc=False)
            st = cc.controller_state(w, prog, names, m)
            v = tm.sym("byte", 8)
            rs = w.run(fn, [Ref(cc.CTL, (), True)] + ([v] if has_arg else []), genv=cc.GENV, state=st)
            if not rs or any(r.outcome != "return" for r in rs):
                chk.fail(key + "/paths", "%s: %s" % (wrapper, [(r.outcome, r.detail) for r in rs][:2]))
                continue
            for r in rs:
                calls = [e for e in r.trace if e.path in chip.values()]
                ok = len(calls) == 1 and calls[0].path == chip[target] and ((not has_arg) or calls[0].args[1] is v) and (has_arg or r.ret is tm.sym("CHIPREAD", 8))
                chk.check(ok, key + "/" + m, "%s does not forward to ZXAyChip::%s exactly once with the byte unchanged on the path %s: calls %s, result %s" % (
                    wrapper, target, [tm.show(c[1])[:60] for c in r.pc if c[0] in ("eq", "ne") and isinstance(c[1], T)][-2:],
                    [(e.path.split("::")[-1], e.args[1:]) for e in calls], r.ret))
                chk.count("port-wrapper-paths")
    chk.floor("port-wrapper-paths", 6)


def static(prog, name):
    c = [p for p in prog.statics if p.startswith("aym::") and p.endswith("::" + name)]
    if len(c) != 1:
        raise KeyError("anchor: static %s: %s" % (name, c))
    return prog.statics[c[0]]["v"]


def datasheet_envelope(shape, steps):
    """AY-3-8910 data sheet, 5-bit (32 step) variant: CONT ATT ALT HOLD"""
    cont, att, alt, hold = (shape >> 3) & 1, (shape >> 2) & 1, (shape >> 1) & 1, shape & 1
    out = []
    up = bool(att)
    level = 0 if up else 31
    holding = False
    for _ in range(steps):
        out.append(level)
        if holding:
            continue
        if up and level < 31:
            level += 1
            continue
        if not up and level > 0:
            level -= 1
            continue
        # end of a ramp
        if not cont:
            holding = True
            level = 0
            continue
        if hold:
            holding = True
            if alt:
                level = 0 if up else 31
            continue
        if alt:
            up = not up
            # the reversed ramp starts from the level just reached
            if up:
                level = 0
            else:
                level = 31
        else:
            level = 0 if up else 31
    return out


def envelopes(chk, prog):
    AY = prog.adt_path("aym", "AymPrecise")
    env = static(prog, "ENVELOPES")
    rst = static(prog, "ENVELOPE_RESET_TO_MAX")
    try:
        table = [[f["fnptr"].split("::")[-1] for f in row["fields"]] for row in env["fields"]]
        reset = [[b for b in bytes.fromhex(row["bytes"])] for row in rst["fields"]]
    except Exception as e:
        chk.undecided_("anchor/ENVELOPES", "cannot read the envelope tables: %s" % e)
        return
    chk.check(len(table) == 16 and all(len(r) == 2 for r in table) and len(reset) == 16, "T-TABLE/ENVELOPES/shape", "envelope tables are not 16x2")
    # summaries of the four segment functions
    fi = lambda n: prog.field_index(AY, n)
    E, SEG, SH = tm.sym("ay.envelope", 64), tm.sym("ay.envelope_segment", 64), tm.sym("ay.envelope_shape", 64)
    RS = prog.fn_path("aym", "AymPrecise::reset_segment")
    sem = {}
    for name in ("slide_up", "slide_down", "hold_top", "hold_bottom"):
        w = Walker(prog)
        w.opaque_paths.add(RS)
        w.effect_hook = lambda w_, st, path, a, d, wh: EffectResult(UNIT, havoc=False)
        st = w.new_state()
        st.store[("h", "ay")] = w.materialise(SymObj("ay", ("adt", AY, ())), st)
        rs = w.run(prog.fn(prog.fn_path("aym", "AymPrecise::" + name)), [Ref(("h", "ay"), (), True)], genv={}, state=st)
        key = "T-TABLE/AymPrecise::%s" % name
        if not rs or any(r.outcome != "return" for r in rs):
            chk.fail(key, "paths: %s" % [(r.outcome, r.detail) for r in rs][:2])
            continue
        if name.startswith("hold"):
            ok = len(rs) == 1 and not rs[0].trace and rs[0].store[("h", "ay")].fields[fi("envelope")] is E
            chk.check(ok, key, "%s changes the envelope level" % name)
            sem[name] = "hold"
            continue
        edge = 31 if name == "slide_up" else 0
        ok = True
        for r in rs:
            at_edge = c04.cc_decide(r, tm.cmp("eq", E, K(edge, 64)))
            a = r.store[("h", "ay")]
            if at_edge:
                ok = ok and len([e for e in r.trace if e.path == RS]) == 1 and tm.equiv(a.fields[fi("envelope_segment")], tm.binop("xor", SEG, K(1, 64))) is True
            elif at_edge is False:
                want = tm.binop("add", E, K(1 if name == "slide_up" else -1, 64))
                ok = ok and not r.trace and tm.equiv(a.fields[fi("envelope")], want) is True and a.fields[fi("envelope_segment")] is SEG
            else:
                ok = False
        chk.check(ok and len(rs) == 2, key, "%s is not 'step by one, at %d flip the segment and reload'" % (name, edge))
        sem[name] = "up" if name == "slide_up" else "down"
    # reset_segment: envelope = 31 if table[shape][segment] else 0
    ok = True
    for sh in range(16):
        for sg in range(2):
            w = Walker(prog)
            st = w.new_state()
            a = w.materialise(SymObj("ay", ("adt", AY, ())), st)
            a = a.with_field(fi("envelope_shape"), K(sh, 64)).with_field(fi("envelope_segment"), K(sg, 64))
            st.store[("h", "ay")] = a
            rs = w.run(prog.fn(RS), [Ref(("h", "ay"), (), True)], genv={}, state=st)
            v = rs[0].store[("h", "ay")].fields[fi("envelope")] if len(rs) == 1 and rs[0].outcome == "return" else None
            ok = ok and isinstance(v, T) and v.is_const() and v.val == (31 if reset[sh][sg] else 0)
    chk.check(ok, "T-TABLE/AymPrecise::reset_segment", "reset_segment does not load 31/0 according to ENVELOPE_RESET_TO_MAX")
    if len(sem) != 4:
        return
    # compose the summaries: level sequence of each shape over 3 periods
    for shape in range(16):
        seg = 0
        level = 31 if reset[shape][0] else 0
        got = []
        for _ in range(96):
            got.append(level)
            f = sem[table[shape][seg]]
            if f == "hold":
                continue
            if f == "up":
                if level == 31:
                    seg ^= 1
                    level = 31 if reset[shape][seg] else 0
                else:
                    level += 1
            else:
                if level == 0:
                    seg ^= 1
                    level = 31 if reset[shape][seg] else 0
                else:
                    level -= 1
        want = datasheet_envelope(shape, 96)
        first = next((i for i in range(96) if got[i] != want[i]), None)
        chk.check(first is None, "T-TABLE/ENVELOPES/shape-%d" % shape,
                  "envelope shape %d: step %s is level %s, data sheet %s (segments %s, reload %s)" % (
                      shape, first, got[first] if first is not None else "-", want[first] if first is not None else "-", table[shape], reset[shape]))
        chk.count("envelope-shapes")
    chk.floor("envelope-shapes", 16)
    chk.sample({"shape": 10, "segments": table[10], "reload": reset[10], "levels": datasheet_envelope(10, 70)[28:70:6]})


def floats(v):
    out = []
    for f in v["fields"]:
        out.append(struct.unpack("<d", struct.pack("<Q", f["bits"]))[0])
    return out


def dac(chk, prog):
    for name in ("AY_DAC_TABLE", "YM_DAC_TABLE"):
        c = [p for p in prog.consts if p.startswith("aym::") and p.endswith("::" + name)]
        if len(c) != 1:
            chk.undecided_("anchor/%s" % name, "constant not found")
            continue
        t = floats(prog.consts[c[0]]["v"])
        fin = all(x == x and abs(x) != float("inf") and 0.0 <= x <= 1.0 for x in t)
        chk.check(len(t) == 32 and fin, "T-TABLE/%s/range" % name, "%s has %d entries / values outside [0,1]" % (name, len(t)))
        if name == "AY_DAC_TABLE":
            lv = [t[2 * v + 1] for v in range(16)]
            chk.check(all(lv[i] < lv[i + 1] for i in range(15)), "T-TABLE/%s/monotone" % name, "amplitude does not grow strictly with the 4-bit volume: %s" % lv)
            chk.check(all(t[2 * v] == t[2 * v + 1] for v in range(16)), "T-TABLE/%s/pairs" % name, "AY levels are not duplicated per 5-bit step pair")
        else:
            chk.check(all(t[i] <= t[i + 1] for i in range(31)) and all(t[i] < t[i + 1] for i in range(1, 31)), "T-TABLE/%s/monotone" % name,
                      "YM levels do not increase over the 32 steps")
        chk.check(t[0] == 0.0 and t[31] == 1.0, "T-TABLE/%s/ends" % name, "DAC table does not span 0..1")


def pan(chk, prog):
    MODE = prog.adt_path("aym", "AyMode")
    CHIP = prog.adt_path("aym", "SoundChip")
    NEW = [p for p in prog.fns if p.startswith("<aym::") and "AymBackend" in p and p.endswith("::new")]
    INH = prog.fn_path("aym", "AymPrecise::new")
    SP = prog.fn_path("aym", "AymPrecise::set_pan")
    if len(NEW) != 1:
        chk.undecided_("anchor/AymBackend::new", "%s" % NEW)
        return
    want = {"Mono": (0.5, 0.5, 0.5), "ABC": (0.0, 0.5, 1.0), "ACB": (0.0, 1.0, 0.5), "BAC": (0.5, 0.0, 1.0),
            "BCA": (1.0, 0.0, 0.5), "CAB": (0.5, 1.0, 0.0), "CBA": (1.0, 0.5, 0.0)}
    for mn, trip in want.items():
        w = Walker(prog)
        w.opaque_paths |= {INH, SP}
        w.effect_hook = lambda w_, st, path, a, d, wh: EffectResult(None, havoc=False)
        rs = w.run(prog.fn(NEW[0]), [Agg(("adt", CHIP), 0, ()), Agg(("adt", MODE), prog.variant_index(MODE, mn), ()), tm.sym("freq", 64), tm.sym("rate", 64)], genv={})
        key = "T-TABLE/AymBackend::new/pan/%s" % mn
        if len(rs) != 1 or rs[0].outcome != "return":
            chk.fail(key, "paths: %s" % [(r.outcome, r.detail) for r in rs][:2])
            continue
        sp = [e for e in rs[0].trace if e.path == SP]
        got = {}
        for e in sp:
            ch, pv, eqp = e.args[1], e.args[2], e.args[3]
            if isinstance(ch, T) and ch.is_const() and isinstance(pv, T) and pv.is_const():
                got[ch.val] = struct.unpack("<d", struct.pack("<Q", pv.val))[0]
        chk.check(tuple(got.get(i) for i in range(3)) == trip, key, "stereo mode %s pans A,B,C at %s; documented %s (0 = left, 1 = right)" % (mn, got, trip))
        chk.count("pan-modes")
    chk.floor("pan-modes", 7)
    # set_pan: left weight falls, right weight rises with pan
    w = Walker(prog)
    st = w.new_state()
    AY = prog.adt_path("aym", "AymPrecise")
    st.store[("h", "ay")] = w.materialise(SymObj("ay", ("adt", AY, ())), st)
    rs = w.run(prog.fn(SP), [Ref(("h", "ay"), (), True), K(0, 64), tm.sym("pan", 64), K(0, 1)], genv={}, state=st)
    ok = len(rs) == 1 and rs[0].outcome == "return"
    if ok:
        ch = rs[0].store[("h", "ay")].fields[prog.field_index(AY, "channels")].fields[0]
        TC = prog.adt_path("aym", "ToneChannel")
        l, r = ch.fields[prog.field_index(TC, "pan_left")], ch.fields[prog.field_index(TC, "pan_right")]
        ok = r is tm.sym("pan", 64) and isinstance(l, T) and l.op == "app:fSub" and l.args[1] is tm.sym("pan", 64)
    chk.check(ok, "T-TABLE/AymPrecise::set_pan", "linear pan is not (1 - pan, pan)")


def decode(chk, prog):
    AY = prog.adt_path("aym", "AymPrecise")
    WR = [p for p in prog.fns if p.startswith("<aym::") and "AymBackend" in p and p.endswith("::write_register")]
    if len(WR) != 1:
        chk.undecided_("anchor/write_register", "%s" % WR)
        return
    setters = dict((n, prog.fn_path("aym", "AymPrecise::" + n)) for n in ("set_tone", "set_noise", "set_mixer", "set_volume", "set_envelope", "set_envelope_shape"))
    rev = dict((v, k) for k, v in setters.items())
    v = tm.sym("value", 8)
    reg = lambda i: tm.sym("ay.registers[%d]" % i, 8)

    def R(i, addr):
        return v if i == addr else reg(i)
    for addr in range(16):
        w = Walker(prog)
        w.opaque_paths |= set(setters.values())
        w.effect_hook = lambda w_, st, path, a, d, wh: EffectResult(UNIT, havoc=False)
        st = w.new_state()
        st.store[("h", "ay")] = w.materialise(SymObj("ay", ("adt", AY, ())), st)
        rs = w.run(prog.fn(WR[0]), [Ref(("h", "ay"), (), True), K(addr, 8), v], genv={}, state=st)
        key = "T-BITS/AymPrecise::write_register/R%d" % addr
        if len(rs) != 1 or rs[0].outcome != "return":
            chk.fail(key, "register %d: %s" % (addr, [(r.outcome, r.detail) for r in rs][:2]))
            continue
        calls = [(rev[e.path], e.args[1:]) for e in rs[0].trace if e.path in rev]
        regs = rs[0].store[("h", "ay")].fields[prog.field_index(AY, "registers")]
        if addr >= 14:
            untouched = isinstance(regs, SymObj) or all((x is reg(i)) or isinstance(x, SymObj) for i, x in enumerate(regs.fields))
            chk.check(not calls and untouched, key, "address %d (>= 14) is not ignored: %s" % (addr, calls))
            continue
        stored = isinstance(regs, Agg) and regs.fields[addr] is v
        chk.check(stored, key + "/stored", "the written byte is not kept in the register file")

        def eq(a, b):
            return isinstance(a, T) and tm.equiv(a, b) is True
        ok = False
        if addr <= 5:
            chn = addr // 2
            want = tm.join16(tm.binop("and", R(2 * chn + 1, addr), K(0x0F, 8)), R(2 * chn, addr))
            ok = len(calls) == 1 and calls[0][0] == "set_tone" and calls[0][1][0].is_const() and calls[0][1][0].val == chn and eq(calls[0][1][1], want)
        elif addr == 6:
            ok = len(calls) == 1 and calls[0][0] == "set_noise" and eq(calls[0][1][0], tm.zext(tm.binop("and", v, K(0x1F, 8)), 16))
        elif addr in (7, 8, 9, 10):
            chans = (0, 1, 2) if addr == 7 else (addr - 8,)
            mix = [c for c in calls if c[0] == "set_mixer"]
            ok = len(mix) == len(chans)
            for c, chn in zip(mix, chans):
                r7, rv = R(7, addr), R(8 + chn, addr)
                ok = ok and c[1][0].is_const() and c[1][0].val == chn and \
                    eq(c[1][1], tm.cmp("eq", tm.binop("and", r7, K(1 << chn, 8)), K(0, 8))) and \
                    eq(c[1][2], tm.cmp("eq", tm.binop("and", r7, K(8 << chn, 8)), K(0, 8))) and \
                    eq(c[1][3], tm.cmp("ne", tm.binop("and", rv, K(0x10, 8)), K(0, 8)))
            if addr != 7:
                vol = [c for c in calls if c[0] == "set_volume"]
                ok = ok and len(vol) == 1 and vol[0][1][0].val == addr - 8 and eq(vol[0][1][1], tm.zext(tm.binop("and", v, K(0x0F, 8)), 64))
        elif addr in (11, 12):
            ok = len(calls) == 1 and calls[0][0] == "set_envelope" and eq(calls[0][1][0], tm.join16(R(12, addr), R(11, addr)))
        elif addr == 13:
            ok = len(calls) == 1 and calls[0][0] == "set_envelope_shape" and eq(calls[0][1][0], tm.zext(tm.binop("and", v, K(0x0F, 8)), 64))
        chk.check(ok, key, "register %d decodes to %s" % (addr, [(n, [tm.show(x) if isinstance(x, T) else x for x in a]) for n, a in calls]))
        chk.count("registers-decoded")
    chk.floor("registers-decoded", 14)


def clamps(chk, prog):
    AY = prog.adt_path("aym", "AymPrecise")
    TC = prog.adt_path("aym", "ToneChannel")

    def run_(name, args):
        w = Walker(prog)
        w.opaque_paths.add(prog.fn_path("aym", "AymPrecise::reset_segment"))
        w.effect_hook = lambda w_, st, path, a, d, wh: EffectResult(UNIT, havoc=False)
        st = w.new_state()
        st.store[("h", "ay")] = w.materialise(SymObj("ay", ("adt", AY, ())), st)
        rs = w.run(prog.fn(prog.fn_path("aym", "AymPrecise::" + name)), [Ref(("h", "ay"), (), True)] + args, genv={}, state=st)
        return rs[0].store[("h", "ay")] if len(rs) == 1 and rs[0].outcome == "return" else None
    p = tm.sym("p", 16)

    def clamp(x):
        return tm.ite(tm.cmp("eq", x, K(0, 16)), K(1, 16), x)
    a = run_("set_tone", [K(1, 64), p])
    v = a.fields[prog.field_index(AY, "channels")].fields[1].fields[prog.field_index(TC, "tone_period")] if a else None
    chk.check(isinstance(v, T) and tm.equiv(v, clamp(tm.binop("and", p, K(0xFFF, 16)))) is True, "T-BITS/AymPrecise::set_tone",
              "tone period is not the 12-bit value with 0 acting as 1: %s" % (v,))
    a = run_("set_noise", [p])
    v = a.fields[prog.field_index(AY, "noise_period")] if a else None
    chk.check(isinstance(v, T) and tm.equiv(v, clamp(tm.binop("and", p, K(0x1F, 16)))) is True, "T-BITS/AymPrecise::set_noise", "noise period is not 5 bits with 0 acting as 1: %s" % (v,))
    a = run_("set_envelope", [p])
    v = a.fields[prog.field_index(AY, "envelope_period")] if a else None
    chk.check(isinstance(v, T) and tm.equiv(v, clamp(p)) is True, "T-BITS/AymPrecise::set_envelope", "envelope period is not 16 bits with 0 acting as 1: %s" % (v,))
    s = tm.sym("s", 64)
    a = run_("set_envelope_shape", [s])
    ok = a is not None and tm.equiv(a.fields[prog.field_index(AY, "envelope_shape")], tm.binop("and", s, K(15, 64))) is True and \
        a.fields[prog.field_index(AY, "envelope_counter")].is_const() and a.fields[prog.field_index(AY, "envelope_segment")].is_const() and \
        a.fields[prog.field_index(AY, "envelope_segment")].val == 0
    chk.check(ok, "T-BITS/AymPrecise::set_envelope_shape", "writing R13 does not restart the envelope with the low nibble as shape")
    vol = tm.sym("vol", 64)
    a = run_("set_volume", [K(2, 64), vol])
    v = a.fields[prog.field_index(AY, "channels")].fields[2].fields[prog.field_index(TC, "volume")] if a else None
    chk.check(isinstance(v, T) and tm.equiv(v, tm.binop("and", vol, K(15, 64))) is True, "T-BITS/AymPrecise::set_volume", "volume is not 4 bits")
    t, n, e = tm.sym("t", 1), tm.sym("n", 1), tm.sym("e", 1)
    a = run_("set_mixer", [K(0, 64), t, n, e])
    ch = a.fields[prog.field_index(AY, "channels")].fields[0] if a else None
    ok = ch is not None and tm.equiv(ch.fields[prog.field_index(TC, "tone_off_bit")], tm.zext(tm.unop("not", t), 64)) is True and \
        tm.equiv(ch.fields[prog.field_index(TC, "noise_off_bit")], tm.zext(tm.unop("not", n), 64)) is True and ch.fields[prog.field_index(TC, "envelope_enabled")] is e
    chk.check(ok, "T-BITS/AymPrecise::set_mixer", "mixer bits are not stored as tone_off / noise_off / envelope flags")


def zxaychip(chk, prog):
    CH = prog.adt_path("rustzx_core", "ZXAyChip")
    WRs = [p for p in prog.fns if p.startswith("<aym::") and "AymBackend" in p and p.endswith("::write_register")]
    fi = lambda n: prog.field_index(CH, n)

    def run_(name, args):
        w = Walker(prog)
        w.opaque_paths |= set(WRs)
        w.effect_hook = lambda w_, st, path, a, d, wh: EffectResult(UNIT, havoc=False)
        st = w.new_state()
        chip = w.materialise(SymObj("chip", ("adt", CH, ())), st)
        st.store[("h", "chip")] = chip
        rs = w.run(prog.fn(prog.fn_path("rustzx_core", "ZXAyChip::" + name)), [Ref(("h", "chip"), (), name != "read")] + args, genv={}, state=st)
        return rs
    v = tm.sym("v", 8)
    rs = run_("select_reg", [v])
    ok = len(rs) == 1 and rs[0].outcome == "return" and tm.equiv(rs[0].store[("h", "chip")].fields[fi("current_reg")], tm.zext(tm.binop("and", v, K(15, 8)), 64)) is True
    chk.check(ok, "T-BITS/ZXAyChip::select_reg", "register select does not keep the low 4 bits (wrap modulo 16)")
    cur = tm.sym("chip.current_reg", 64)
    rs = [r for r in run_("read", []) if r.outcome == "return"]
    ok = len(rs) == 1 and isinstance(rs[0].ret, T)
    n = 0
    for j in range(16):
        if not ok:
            break
        got = tm.subst(rs[0].ret, {cur: K(j, 64)})
        ok = got is tm.sym("chip.regs[%d]" % j, 8)
        n += 1
    chk.check(ok, "T-BITS/ZXAyChip::read", "AY read-back is not regs[selected register] for all 16 selections")
    rs = [r for r in run_("write", [v]) if r.outcome == "return"]
    ok = len(rs) == 1
    if ok:
        r = rs[0]
        regs = r.store[("h", "chip")].fields[fi("regs")]
        fw = [e for e in r.trace if e.path in WRs]
        ok = isinstance(regs, Agg) and len(fw) == 1 and fw[0].args[2] is v and isinstance(fw[0].args[1], T) and \
            tm.equiv(fw[0].args[1], tm.trunc(cur, 8)) is True
        for j in range(16):
            if not ok:
                break
            for i in range(16):
                x = regs.fields[i]
                x = tm.subst(x, {cur: K(j, 64)}) if isinstance(x, T) else x
                ok = ok and (x is (v if i == j else tm.sym("chip.regs[%d]" % i, 8)))
            n += 1
    chk.check(ok, "T-PAIR/ZXAyChip::write", "AY data write does not store the byte and forward the same (register, byte) to the sound generator")
    chk.count("chip-paths", n)
    chk.floor("chip-paths", 32)


# ------------------------------------------------------------------------------------------------------------------
# the per-tick generators (one call of update_mixer = one tick of f_clk / 8)
def _ay_walk(prog, name, args, opaque=(), hook=None, max_paths=4000):
    AY = prog.adt_path("aym", "AymPrecise")
    w = Walker(prog, max_paths=max_paths)
    for o in opaque:
        w.opaque_paths.add(o if o in prog.fns else prog.fn_path("aym", "AymPrecise::" + o))
    w.effect_hook = hook or (lambda w_, st, path, a, d, wh: EffectResult(None, havoc=False))
    st = w.new_state()
    st.store[("h", "ay")] = w.materialise(SymObj("ay", ("adt", AY, ())), st)
    rs = w.run(prog.fn(prog.fn_path("aym", "AymPrecise::" + name)), [Ref(("h", "ay"), (), True)] + args, genv={}, state=st)
    return w, rs


def _eq(a, b):
    return isinstance(a, T) and (a is b or tm.equiv(a, b) is True)


def tone_step(prog):
    """(function path, 'chip' | 'channel'): the per-tick step of a tone generator, found by role — the one function
    (constructors aside) that stores to ToneChannel.tone_counter — and how it is addressed: through the chip with a
    channel index, or as a method of the channel"""
    cg, fa = cc.scans(prog)
    TC = prog.adt_path("aym", "ToneChannel")
    AY = prog.adt_path("aym", "AymPrecise")
    ws = sorted(set(cc.strip_closure(p) for p in fa.writers(TC, "tone_counter") if p.split("::")[-1] not in ("new", "default")))
    if len(ws) != 1:
        raise KeyError("anchor: the tone generator step is not one function: tone_counter is written by %s" % ws)
    fn = prog.fn(ws[0])
    t0 = fn.T[fn.body["locals"][1]]
    inner = t0[2] if t0[0] in ("ref", "ptr") else t0
    kind = "channel" if inner[0] == "adt" and inner[1] == TC else "chip" if inner[0] == "adt" and inner[1] == AY else None
    if kind is None:
        raise KeyError("anchor: the tone generator step %s takes neither the chip nor a channel" % ws[0])
    return ws[0], kind


def _tone_index(prog, kind, a):
    """channel index of a call of the tone step"""
    if kind == "chip":
        return a[1].val if isinstance(a[1], T) and a[1].is_const() else None
    r = a[0]
    if isinstance(r, Ref) and r.proj and r.proj[-1][0] == "i":
        return r.proj[-1][1]
    return None


def generators(chk, prog):
    """T-TABLE per tick: a tone channel toggles every TP ticks, the noise register shifts every 2*NP ticks, the envelope
    steps every EP ticks (counters restart at 0, nothing else changes in between); with the tick rate f_clk/8 decided
    below this is the chip's f_clk/(16 TP), f_clk/(16 NP) and 8 EP/f_clk per envelope step (256 EP/f_clk per 32-step ramp)."""
    AY = prog.adt_path("aym", "AymPrecise")
    TC = prog.adt_path("aym", "ToneChannel")
    fa_, ft_ = (lambda n: prog.field_index(AY, n)), (lambda n: prog.field_index(TC, n))

    def fsym(adt, prefix, field):
        ty = prog.adt(adt)["variants"][0]["fields"][prog.field_index(adt, field)]["ty"]
        return tm.sym(prefix + field, ty[1] if ty[0] == "int" and ty[1] else 64)
    inc = lambda t: tm.binop("add", t, K(1, t.bits))
    zero = lambda t: K(0, t.bits)
    one = K(1, 64)
    # ---- tone
    for i in range(3):
        key = "T-TABLE/AymPrecise::update_tone/%d" % i
        TSTEP, tkind = tone_step(prog)
        if tkind == "chip":
            w, rs = _ay_walk(prog, TSTEP.split("AymPrecise::")[-1], [K(i, 64)])
        else:
            w = Walker(prog, max_paths=4000)
            w.effect_hook = lambda w_, st_, path, a_, d_, wh_: EffectResult(None, havoc=False)
            st_ = w.new_state()
            st_.store[("h", "ay")] = w.materialise(SymObj("ay", ("adt", AY, ())), st_)
            chs = w.materialise(st_.store[("h", "ay")].fields[fa_("channels")], st_) if isinstance(st_.store[("h", "ay")].fields[fa_("channels")], SymObj) else st_.store[("h", "ay")].fields[fa_("channels")]
            st_.store[("h", "ay")] = st_.store[("h", "ay")].with_field(fa_("channels"), chs)
            rs = w.run(prog.fn(TSTEP), [Ref(("h", "ay"), (("f", fa_("channels")), ("i", i)), True)], genv={}, state=st_)
        if len(rs) != 2 or any(r.outcome != "return" for r in rs):
            chk.fail(key + "/paths", "update_tone: %s" % [(r.outcome, r.detail) for r in rs][:3])
            continue
        P, C, Tn = (fsym(TC, "ay.channels[%d]." % i, n) for n in ("tone_period", "tone_counter", "tone"))
        one = K(1, Tn.bits)
        seen = set()
        for r in rs:
            hit = c04.cc_decide(r, tm.cmp("ule", P, inc(C)))
            if hit is None:
                chk.undecided_(key + "/classify", "the generator does not branch on counter + 1 >= period but on %s" % [tm.show(c[1]) for c in r.pc if isinstance(c[1], T)][:3])
                continue
            seen.add(hit)
            ch = r.store[("h", "ay")].fields[fa_("channels")].fields[i]
            c2, t2 = cc.leaf_term(ch.fields[ft_("tone_counter")]), cc.leaf_term(ch.fields[ft_("tone")])
            others = all(cc.leaf_term(ch.fields[k]) is tm.sym("ay.channels[%d].%s" % (i, f["name"]), cc.leaf_term(ch.fields[k]).bits)
                         for k, f in enumerate(prog.adt(TC)["variants"][0]["fields"])
                         if f["name"] not in ("tone_counter", "tone") and cc.leaf_term(ch.fields[k]) is not None)
            # the level is a bit (it starts at 0 and this function is its only writer): compared for the values 0 and 1
            def eq01(x, want):
                return isinstance(x, T) and all(_eq(tm.subst(x, {Tn: K(v, Tn.bits)}), tm.subst(want, {Tn: K(v, Tn.bits)})) for v in (0, 1))
            if hit:
                ok = _eq(c2, zero(C)) and eq01(t2, tm.binop("xor", Tn, one)) and eq01(r.ret, tm.binop("xor", Tn, one))
            else:
                ok = _eq(c2, inc(C)) and eq01(t2, Tn) and eq01(r.ret, Tn)
            chk.check(ok and others, key + ("/toggle" if hit else "/count"),
                      "tone channel %d, counter+1 %s period: counter -> %s, level -> %s, output %s; documented %s" % (
                          i, ">=" if hit else "<", c2, t2, r.ret, "restart at 0 and toggle" if hit else "count up, level kept"))
            chk.count("generator-rows")
        chk.check(seen == {True, False}, key + "/cases", "tone generator cases %s" % seen)
    cg_, fa_s = cc.scans(prog)
    wt = set(p_.split("::")[-1] for p_ in fa_s.writers(TC, "tone"))
    chk.check(wt <= {"update_tone", "default", "new"}, "T-WRITERS/ToneChannel.tone", "the tone level is written by %s (the generator rule treats it as a bit owned by update_tone)" % sorted(wt))
    # ---- noise
    key = "T-TABLE/AymPrecise::update_noise"
    w, rs = _ay_walk(prog, "update_noise", [])
    NP, NC, N = (fsym(AY, "ay.", n) for n in ("noise_period", "noise_counter", "noise"))
    one = K(1, N.bits)
    if len(rs) != 2 or any(r.outcome != "return" for r in rs):
        chk.fail(key + "/paths", "update_noise: %s" % [(r.outcome, r.detail) for r in rs][:3])
    else:
        seen = set()
        for r in rs:
            hit = c04.cc_decide(r, tm.cmp("ule", tm.binop("shl", NP, K(1, NP.bits)), inc(NC)))
            if hit is None:
                hit = c04.cc_decide(r, tm.cmp("ule", tm.binop("mul", NP, K(2, NP.bits)), inc(NC)))
            if hit is None:
                chk.undecided_(key + "/classify", "the noise generator does not branch on counter + 1 >= 2 * period but on %s" % [tm.show(c[1]) for c in r.pc if isinstance(c[1], T)][:3])
                continue
            seen.add(hit)
            a = r.store[("h", "ay")]
            c2, n2 = cc.leaf_term(a.fields[fa_("noise_counter")]), cc.leaf_term(a.fields[fa_("noise")])
            if hit:
                # a shift register: bits 15..0 of the new value are bits 16..1 of the old one, the new value depends on
                # nothing but the old one, and the output is its bit 0
                low = lambda t: tm.binop("and", t, K(0xFFFF, t.bits))
                ok = _eq(c2, zero(NC)) and isinstance(n2, T) and tm.syms(n2) <= {"ay.noise"} and \
                    tm.equiv(low(n2), low(tm.binop("lshr", N, one))) is True and _eq(r.ret, tm.binop("and", n2, one))
            else:
                ok = _eq(c2, inc(NC)) and _eq(n2, N) and _eq(r.ret, tm.binop("and", N, one))
            chk.check(ok, key + ("/shift" if hit else "/count"),
                      "noise generator, counter+1 %s 2*period: counter -> %s, register -> %s, output %s" % (">=" if hit else "<", c2, n2, r.ret))
            chk.count("generator-rows")
        chk.check(seen == {True, False}, key + "/cases", "noise generator cases %s" % seen)
    # ---- envelope counter
    key = "T-TABLE/AymPrecise::update_envelope"
    w, rs = _ay_walk(prog, "update_envelope", [])
    EP, EC, E, SEG = (fsym(AY, "ay.", n) for n in ("envelope_period", "envelope_counter", "envelope", "envelope_segment"))
    if not rs or any(r.outcome != "return" for r in rs):
        chk.fail(key + "/paths", "update_envelope: %s" % [(r.outcome, r.detail) for r in rs if r.outcome != "return"][:3])
    else:
        seen = set()
        for r in rs:
            hit = c04.cc_decide(r, tm.cmp("ule", EP, inc(EC)))
            if hit is None:
                chk.undecided_(key + "/classify", "the generator does not branch on counter + 1 >= period but on %s" % [tm.show(c[1]) for c in r.pc if isinstance(c[1], T)][:3])
                continue
            seen.add(hit)
            a = r.store[("h", "ay")]
            c2, e2, s2 = (cc.leaf_term(a.fields[fa_(n)]) for n in ("envelope_counter", "envelope", "envelope_segment"))
            if hit:
                ok = _eq(c2, zero(EC)) and _eq(r.ret, e2)
            else:
                ok = _eq(c2, inc(EC)) and _eq(e2, E) and _eq(s2, SEG) and _eq(r.ret, E)
            chk.check(ok, key + ("/step" if hit else "/count"),
                      "envelope generator, counter+1 %s period: counter -> %s, level %s -> %s, output %s" % (">=" if hit else "<", c2, E, e2, r.ret))
            chk.count("generator-rows")
        chk.check(seen == {True, False}, key + "/cases", "envelope generator cases %s" % seen)
    chk.floor("generator-rows", 10)


def mixer(chk, prog):
    """T-TABLE: one tick of update_mixer advances each generator exactly once and adds, per channel and side,
    dac[((tone | tone_off) & (noise | noise_off)) * (envelope if envelope mode else 2*volume + 1)] * pan — tabulated for
    every value of the channel's bits, volume 0..15 and envelope 0..31 (16384 rows per channel and side)."""
    import numpy as np
    AY = prog.adt_path("aym", "AymPrecise")
    TSTEP, tkind = tone_step(prog)
    gens = dict((prog.fn_path("aym", "AymPrecise::" + o), o) for o in ("update_noise", "update_envelope"))
    gens[TSTEP] = "update_tone"

    def hook(w_, st, path, a, d, wh):
        if path in gens:
            n = gens[path]
            if n == "update_tone":
                ix = _tone_index(prog, tkind, a)
                return EffectResult(tm.sym("tone?" if ix is None else "tone%d" % ix, 64), havoc=False)
            return EffectResult(tm.sym(n[7:], 64), havoc=False)
        return None
    w, rs = _ay_walk(prog, "update_mixer", [], opaque=("update_noise", "update_envelope", TSTEP), hook=hook)
    key = "T-TABLE/AymPrecise::update_mixer"
    good = [r for r in rs if r.outcome == "return"]
    other = [r for r in rs if r.outcome not in ("return", "panic")]
    if not good or other:
        chk.fail(key + "/paths", "update_mixer: %s" % [(r.outcome, r.detail) for r in (other or rs)][:3])
        return
    # every generator advanced exactly once per tick (tone: once per channel)
    for r in good:
        calls = sorted(gens[e.path] + (str(_tone_index(prog, tkind, e.args)) if gens[e.path] == "update_tone" and _tone_index(prog, tkind, e.args) is not None else "")
                       for e in r.trace if e.path in gens)
        chk.check(calls == ["update_envelope", "update_noise", "update_tone0", "update_tone1", "update_tone2"], key + "/advance",
                  "one tick advances the generators %s; documented each exactly once" % calls)
    rows = 1 << 14
    idx = np.arange(rows, dtype=np.uint64)
    bits = lambda sh, n: (idx >> np.uint64(sh)) & np.uint64((1 << n) - 1)
    for i in range(3):
        env = {}
        for j in range(3):
            pre = "ay.channels[%d]." % j
            mine = (j == i)
            env["tone%d" % j] = bits(0, 1) if mine else np.uint64(1)
            env[pre + "tone_off_bit"] = bits(1, 1) if mine else np.uint64(1)
            env[pre + "noise_off_bit"] = bits(2, 1) if mine else np.uint64(1)
            env[pre + "envelope_enabled"] = bits(3, 1) if mine else np.uint64(0)
            env[pre + "volume"] = bits(4, 4) if mine else np.uint64(15)
        env["noise"] = bits(8, 1)
        env["envelope"] = bits(9, 5)
        t_, toff, noff, en, vol = env["tone%d" % i], env["ay.channels[%d].tone_off_bit" % i], env["ay.channels[%d].noise_off_bit" % i], \
            env["ay.channels[%d].envelope_enabled" % i], env["ay.channels[%d].volume" % i]
        want = ((t_ | toff) & (env["noise"] | noff)) * np.where(en == 1, env["envelope"], vol * np.uint64(2) + np.uint64(1))
        cover = np.zeros(rows, dtype=np.int64)
        for side, pan in (("left", "pan_left"), ("right", "pan_right")):
            got = np.full(rows, -1, dtype=np.int64)
            for r in good:
                m = cc.path_mask(r, env, rows)
                if not m.any():
                    continue
                if side == "left":
                    cover += m
                total = r.store[("h", "ay")].fields[prog.field_index(AY, side)]
                terms = []
                if not _sum_leaves(total, terms):
                    chk.undecided_(key + "/sum", "the %s output is not a sum of channel contributions: %s" % (side, tm.show(total)[:200]))
                    continue
                mine_ = [x for x in terms if x.op == "app:fMul" and any(a_.op == "sym" and a_.args[0] == "ay.channels[%d].%s" % (i, pan) for a_ in x.args)]
                chk.check(len(mine_) == 1 and len(terms) == 3, key + "/%d/%s/once" % (i, side),
                          "channel %d contributes %d terms of %d to the %s output; documented one per channel" % (i, len(mine_), len(terms), side))
                if len(mine_) != 1:
                    continue
                sel = [a_ for a_ in mine_[0].args if not (a_.op == "sym" and a_.args[0].endswith(pan))][0]
                v = _select_index(sel, env, rows)
                if v is None:
                    chk.undecided_(key + "/%d/%s/level" % (i, side), "amplitude of channel %d is not a DAC table entry: %s" % (i, tm.show(sel)[:200]))
                    continue
                got[m] = v[m]
            # rows on which the tick panics (level index >= 32) are those with a tone / noise bit outside {0,1}: none here
            bad = np.nonzero(got != want.astype(np.int64))[0]
            chk.check(len(bad) == 0, key + "/%d/%s/level" % (i, side),
                      "channel %d, %s: DAC index differs from (tone|tone_off)&(noise|noise_off) * (envelope or 2*volume+1) on %d of %d rows, e.g. row %s: %s instead of %s" % (
                          i, side, len(bad), rows, int(bad[0]) if len(bad) else "-", int(got[bad[0]]) if len(bad) else "-", int(want[bad[0]]) if len(bad) else "-"))
            chk.count("mixer-rows", rows)
        chk.check(bool((cover == 1).all()), key + "/%d/partition" % i, "the returning paths do not partition the channel's input space (a tick can panic for in-range inputs)")
    chk.floor("mixer-rows", 6 * rows)


def _sum_leaves(t, out):
    """leaves of a tree of float additions (a constant 0.0 start value is dropped)"""
    if not isinstance(t, T):
        return False
    if t.op == "app:fAdd":
        return all(_sum_leaves(a, out) for a in t.args)
    if t.is_const():
        return fconst(t) == 0.0
    out.append(t)
    return True


def fconst(t):
    if isinstance(t, T) and t.is_const():
        try:
            return struct.unpack("<d", struct.pack("<Q", t.val & 0xFFFFFFFFFFFFFFFF))[0]
        except struct.error:
            return None
    return None


def _select_index(t, env, rows):
    """row-wise index of the DAC table entry a selection chain picks"""
    import numpy as np
    if t.op == "sym":
        import re
        mo = re.search(r"dac_table\*?\[(\d+)\]$", t.args[0])
        return np.full(rows, int(mo.group(1)), dtype=np.int64) if mo else None
    if t.op == "ite":
        c = np.broadcast_to(np.asarray(tm.evaluate(t.args[0], env), dtype=np.uint64), (rows,))
        a, b = _select_index(t.args[1], env, rows), _select_index(t.args[2], env, rows)
        if a is None or b is None:
            return None
        return np.where(c != 0, a, b)
    return None


def tick_rate(chk, prog):
    """T-PAIR/T-TABLE: one sample = D interpolation points, each advancing the phase by step = f_clk / (rate * 8 * D),
    and one generator tick per unit of phase (every loop of the resampler that subtracts 1.0 from the phase calls
    update_mixer exactly once and vice versa; every other loop adds step exactly once per iteration).  With the phase
    invariant (T-INV) the generators are ticked f_clk / 8 times per second, whatever the sample rate."""
    from zx import scan
    AY = prog.adt_path("aym", "AymPrecise")
    fn = prog.fn(prog.fn_path("aym", "AymPrecise::process"))
    UM = prog.fn_path("aym", "AymPrecise::update_mixer")
    xi, si = prog.field_index(AY, "x"), prog.field_index(AY, "step")
    blocks = fn.body["blocks"]
    key = "T-PAIR/AymPrecise::process/tick"

    def is_field(op_or_place, idx):
        pl = op_or_place[1] if isinstance(op_or_place, list) else op_or_place
        return isinstance(pl, dict) and pl.get("l") == 1 and len(pl["p"]) == 2 and pl["p"][0][0] == "d" and pl["p"][1][0] == "f" and pl["p"][1][1] == idx

    def flt(op):
        try:
            return float(op[1]["v"]["float"]) if op[0] == "c" and isinstance(op[1].get("v"), dict) and "float" in op[1]["v"] else None
        except ValueError:
            return None
    # locals holding a copy of self.step
    step_copies = set()
    for b in blocks:
        for s in b["s"]:
            if s[0] == "=" and s[2][0] == "use" and s[2][1][0] in ("cp", "mv") and is_field(s[2][1], si) and not s[1]["p"]:
                step_copies.add(s[1]["l"])
    adds, subs, calls, other_x = [], [], [], []
    for i, b in enumerate(blocks):
        if b.get("cleanup"):
            continue
        for s in b["s"]:
            if s[0] == "=" and is_field(s[1], xi):
                rv = s[2]
                if rv[0] == "bin" and rv[1] == "Add" and is_field(rv[2], xi) and (is_field(rv[3], si) or (rv[3][0] in ("cp", "mv") and rv[3][1]["l"] in step_copies and not rv[3][1]["p"])):
                    adds.append(i)
                elif rv[0] == "bin" and rv[1] == "Sub" and is_field(rv[2], xi) and flt(rv[3]) == 1.0:
                    subs.append(i)
                else:
                    other_x.append(i)
        if b["t"]["k"] == "call" and UM in scan.call_targets(prog, fn, b["t"]):
            calls.append(i)
    if len(adds) != 1 or len(subs) != 1 or len(calls) != 1 or other_x:
        chk.fail(key + "/sites", "the resampler advances its phase at %s, reduces it at %s, ticks the generators at %s and writes it otherwise at %s; "
                 "documented one `x += step`, one `x -= 1.0` and one update_mixer call" % (adds, subs, calls, other_x))
        return
    succ = dict((i, [t for t in scan.successors(b["t"]) if not blocks[t].get("cleanup")]) for i, b in enumerate(blocks))

    def on_cycle(start, avoid):
        seen, work = set(), list(succ[start])
        while work:
            n = work.pop()
            if n == start:
                return True
            if n in seen or n in avoid:
                continue
            seen.add(n)
            work.extend(succ[n])
        return False

    def acyclic_without(avoid):
        return not any(on_cycle(i, avoid) for i in succ if i not in avoid)
    a, s_, c = adds[0], subs[0], calls[0]
    chk.check(on_cycle(s_, set()) and not on_cycle(s_, {c}) and not on_cycle(c, {s_}), key + "/tick-per-unit",
              "a generator tick (block %d) and a unit decrement of the phase (block %d) do not always come together" % (c, s_))
    chk.check(on_cycle(s_, {a}), key + "/inner-loop", "the unit decrement is not in a loop of its own (the phase would be reduced at most once per point)")
    chk.check(on_cycle(a, set()) and acyclic_without({a, s_}), key + "/step-per-point",
              "some loop of the resampler neither advances the phase by step nor consumes a unit of it")
    # number of interpolation points per sample: the constant range of the outer loop
    rng = []
    for b in blocks:
        for s in b["s"]:
            if s[0] == "=" and s[2][0] == "agg" and s[2][1].get("path", "").endswith("ops::range::Range") and len(s[2][2]) == 2:
                lo, hi = s[2][2]
                if lo[0] == "c" and hi[0] == "c" and "int" in lo[1].get("v", {}) and "int" in hi[1].get("v", {}):
                    rng.append((int(lo[1]["v"]["int"]), int(hi[1]["v"]["int"])))
    if len(rng) != 1:
        chk.undecided_(key + "/points", "the number of interpolation points per sample is not one constant range: %s" % rng)
        return
    D = rng[0][1] - rng[0][0]
    # step = clock / (rate * 8 * D)
    w = Walker(prog, max_paths=200)
    for o in ("set_envelope", "set_tone"):
        w.opaque_paths.add(prog.fn_path("aym", "AymPrecise::" + o))
    w.effect_hook = lambda w_, st, path, a_, d, wh: EffectResult(None, havoc=False)
    CLK, SR = tm.sym("CLK", 64), tm.sym("SR", 64)
    rs = w.run(prog.fn(prog.fn_path("aym", "AymPrecise::new")), [tm.sym("is_ym", 1), CLK, SR], genv={})
    ok = bool(rs) and all(r.outcome == "return" for r in rs)
    shown = None
    for r in rs if ok else []:
        obj = r.store[r.ret.obj] if isinstance(r.ret, Ref) else r.ret
        st_ = obj.fields[si] if isinstance(obj, Agg) else None
        shown = st_
        good = isinstance(st_, T) and st_.op == "app:fDiv" and st_.args[0] is CLK
        if good:
            factors = []
            good = _product_leaves(st_.args[1], factors)
            consts = [fconst(x) for x in factors if fconst(x) is not None]
            syms_ = [x for x in factors if fconst(x) is None]
            prod = 1.0
            for v in consts:
                prod *= v
            good = good and len(syms_) == 1 and syms_[0].op == "app:IntToFloat" and syms_[0].args[0] is SR and prod == 8.0 * D
        ok = ok and good
    chk.check(ok, "T-TABLE/AymPrecise::new/step", "the phase step is %s; documented clock / (sample rate * 8 * %d) (generators ticked at f_clk/8, %d points per sample)" % (
        tm.show(shown) if isinstance(shown, T) else shown, D, D))
    chk.sample({"points_per_sample": D, "tick_rate": "f_clk / 8", "phase_step": tm.show(shown) if isinstance(shown, T) else str(shown)})


def _product_leaves(t, out):
    if isinstance(t, T) and t.op == "app:fMul":
        return all(_product_leaves(a, out) for a in t.args)
    if isinstance(t, T):
        out.append(t)
        return True
    return False
