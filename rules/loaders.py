"""Shared exploration of the snapshot / screen / tape loaders (C13, C14, C15)."""
from . import corecommon as cc
from zx import cpu
from zx import term as tm
from zx.term import K, T
from zx.walk import Walker, Agg, Ref, EffectResult, UNIT, SymObj, SymArr, Opaque, Effect

H = ("param", "H", 0)
A = ("param", "A", 1)
EMU = ("h", "emu")

READ_EXACT = "rustzx_core::host::io::LoadableAsset::read_exact"
SEEK = "rustzx_core::host::io::SeekableAsset::seek"
WRITE_ALL = "rustzx_core::host::io::DataRecorder::write_all"


class LoaderNames(cc.Names):
    def __init__(self, prog):
        cc.Names.__init__(self, prog)
        self.EM = prog.adt_path("rustzx_core", "Emulator")
        self.SET = prog.adt_path("rustzx_core", "RustzxSettings")
        self.POP = prog.fn_path("rustzx_z80", "Z80::pop_pc_from_stack")
        self.PUSH = prog.fn_path("rustzx_z80", "Z80::push_pc_to_stack")
        self.REFRESH = self.ctl("refresh_memory_dependent_devices")
        self.SETBORDER = self.ctl("set_border_color")
        self.W7FFD = self.ctl("write_7ffd")
        self.REMAP = prog.fn_path("rustzx_core", "ZXMemory::remap")
        self.RAMMUT = prog.fn_path("rustzx_core", "ZXMemory::ram_page_data_mut")
        self.RAMDATA = prog.fn_path("rustzx_core", "ZXMemory::ram_page_data")
        self.GETPAGE = prog.fn_path("rustzx_core", "ZXMemory::get_page")
        self.SWITCH = prog.fn_path("rustzx_core", "ZXScreen::<FB>::switch_bank")
        self.WRITE_IO = self.bus("write_io")


def emulator_state(w, prog, ln, machine, paging_enabled=None, cpu_overrides=None):
    st = w.new_state()
    emu = w.materialise(SymObj("emu", ("adt", ln.EM, (H,))), st)
    s = w.materialise(SymObj("emu.settings", ("adt", ln.SET, ())), st)
    s = s.with_field(prog.field_index(ln.SET, "machine"), cc.machine_value(prog, ln, machine))
    emu = emu.with_field(prog.field_index(ln.EM, "settings"), s)
    ctl = w.materialise(SymObj("emu.controller", ("adt", ln.CTL, (H,))), st)
    ctl = ctl.with_field(prog.field_index(ln.CTL, "machine"), cc.machine_value(prog, ln, machine))
    if paging_enabled is not None:
        ctl = ctl.with_field(prog.field_index(ln.CTL, "paging_enabled"), paging_enabled)
    ctl = cc.apply_specs_caches(prog, w, st, ctl, ln.CTL, ln, machine)
    emu = emu.with_field(prog.field_index(ln.EM, "controller"), ctl)
    c = w.materialise(SymObj("emu.cpu", ("adt", cpu.Z80, ())), st)
    c = c.with_field(prog.field_index(cpu.Z80, "regs"), cpu.symbolic_regs(prog, w, st))
    for k, v in (cpu_overrides or {}).items():
        c = c.with_field(prog.field_index(cpu.Z80, k), v)
    emu = emu.with_field(prog.field_index(ln.EM, "cpu"), c)
    st.store[EMU] = emu
    return st


def file_sym(k, i):
    """byte i of the k-th read_exact of a load"""
    return tm.sym("file%d[%d]" % (k, i), 8)


def make_loader_walker(prog, ln, opaque=(), loop_bound=2, max_paths=6000, extra_hook=None):
    w = Walker(prog, loop_bound=loop_bound, max_paths=max_paths)
    w.opaque_paths |= {READ_EXACT, SEEK, WRITE_ALL} | set(opaque)
    roles = cpu.bind_roles(prog)
    ri = prog.field_index(cpu.Z80, "regs")
    ci = prog.field_index(ln.EM, "cpu")

    def hook(w_, st, path, args, dty, where):
        if extra_hook is not None:
            r = extra_hook(w_, st, path, args, dty, where)
            if r is not None:
                return r
        if path == READ_EXACT:
            k = sum(1 for e in st.trace if e.path == READ_EXACT)
            buf = args[1]
            if isinstance(buf, Ref):
                cur = w_.load(st, buf.obj, buf.proj)
                n = None
                if isinstance(cur, Agg) and cur.kind == ("array",):
                    n = len(cur.fields)
                elif buf.meta is not None and buf.meta.is_const():
                    n = buf.meta.val
                if n is not None and n <= 64:
                    w_.store_to(st, buf.obj, buf.proj, Agg(("array",), 0, [file_sym(k, i) for i in range(n)]))
                elif isinstance(cur, SymArr):
                    w_.store_to(st, buf.obj, buf.proj, SymArr("file%d" % k, cur.ety, cur.length))
                elif isinstance(cur, Opaque):
                    pass
                else:
                    w_.store_to(st, buf.obj, buf.proj, SymArr("file%d" % k, ("int", 8, False, False), buf.meta or tm.sym("file%d.len" % k, 64)))
            return EffectResult(None, havoc=False)
        if path == SEEK:
            return EffectResult(None, havoc=False)
        if path == ln.POP:
            # RET: PC := word at SP, SP += 2 (the bus cycles of the pop are judged by C03)
            emu = st.store[EMU]
            c = emu.fields[ci]
            regs = c.fields[ri]
            k = sum(1 for e in st.trace if e.path == ln.POP)
            sp = regs.fields[roles["SP"]]
            regs = regs.with_field(roles["PC"], tm.sym("POPPED%d" % k, 16)).with_field(roles["SP"], tm.binop("add", sp, K(2, 16)))
            st.store[EMU] = emu.with_field(ci, c.with_field(ri, regs))
            st.notes.append(("pop", sp))
            return EffectResult(UNIT, havoc=False)
        if path == ln.PUSH:
            emu = st.store[EMU]
            c = emu.fields[ci]
            regs = c.fields[ri]
            sp = regs.fields[roles["SP"]]
            st.notes.append(("push", sp, regs.fields[roles["PC"]]))
            regs = regs.with_field(roles["SP"], tm.binop("sub", sp, K(2, 16)))
            st.store[EMU] = emu.with_field(ci, c.with_field(ri, regs))
            return EffectResult(UNIT, havoc=False)
        return EffectResult(None, havoc=False)
    w.effect_hook = hook
    return w


def final_cpu(prog, ln, path):
    roles = cpu.bind_roles(prog)
    emu = path.store[EMU]
    c = emu.fields[prog.field_index(ln.EM, "cpu")]
    regs = c.fields[prog.field_index(cpu.Z80, "regs")]
    out = {}
    for role, idx in roles.items():
        if not role.startswith("_"):
            v = regs.fields[idx]
            out[role] = tm.subst(v, path.facts) if isinstance(v, T) and path.facts else v
    for f in ("halted", "skip_interrupt", "int_mode", "active_prefix"):
        out[f] = c.fields[prog.field_index(cpu.Z80, f)]
    return out


def final_ctl(prog, ln, path):
    emu = path.store[EMU]
    return emu.fields[prog.field_index(ln.EM, "controller")]


def run_loader(prog, ln, w, fnname, st, extra_args=None):
    fn = prog.fn(prog.fn_path("rustzx_core", fnname))
    args = [Ref(EMU, (), True)] + (extra_args if extra_args is not None else [Opaque("asset")])
    return w.run(fn, args, genv={"H": H, "A": A, "R": ("param", "R", 1)}, state=st)
