"""Shared helpers for rules over rustzx-core (controller queries)."""
import os
import sys

sys.path.insert(0, os.path.dirname(os.path.dirname(os.path.abspath(__file__))))
from zx import term as tm
from zx.term import K, T
from zx.facts import Program
from zx.walk import Walker, Agg, Ref, SymObj, Opaque, EffectResult
from zx import builtins  # noqa: F401
from zx.scan import CallGraph, FieldAccess

_prog = {}
_scan = {}


def program(tag="A"):
    tag = os.environ.get("VERIF_CONFIG", tag)     # thorough tier: second pass over the feature-less build (B)
    if tag not in _prog:
        _prog[tag] = Program(tag)
    return _prog[tag]


def scans(prog):
    if id(prog) not in _scan:
        _scan[id(prog)] = (CallGraph(prog), FieldAccess(prog))
    return _scan[id(prog)]


CTL = ("h", "ctl")


class Names(object):
    """anchors: crate-internal names resolved on every run (fail closed when missing)"""

    def __init__(self, prog):
        self.prog = prog
        self.CTL = prog.adt_path("rustzx_core", "ZXController")
        self.MACHINE = prog.adt_path("rustzx_core", "ZXMachine")
        self.MEMORY = prog.adt_path("rustzx_core", "ZXMemory")
        self.PAGE = prog.adt_path("rustzx_core", "Page")
        self.SPECS = prog.adt_path("rustzx_core", "ZXSpecs")

    def bus(self, name):
        """the controller's implementation of Z80Bus::name"""
        for im, item in self.prog.impl_candidates("rustzx_z80::bus::Z80Bus::" + name):
            if im["self_ty"][0] == "adt" and im["self_ty"][1] == self.CTL:
                return item
        raise KeyError("anchor: ZXController does not implement Z80Bus::%s" % name)

    def ctl(self, name):
        return self.prog.fn_path("rustzx_core", "ZXController::<H>::" + name)

    def machine_variants(self):
        return self.prog.variant_names(self.MACHINE)


def machine_value(prog, names, mname):
    return Agg(("adt", names.MACHINE), prog.variant_index(names.MACHINE, mname), ())


def controller_state(w, prog, names, mname, overrides=None):
    """symbolic controller with a constant machine model and frame_clocks = FC"""
    st = w.new_state()
    H = ("param", "H", 0)
    ctl = w.materialise(SymObj("ctl", ("adt", names.CTL, (H,))), st)
    fi = lambda n: prog.field_index(names.CTL, n)
    ctl = ctl.with_field(fi("machine"), machine_value(prog, names, mname))
    ctl = ctl.with_field(fi("frame_clocks"), tm.sym("FC", 64))
    for k, v in (overrides or {}).items():
        ctl = ctl.with_field(fi(k), v)
    ctl = apply_specs_caches(prog, w, st, ctl, names.CTL, names, mname)
    st.store[CTL] = ctl
    return st


GENV = {"H": ("param", "H", 0)}


def specs_of(prog, names, mname):
    """ZXSpecs of a machine as dict name -> int / list (constant propagation through the builder chain)"""
    w = Walker(prog)
    fn = prog.fn(prog.fn_path("rustzx_core", "ZXMachine::specs"))
    rs = w.run(fn, [machine_value(prog, names, mname)], genv={})
    if len(rs) != 1 or rs[0].outcome != "return" or not isinstance(rs[0].ret, Ref):
        raise KeyError("anchor: ZXMachine::specs does not fold to a constant for %s" % mname)
    spec = rs[0].store[rs[0].ret.obj]
    out = {}
    fields = prog.adt(names.SPECS)["variants"][0]["fields"]
    for f, v in zip(fields, spec.fields):
        if isinstance(v, T) and v.is_const():
            out[f["name"]] = v.val
        elif isinstance(v, Agg) and all(isinstance(x, T) and x.is_const() for x in v.fields):
            out[f["name"]] = [x.val for x in v.fields]
        else:
            out[f["name"]] = None
    return out


def path_mask(path, env, rows):
    """boolean numpy mask of the rows (assignments in env) on which this path's branch conditions hold"""
    import numpy as np
    m = np.ones(rows, dtype=bool)
    for c in path.pc:
        if c[0] == "eq":
            v = tm.evaluate(c[1], env)
            m &= (v == c[2])
        elif c[0] == "ne":
            v = tm.evaluate(c[1], env)
            for x in c[2]:
                m &= (v != x)
        elif c[0] == "index":
            v = tm.evaluate(c[1], env)
            m &= (v == c[2])
    return m


def strip_closure(path):
    """the function a closure / nested constant belongs to"""
    import re
    return re.sub(r"(::\{closure#\d+\}|::\{constant#\d+\})+$", "", path)


def api_entry_points(prog, names):
    """the functions through which the outside world drives the core: public methods of Emulator and the
    controller's implementation of the CPU bus"""
    out = set()
    EM = prog.adt_path("rustzx_core", "Emulator")
    for p, f in prog.fns.items():
        if not f.local or not f.assoc:
            continue
        st = f.assoc.get("self_ty")
        if not st or st[0] != "adt":
            continue
        if st[1] == EM and f.assoc.get("trait") is None and f.vis == "pub":
            out.add(p)
        if st[1] == names.CTL and f.assoc.get("trait") is not None and f.assoc["trait"]["path"].endswith("::Z80Bus"):
            out.add(p)
    return out


def entry_points_reaching(prog, cg, names, target):
    """API entry points (short names) from which `target` can be called, found by walking the resolved call graph
    upwards; a function without callers that is not an entry point is reported under its own name"""
    entries = api_entry_points(prog, names)
    seen, roots = set(), set()
    work = [target]
    while work:
        p0 = work.pop()
        p = strip_closure(p0)
        if p in seen:
            continue
        seen.add(p)
        if p in entries and p != target:
            roots.add(p.split("::")[-1])
            continue
        cs = [s.fn.path for s in cg.callers_of(p)] + ([s.fn.path for s in cg.callers_of(p0)] if p0 != p else [])
        cs = [c for c in cs if strip_closure(c) != p]
        if not cs and p != target:
            roots.add(p.split("::")[-1])
        work.extend(cs)
    return roots


def effective_writers(prog, cg, fa, names, adt, field, anchors, readers=False):
    """Who stores to adt.field, named at the level the property talks about: a direct writer whose (short) name is
    one of `anchors` counts as itself; any other function (an extracted private helper, a closure, a renamed private
    function) is replaced by its callers, upwards, until an anchor or an API entry point (public Emulator method /
    CPU-bus method) is reached.  Returns the set of short names where the ascent stopped."""
    entries = api_entry_points(prog, names)
    acc = fa.readers(adt, field) if readers else fa.writers(adt, field)
    out = set()
    seen = set()
    work = [strip_closure(p) for p in acc]
    while work:
        p = work.pop()
        if p in seen:
            continue
        seen.add(p)
        short = p.split("::")[-1]
        if short in anchors or p in entries:
            out.add(short)
            continue
        cs = [strip_closure(s_.fn.path) for s_ in cg.callers_of(p)]
        cs = [c for c in cs if c != p]
        if not cs:
            out.add(short)
            continue
        work.extend(cs)
    return out


# ---------------------------------------------------------------------------------------------------------------
# state roles: where inside the controller object a piece of state lives, found by what an API method changes
def leaf_term(v, bits=None):
    """term of a scalar leaf of a symbolic object (lazily materialised leaves are SymObj placeholders)"""
    from zx.walk import SymObj as _SO
    if isinstance(v, T):
        return v
    if isinstance(v, _SO) and isinstance(v.ty, tuple) and v.ty and v.ty[0] == "int":
        return tm.sym(v.name, v.ty[1] if v.ty[1] else 64)
    if isinstance(v, _SO) and isinstance(v.ty, tuple) and v.ty and v.ty[0] == "bool":
        return tm.sym(v.name, 1)
    return None


def tree_get(v, path):
    from zx.walk import Agg as _Agg
    for i in path:
        if not isinstance(v, _Agg) or i >= len(v.fields):
            return None
        v = v.fields[i]
    return v


def tree_diff(prog, a, b, path=(), out=None):
    """paths of the leaves in which object tree b differs from a (a may still be lazily symbolic where b is expanded)"""
    from zx.walk import Agg as _Agg, SymObj as _SO
    if out is None:
        out = []
    if a is b:
        return out
    if isinstance(a, _Agg) and isinstance(b, _Agg) and len(a.fields) == len(b.fields) and a.variant == b.variant:
        for i, (x, y) in enumerate(zip(a.fields, b.fields)):
            tree_diff(prog, x, y, path + (i,), out)
        return out
    if isinstance(a, _SO) and isinstance(b, _SO) and a.name == b.name:
        return out
    if isinstance(a, _SO) and isinstance(b, _Agg):
        # a is the not yet expanded symbolic value: its children are named after it
        kind = b.kind
        if kind and kind[0] == "array":
            for i, y in enumerate(b.fields):
                tree_diff(prog, _Named("%s[%d]" % (a.name, i)), y, path + (i,), out)
            return out
        if kind and kind[0] == "adt" and prog.adt(kind[1]) and len(prog.adt(kind[1])["variants"]) == 1:
            fs = prog.adt(kind[1])["variants"][0]["fields"]
            if len(fs) == len(b.fields):
                for i, y in enumerate(b.fields):
                    tree_diff(prog, _Named("%s.%s" % (a.name, fs[i]["name"])), y, path + (i,), out)
                return out
    if isinstance(a, _Named):
        if isinstance(b, _SO) and b.name == a.name:
            return out
        if isinstance(b, T) and b.op == "sym" and b.args[0] == a.name:
            return out
        if isinstance(b, _Agg):
            return tree_diff(prog, _SO(a.name, None), b, path, out) if False else _diff_named(prog, a, b, path, out)
    ta, tb = leaf_term(a), leaf_term(b)
    if ta is not None and ta is tb:
        return out
    out.append(path)
    return out


class _Named(object):
    """the unexpanded symbolic value called `name`"""
    def __init__(self, name):
        self.name = name


def _diff_named(prog, a, b, path, out):
    kind = b.kind
    if kind and kind[0] == "array":
        for i, y in enumerate(b.fields):
            tree_diff(prog, _Named("%s[%d]" % (a.name, i)), y, path + (i,), out)
        return out
    if kind and kind[0] == "adt" and prog.adt(kind[1]) and len(prog.adt(kind[1])["variants"]) == 1:
        fs = prog.adt(kind[1])["variants"][0]["fields"]
        if len(fs) == len(b.fields):
            for i, y in enumerate(b.fields):
                tree_diff(prog, _Named("%s.%s" % (a.name, fs[i]["name"])), y, path + (i,), out)
            return out
    out.append(path)
    return out


def tree_name(prog, root_name, adt_path, targs, path):
    """symbol name of the leaf at an index path (the naming scheme of lazily expanded symbolic objects)"""
    name = root_name
    ty = ("adt", adt_path, targs)
    for i in path:
        if ty[0] == "adt":
            f = prog.adt(ty[1])["variants"][0]["fields"][i]
            name += "." + f["name"]
            ty = f["ty"]
        elif ty[0] == "array":
            name += "[%d]" % i
            ty = ty[1]
        else:
            return None
    return name, ty


def field_chain(prog, adt_path, targs, path):
    """[(adt path, field name)] of the struct fields along an index path into an object of type adt (array indices end
    the chain)"""
    chain = []
    ty = ("adt", adt_path, targs)
    for i in path:
        if ty[0] != "adt":
            break
        a = prog.adt(ty[1])
        if not a or len(a["variants"]) != 1:
            break
        f = a["variants"][0]["fields"][i]
        chain.append((ty[1], f["name"]))
        ty = f["ty"]
    return chain


def keyboard_roles(prog, names):
    """Where the three key matrices and the CAPS SHIFT hold mask live inside the controller, found by role: the 8-byte
    array a key press through send_key / send_sinclair_key / send_compound_key changes, and the 32-bit word
    send_compound_key changes.  {role: (index path, symbol-name prefix, [(adt, field)...] chain)}; roles: main, sinclair,
    extended, mask.  Raises KeyError when a sender does not change exactly such a piece of state."""
    from zx.walk import Walker as _W, Ref as _Ref, Agg as _Agg
    H = (("param", "H", 0),)
    KEY = prog.adt_path("rustzx_core", "ZXKey")
    SK = prog.adt_path("rustzx_core", "SinclairKey")
    SJ = prog.adt_path("rustzx_core", "SinclairJoyNum")
    CK = prog.adt_path("rustzx_core", "CompoundKey")
    ev = lambda adt, name: _Agg(("adt", adt), prog.variant_index(adt, name), ())

    def changed(method, args):
        w = _W(prog)
        st = controller_state(w, prog, names, "Sinclair48K")
        init = st.store[CTL]
        rs = w.run(prog.fn(names.ctl(method)), [_Ref(CTL, (), True)] + args, genv=GENV, state=st)
        if not rs or any(r.outcome != "return" for r in rs):
            raise KeyError("anchor: %s does not return on every path" % method)
        out = set()
        for r in rs:
            out |= set(tree_diff(prog, init, r.store[CTL]))
        return out
    roles = {}

    def matrix(role, paths):
        arrs = set()
        for p in paths:
            nm = tree_name(prog, "ctl", names.CTL, H, p)
            if nm and nm[1] == ("int", 8, False, False) and len(p) >= 2:
                par = tree_name(prog, "ctl", names.CTL, H, p[:-1])
                if par and par[1][0] == "array" and par[1][2] == 8:
                    arrs.add(p[:-1])
        if len(arrs) != 1:
            raise KeyError("anchor: the %s key matrix is not a single [u8; 8] array of the controller state: %s" % (role, sorted(paths)))
        p = arrs.pop()
        roles[role] = (p, tree_name(prog, "ctl", names.CTL, H, p)[0], field_chain(prog, names.CTL, H, p))
    matrix("main", changed("send_key", [ev(KEY, "G"), K(1, 1)]))
    matrix("sinclair", changed("send_sinclair_key", [ev(SJ, prog.variant_names(SJ)[0]), ev(SK, "Fire"), K(1, 1)]))
    cp = changed("send_compound_key", [ev(CK, "Delete"), K(1, 1)])
    matrix("extended", cp)
    words = [p for p in cp if (tree_name(prog, "ctl", names.CTL, H, p) or (None, None))[1] == ("int", 32, False, False)]
    if len(words) != 1:
        raise KeyError("anchor: send_compound_key does not change exactly one 32-bit hold mask: %s" % sorted(cp))
    roles["mask"] = (words[0], tree_name(prog, "ctl", names.CTL, H, words[0])[0], field_chain(prog, names.CTL, H, words[0]))
    if len(set(v[0] for v in roles.values())) != 4:
        raise KeyError("anchor: the key matrices are not distinct pieces of state: %s" % roles)
    return roles


def api_mod_set(prog, cg, fa, api, cache={}):
    """{(adt, field): some function} for every field of a local type that a function reachable from the public method
    Emulator::<api> stores to, borrows mutably or replaces.  Raises KeyError when the method does not exist."""
    if "written" not in cache or cache.get("prog") is not prog:
        written = {}
        for (adt, field), sites in list(fa.stores.items()) + list(fa.mutrefs.items()):
            for s_ in sites:
                written.setdefault(strip_closure(s_.fn.path), set()).add((adt, field))
        cache["written"], cache["prog"] = written, prog
    root = prog.fn_path("rustzx_core", "Emulator::<H>::" + api)
    reach = set(strip_closure(p) for p in cg.reachable([root]) if p in prog.fns and prog.fns[p].local)
    out = {}
    for p in reach:
        for af in cache["written"].get(p, ()):
            a = prog.adt(af[0])
            if a and a.get("local"):
                out.setdefault(af, p)
    return out


def check_mod_set(chk, prog, cg, fa, api, allowed, key, what, ignore=lambda adt, field: False):
    try:
        mods = api_mod_set(prog, cg, fa, api)
    except KeyError:
        chk.undecided_(key + "/anchor", "Emulator::%s not found" % api)
        return False
    extra = dict((af, p) for af, p in mods.items() if af not in allowed and not ignore(*af))
    chk.check(not extra, key, "%s changes more than %s: %s" % (
        api, what, sorted("%s.%s (in %s)" % (a.split("::")[-1], f, p.split("::")[-1]) for (a, f), p in extra.items())))
    return True


# ---------------------------------------------------------------------------------------------------------------
# objects set up through their constructor: configuration (fields only the constructor writes: the machine model, values
# precomputed from it) keeps the value the constructor gives it for the chosen machine, every other field is symbolic
def configured_object(prog, w, st, adt, targs, ctor_suffix, ctor_args, root_name, genv, crate="rustzx_core", extra_opaque=()):
    """(object, set of configuration field names).  Falls back to KeyError when the constructor cannot be explored."""
    from zx.walk import Agg as _Agg, Ref as _Ref, SymObj as _SO, EffectResult as _ER
    cg, fa = scans(prog)
    ctor = prog.fn_path(crate, ctor_suffix)
    old_hook, old_opaque = w.effect_hook, set(w.opaque_paths)
    w.effect_hook = lambda w_, st_, path, a, d, wh: _ER(None, havoc=False)
    w.opaque_paths |= set(extra_opaque)
    try:
        rs = w.run(prog.fn(ctor), list(ctor_args), genv=genv, state=st)
    finally:
        w.effect_hook = old_hook
        w.opaque_paths = old_opaque
    rets = [r for r in rs if r.outcome == "return"]
    if len(rets) != 1 or len(rs) != 1:
        raise KeyError("anchor: constructor %s does not fold to one path for this configuration: %s" % (ctor_suffix, [(r.outcome, str(r.detail)[:80]) for r in rs][:3]))
    r = rets[0]
    obj = r.ret
    if isinstance(obj, _Ref):
        obj = r.store.get(obj.obj)
    if not isinstance(obj, _Agg):
        raise KeyError("anchor: constructor %s does not return an object" % ctor_suffix)
    # carry over what the constructor allocated / referenced
    for k, v in r.store.items():
        st.store.setdefault(k, v)
    sym = w.materialise(_SO(root_name, ("adt", adt, tuple(targs))), st)
    fields = prog.adt(adt)["variants"][0]["fields"]
    config = set()
    out = sym
    for i, f in enumerate(fields):
        ws = set(strip_closure(p) for p in fa.writers(adt, f["name"]))
        if ws <= {ctor}:
            out = out.with_field(i, obj.fields[i])
            config.add(f["name"])
    return out, config


def apply_specs_caches(prog, w, st, obj, adt, names, mname):
    """A field of type (&)ZXSpecs inside a device object is a cache of `machine.specs()` taken at construction.  It is
    given the specs of the chosen machine, after checking what justifies that: the field is written by the constructor
    only, and there it is the result of ZXMachine::specs applied to the same place the `machine` field is copied from.
    Anything else raises KeyError (the check then fails closed)."""
    from zx.walk import Ref as _Ref
    from zx import scan as _scan
    fields = prog.adt(adt)["variants"][0]["fields"]

    def is_specs(ty):
        return isinstance(ty, tuple) and ((ty[0] == "adt" and ty[1] == names.SPECS) or (ty[0] in ("ref", "ptr") and is_specs(ty[2])))
    caches = [(i, f) for i, f in enumerate(fields) if is_specs(f["ty"])]
    if not caches:
        return obj
    cg, fa = scans(prog)
    SPECS_FN = prog.fn_path("rustzx_core", "ZXMachine::specs")
    for i, f in caches:
        ws = set(strip_closure(p) for p in fa.writers(adt, f["name"]))
        # the functions that build a value of this type (struct literal)
        ctors = sorted(set(strip_closure(p) for p, g in prog.fns.items() if g.local and any(
            s_[0] == "=" and s_[2][0] == "agg" and s_[2][1].get("path") == adt for b in g.body["blocks"] for s_ in b["s"])))
        if len(ctors) != 1 or not ws <= set(ctors):
            raise KeyError("anchor: the cached machine constants %s.%s are written by %s / the type is built in %s, not by one constructor alone" % (
                adt.split("::")[-1], f["name"], sorted(ws), ctors))
        fn = prog.fn(ctors[0])
        ok = False
        mi = [k for k, g in enumerate(fields) if g["name"] == "machine"]
        for b in fn.body["blocks"]:
            for s_ in b["s"]:
                if s_[0] == "=" and s_[2][0] == "agg" and s_[2][1].get("path") == adt:
                    op = s_[2][2][i]
                    if op[0] not in ("cp", "mv") or op[1]["p"]:
                        continue
                    # the defining call of that local
                    for b2 in fn.body["blocks"]:
                        t = b2["t"]
                        if t["k"] == "call" and t.get("dest") and t["dest"]["l"] == op[1]["l"] and not t["dest"]["p"] and SPECS_FN in _scan.call_targets(prog, fn, t):
                            src = _source_place(fn.body, t["args"][0])
                            msrc = _source_place(fn.body, s_[2][2][mi[0]]) if mi else None
                            ok = src is not None and (msrc is None or src == msrc)
        if not ok:
            raise KeyError("anchor: the constructor does not fill %s.%s with the specs of the machine it stores" % (adt.split("::")[-1], f["name"]))
        rs = w.run(prog.fn(SPECS_FN), [machine_value(prog, names, mname)], genv={}, state=st)
        if len(rs) != 1 or rs[0].outcome != "return":
            raise KeyError("anchor: ZXMachine::specs does not fold to a constant for %s" % mname)
        r = rs[0]
        for k, v in r.store.items():
            st.store.setdefault(k, v)
        val = r.ret
        if f["ty"][0] == "adt" and isinstance(val, _Ref):
            val = r.store[val.obj]
        obj = obj.with_field(i, val)
    return obj


def _source_place(body, op):
    """the place an operand is a (chain of) plain copy of, as a hashable key"""
    for _ in range(6):
        if op[0] not in ("cp", "mv"):
            return None
        pl = op[1]
        if pl["p"]:
            return (pl["l"], json_key(pl["p"]))
        defs = [s_[2] for b in body["blocks"] for s_ in b["s"] if s_[0] == "=" and s_[1]["l"] == pl["l"] and not s_[1]["p"]]
        if len(defs) != 1 or defs[0][0] != "use":
            return (pl["l"], ())
        op = defs[0][1]
    return None


def json_key(x):
    import json as _json
    return _json.dumps(x, sort_keys=True)


# ---------------------------------------------------------------------------------------------------------------
# provided methods of the CPU bus: the CPU's bus traces (C01/C03) are extracted at the level of the Z80Bus *trait*;
# what they mean for the machine is what the controller's implementation of the REQUIRED methods does (C04-C07).
# That composition is valid only while the controller leaves the PROVIDED methods (read, write, read_word,
# write_word, wait_loop, ...) to the trait, or overrides them with the same sequence of required-method calls.
def provided_overrides(chk, prog, names):
    """T-SIB: every provided Z80Bus method the controller overrides performs, on each of its paths, exactly the
    sequence of bus-method calls (callee, arguments, and the value returned) of the trait's provided body."""
    from zx.walk import Walker as _W, Ref as _Ref, EffectResult as _ER
    chk.rule("T-SIB", "an override of a provided Z80Bus method by ZXController makes the same bus-method calls as the trait's provided body on every path")
    TR = "rustzx_z80::bus::Z80Bus::"
    ims = [im for im in prog.impls if im.get("trait") == "rustzx_z80::bus::Z80Bus" and im["self_ty"][0] == "adt" and im["self_ty"][1] == names.CTL]
    if len(ims) != 1:
        chk.undecided_("T-SIB/Z80Bus/impl", "ZXController's Z80Bus impl not found uniquely (%d)" % len(ims))
        return
    items = ims[0]["items"]
    provided = sorted(p for p in prog.fns if p.startswith(TR) and "::{" not in p[len(TR):])
    chk.count("bus-provided-methods", len(provided))
    chk.floor("bus-provided-methods", 6)
    overridden = [p for p in provided if p in items]
    H = ("param", "H", 0)
    self_ty = ims[0]["self_ty"]
    # bus cycles are observed at the REQUIRED methods (as the controller implements them); provided methods called on the
    # way are interpreted - the trait's body, or the controller's override where there is one - in both explorations
    busfns = set(i for t, i in items.items() if t not in provided) | set(TR + t[len(TR):] for t in items if t not in provided)

    def explore(path, target_trait_path, mname, clk_const=None):
        w = _W(prog)
        w.opaque_paths |= busfns

        def hook(w_, st, cp, a, d, wh):
            if cp in busfns:
                k = len([e for e in st.trace if e.path in busfns])
                fn_ = prog.fns.get(cp)
                ret = fn_.T[fn_.body["locals"][0]] if fn_ is not None else None
                if ret and ret[0] == "int":
                    return _ER(tm.sym("bus#%d" % k, ret[1]), havoc=False)
                if ret and ret[0] == "bool":
                    return _ER(tm.sym("bus#%d" % k, 1), havoc=False)
                return _ER(None, havoc=False)
            return None
        w.effect_hook = hook
        st = controller_state(w, prog, names, mname)
        fn = prog.fn(path)
        # argument symbols by declared type
        args = [_Ref(CTL, (), True)]
        for i in range(2, fn.body["argc"] + 1):
            ty = fn.T[fn.body["locals"][i]]
            bits = ty[1] if ty[0] == "int" else 1
            args.append(tm.sym("arg%d" % (i - 1), bits))
        if clk_const is not None:
            args[-1] = K(clk_const, args[-1].bits)     # a count of single T-states: explored for each value used (0..8)
        genv = dict(GENV)
        genv["Self"] = self_ty
        return w.run(fn, args, genv=genv, state=st)

    def norm(p):
        # a call reaches either the trait item or the controller's implementation of it: same bus cycle
        for t, i in items.items():
            if p == i:
                return t
        return p

    def trace_of(r):
        return [(norm(e.path), tuple(e.args[1:])) for e in r.trace if e.path in busfns]
    for tp in overridden:
        short = tp[len(TR):]
        for m in names.machine_variants():
            key = "T-SIB/ZXController::%s/%s" % (short, m)
            try:
                rd = explore(tp, tp, m)
                ro = explore(items[tp], tp, m)
                if len(rd) != 1 and short == "wait_loop":
                    # the provided body loops `clk` times: compared for every count the CPU core passes (T-BOUND: <= 8)
                    rd, ro = [], []
                    bad_n = None
                    for n in range(0, 9):
                        d1, o1 = explore(tp, tp, m, n), explore(items[tp], tp, m, n)
                        if len(d1) != 1 or d1[0].outcome != "return" or any(r.outcome != "return" for r in o1):
                            bad_n = n
                            break
                        want_n = trace_of(d1[0])
                        for r in o1:
                            chk.check(trace_of(r) == want_n or (len(trace_of(r)) == len(want_n) and all(
                                g[0] == w_[0] and all((x is y) or (isinstance(x, T) and isinstance(y, T) and tm.equiv(x, y) is True) for x, y in zip(g[1], w_[1]))
                                for g, w_ in zip(trace_of(r), want_n))), key,
                                "ZXController overrides wait_loop and for %d T-states performs %s where the trait's body performs %s (every internal T-state must be its own wait_no_mreq)" % (
                                    n, [(g[0].split("::")[-1], [tm.show(x) if isinstance(x, T) else str(x) for x in g[1]]) for g in trace_of(r)][:6],
                                    [(g[0].split("::")[-1], [tm.show(x) if isinstance(x, T) else str(x) for x in g[1]]) for g in want_n][:6]))
                            chk.count("bus-override-paths")
                    if bad_n is not None:
                        chk.undecided_(key, "wait_loop with %d T-states could not be compared" % bad_n)
                    continue
            except Exception as e:
                chk.undecided_(key, "could not explore: %s" % e)
                continue
            if len(rd) != 1 or rd[0].outcome != "return" or not ro or any(r.outcome != "return" for r in ro):
                chk.undecided_(key, "provided body has %d paths / override outcomes %s" % (len(rd), sorted(set(r.outcome for r in ro))))
                continue
            want = trace_of(rd[0])
            for r in ro:
                got = trace_of(r)
                same = len(got) == len(want) and all(g[0] == w_[0] and len(g[1]) == len(w_[1]) and all(
                    (x is y) or (isinstance(x, T) and isinstance(y, T) and tm.equiv(x, y) is True) for x, y in zip(g[1], w_[1])) for g, w_ in zip(got, want))
                retsame = (r.ret is rd[0].ret) or (isinstance(r.ret, T) and isinstance(rd[0].ret, T) and tm.equiv(r.ret, rd[0].ret) is True) or \
                    (not isinstance(r.ret, T) and not isinstance(rd[0].ret, T))
                chk.check(same and retsame, key,
                          "ZXController overrides the provided bus method %s and, on the path %s, performs %s where the trait's body performs %s: "
                          "the CPU's documented bus cycles no longer reach the machine as the required methods implement them" % (
                              short, [tm.show(c[1])[:60] for c in r.pc if c[0] in ("eq", "ne") and isinstance(c[1], T)][-2:],
                              [(g[0].split("::")[-1], [tm.show(x) if isinstance(x, T) else str(x) for x in g[1]]) for g in got],
                              [(g[0].split("::")[-1], [tm.show(x) if isinstance(x, T) else str(x) for x in g[1]]) for g in want]))
                chk.count("bus-override-paths")
    chk.sample({"provided_bus_methods": [p[len(TR):] for p in provided], "overridden_by_controller": [p[len(TR):] for p in overridden]})
