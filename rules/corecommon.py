"""Shared helpers for rules over rustzx-core (controller queries)."""
import os
import sys

sys.path.insert(0, os.path.dirname(os.path.dirname(os.path.abspath(__file__))))
from zx import term as tm
from zx.term import K, T
from zx.facts import Program
from zx.walk import Walker, Agg, Ref, SymObj, Opaque, EffectResult
from zx import builtins  # noqa: F401
from zx.scan import CallGraph, FieldAccess

_prog = {}
_scan = {}


def program(tag="A"):
    tag = os.environ.get("VERIF_CONFIG", tag)     # thorough tier: second pass over the feature-less build (B)
    if tag not in _prog:
        _prog[tag] = Program(tag)
    return _prog[tag]


def scans(prog):
    if id(prog) not in _scan:
        _scan[id(prog)] = (CallGraph(prog), FieldAccess(prog))
    return _scan[id(prog)]


CTL = ("h", "ctl")


class Names(object):
    """anchors: crate-internal names resolved on every run (fail closed when missing)"""

    def __init__(self, prog):
        self.prog = prog
        self.CTL = prog.adt_path("rustzx_core", "ZXController")
        self.MACHINE = prog.adt_path("rustzx_core", "ZXMachine")
        self.MEMORY = prog.adt_path("rustzx_core", "ZXMemory")
        self.PAGE = prog.adt_path("rustzx_core", "Page")
        self.SPECS = prog.adt_path("rustzx_core", "ZXSpecs")

    def bus(self, name):
        """the controller's implementation of Z80Bus::name"""
        for im, item in self.prog.impl_candidates("rustzx_z80::bus::Z80Bus::" + name):
            if im["self_ty"][0] == "adt" and im["self_ty"][1] == self.CTL:
                return item
        raise KeyError("anchor: ZXController does not implement Z80Bus::%s" % name)

    def ctl(self, name):
        return self.prog.fn_path("rustzx_core", "ZXController::<H>::" + name)

    def machine_variants(self):
        return self.prog.variant_names(self.MACHINE)


def machine_value(prog, names, mname):
    return Agg(("adt", names.MACHINE), prog.variant_index(names.MACHINE, mname), ())


def controller_state(w, prog, names, mname, overrides=None):
    """symbolic controller with a constant machine model and frame_clocks = FC"""
    st = w.new_state()
    H = ("param", "H", 0)
    ctl = w.materialise(SymObj("ctl", ("adt", names.CTL, (H,))), st)
    fi = lambda n: prog.field_index(names.CTL, n)
    ctl = ctl.with_field(fi("machine"), machine_value(prog, names, mname))
    ctl = ctl.with_field(fi("frame_clocks"), tm.sym("FC", 64))
    for k, v in (overrides or {}).items():
        ctl = ctl.with_field(fi(k), v)
    st.store[CTL] = ctl
    return st


GENV = {"H": ("param", "H", 0)}


def specs_of(prog, names, mname):
    """ZXSpecs of a machine as dict name -> int / list (constant propagation through the builder chain)"""
    w = Walker(prog)
    fn = prog.fn(prog.fn_path("rustzx_core", "ZXMachine::specs"))
    rs = w.run(fn, [machine_value(prog, names, mname)], genv={})
    if len(rs) != 1 or rs[0].outcome != "return" or not isinstance(rs[0].ret, Ref):
        raise KeyError("anchor: ZXMachine::specs does not fold to a constant for %s" % mname)
    spec = rs[0].store[rs[0].ret.obj]
    out = {}
    fields = prog.adt(names.SPECS)["variants"][0]["fields"]
    for f, v in zip(fields, spec.fields):
        if isinstance(v, T) and v.is_const():
            out[f["name"]] = v.val
        elif isinstance(v, Agg) and all(isinstance(x, T) and x.is_const() for x in v.fields):
            out[f["name"]] = [x.val for x in v.fields]
        else:
            out[f["name"]] = None
    return out


def path_mask(path, env, rows):
    """boolean numpy mask of the rows (assignments in env) on which this path's branch conditions hold"""
    import numpy as np
    m = np.ones(rows, dtype=bool)
    for c in path.pc:
        if c[0] == "eq":
            v = tm.evaluate(c[1], env)
            m &= (v == c[2])
        elif c[0] == "ne":
            v = tm.evaluate(c[1], env)
            for x in c[2]:
                m &= (v != x)
        elif c[0] == "index":
            v = tm.evaluate(c[1], env)
            m &= (v == c[2])
    return m


def strip_closure(path):
    """the function a closure / nested constant belongs to"""
    import re
    return re.sub(r"(::\{closure#\d+\}|::\{constant#\d+\})+$", "", path)


def api_entry_points(prog, names):
    """the functions through which the outside world drives the core: public methods of Emulator and the
    controller's implementation of the CPU bus"""
    out = set()
    EM = prog.adt_path("rustzx_core", "Emulator")
    for p, f in prog.fns.items():
        if not f.local or not f.assoc:
            continue
        st = f.assoc.get("self_ty")
        if not st or st[0] != "adt":
            continue
        if st[1] == EM and f.assoc.get("trait") is None and f.vis == "pub":
            out.add(p)
        if st[1] == names.CTL and f.assoc.get("trait") is not None and f.assoc["trait"]["path"].endswith("::Z80Bus"):
            out.add(p)
    return out


def entry_points_reaching(prog, cg, names, target):
    """API entry points (short names) from which `target` can be called, found by walking the resolved call graph
    upwards; a function without callers that is not an entry point is reported under its own name"""
    entries = api_entry_points(prog, names)
    seen, roots = set(), set()
    work = [target]
    while work:
        p0 = work.pop()
        p = strip_closure(p0)
        if p in seen:
            continue
        seen.add(p)
        if p in entries and p != target:
            roots.add(p.split("::")[-1])
            continue
        cs = [s.fn.path for s in cg.callers_of(p)] + ([s.fn.path for s in cg.callers_of(p0)] if p0 != p else [])
        cs = [c for c in cs if strip_closure(c) != p]
        if not cs and p != target:
            roots.add(p.split("::")[-1])
        work.extend(cs)
    return roots


def effective_writers(prog, cg, fa, names, adt, field, anchors, readers=False):
    """Who stores to adt.field, named at the level the property talks about: a direct writer whose (short) name is
    one of `anchors` counts as itself; any other function (an extracted private helper, a closure, a renamed private
    function) is replaced by its callers, upwards, until an anchor or an API entry point (public Emulator method /
    CPU-bus method) is reached.  Returns the set of short names where the ascent stopped."""
    entries = api_entry_points(prog, names)
    acc = fa.readers(adt, field) if readers else fa.writers(adt, field)
    out = set()
    seen = set()
    work = [strip_closure(p) for p in acc]
    while work:
        p = work.pop()
        if p in seen:
            continue
        seen.add(p)
        short = p.split("::")[-1]
        if short in anchors or p in entries:
            out.add(short)
            continue
        cs = [strip_closure(s_.fn.path) for s_ in cg.callers_of(p)]
        cs = [c for c in cs if c != p]
        if not cs:
            out.add(short)
            continue
        work.extend(cs)
    return out
