"""C05 — frame length, INT pulse, conservation of T-states."""
from . import corecommon as cc
from . import c04
from zx import term as tm
from zx.term import K, T
from zx.walk import Walker, Agg, Ref, EffectResult, UNIT

LEVEL = "other"

EXPL = (
    "Decided: frame length 69888/70908 and INT length 32 by constant propagation through the spec builders; the summary of "
    "int_active as a function of the frame clock tabulated against 'T mod frame < 32' over two frames; writers of the frame "
    "clock are exactly wait_internal (+= clk), new_frame (-= frame length) and the SZX loader; on every path of "
    "wait_internal the final clock is FC+clk or FC+clk-frame (the overrun is carried, never reset), new_frame runs exactly "
    "when FC+clk >= frame and the frame counter is incremented there and only there; the whole clk reaches the tape, the "
    "advanced clock reaches the screen; the per-call frame counter is read only by frames_count, which only emulate_frames "
    "calls.  With C04-D3/D5 (every bus method funnels its clocks into wait_internal) no T-state is lost.  NOT decided: "
    "'exactly one interrupt per frame' (depends on the running program)."
)

FRAME = {"Sinclair48K": 69888, "Sinclair128K": 70908}


def run(chk):
    prog = cc.program("A")
    names = cc.Names(prog)
    cg, fa = cc.scans(prog)
    chk.rule("T-TABLE", "clocks_frame / interrupt_length constants; int_active(T) == (T mod frame < 32)")
    chk.rule("T-WRITERS", "writers of frame_clocks / passed_frames are the frozen lists")
    chk.rule("T-PAIR", "wait_internal: FC' in {FC+clk, FC+clk-frame}; new_frame iff FC+clk >= frame; counter +1 there only")
    for m in names.machine_variants():
        s = cc.specs_of(prog, names, m)
        chk.check(s.get("clocks_frame") == FRAME.get(m), "T-TABLE/ZXSpecs/%s/clocks_frame" % m,
                  "%s frame is %r T-states, documented %r" % (m, s.get("clocks_frame"), FRAME.get(m)))
        chk.check(s.get("interrupt_length") == 32, "T-TABLE/ZXSpecs/%s/interrupt_length" % m,
                  "%s INT pulse is %r T-states, documented 32" % (m, s.get("interrupt_length")))
        inv = wait_internal(chk, prog, names, m) and step_ok(chk, prog, names, cg)
        int_active(chk, prog, names, m, inv)
    writers(chk, prog, names, cg, fa)
    chk.floor("wait-internal-paths", 6)
    # the one writer of the frame clock outside the bus methods is the SZX Z80R chunk: the value it stores is the file's
    # 32-bit clock (the chunk-arm rule of C14), otherwise "frames x length + offset" is off by what was dropped
    from . import c14
    from . import loaders as ld
    from zx.report import FilteredCheck
    chk.rule("T-TABLE (shared with C14)", "SZX Z80R: the frame clock restored is the 32-bit dwCyclesStart of the file")
    ln = ld.LoaderNames(prog)
    fc = FilteredCheck(chk, lambda k: k.endswith("/Z80R/cycles"), "c14")
    for m in names.machine_variants():
        c14.szx(fc, prog, ln, m)
    chk.check(fc.forwarded >= 2, "T-TABLE/szx::load/Z80R/cycles/judged", "the restored frame clock was judged on %d paths only" % fc.forwarded)
    return chk.finish(EXPL)


_STEP = {}


def step_ok(chk, prog, names, cg):
    """largest clk ever passed to wait_internal (T-BOUND over every call site) is at most one frame: together with
    T-PAIR (FC' = FC+clk or FC+clk-frame, the latter iff FC+clk >= frame) that makes 'frame clock < frame length' an
    invariant of every state reached by running the machine from reset."""
    if "v" not in _STEP:
        from . import c11
        ab = c11.make_argbound(prog, names, cg)
        S = ab.param(names.bus("wait_internal"), 1)
        _STEP["v"] = S
        chk.rule("T-BOUND", "largest clk passed to wait_internal over all call sites <= frame length (frame clock stays below the frame length)")
        chk.check(isinstance(S, int) and S <= min(FRAME.values()), "T-BOUND/ZXController::wait_internal/clk",
                  "a single wait of %s T-states can reach wait_internal: new_frame subtracts one frame only, so the frame clock "
                  "can stay at or above the frame length" % (S,))
        chk.count("step-call-sites", ab.sites)
        chk.sample({"largest_wait": S})
    S = _STEP["v"]
    return isinstance(S, int) and S <= min(FRAME.values())


def int_active(chk, prog, names, m, inv):
    """inv: the frame clock is below the frame length in every state reached by running the machine (T-PAIR + T-BOUND
    both discharged).  Then the INT line is compared over [0, frame) only - a form that drops the reduction modulo the
    frame length is the same function there; otherwise over two frames."""
    import numpy as np
    w = Walker(prog)
    st = cc.controller_state(w, prog, names, m)
    fn = prog.fn(names.bus("int_active"))
    rs = w.run(fn, [Ref(cc.CTL, (), False)], genv=cc.GENV, state=st)
    key = "T-TABLE/ZXController::int_active/%s" % m
    if not rs or any(r.outcome != "return" for r in rs):
        chk.fail(key, "int_active has non-returning paths")
        return
    n = 2 * FRAME[m] + 64
    t = np.arange(n, dtype=np.uint64)
    env = {"FC": t}
    got = np.zeros(n, dtype=np.int64)
    cover = np.zeros(n, dtype=np.int64)
    for r in rs:
        mk = cc.path_mask(r, env, n)
        cover += mk
        v = np.broadcast_to(np.asarray(tm.evaluate(r.ret, env), dtype=np.uint64), (n,))
        got[mk] = v[mk].astype(np.int64)
        for s in r.sites:
            c = np.broadcast_to(np.asarray(tm.evaluate(s["cond"], env), dtype=np.uint64), (n,))
            bad = mk & (c != s["expected"])
            if bad.any():
                chk.fail(key + "/panic", "int_active: %s at %s can fail, e.g. T=%d" % (s["kind"], s["loc"], int(t[bad][0])))
    chk.check(bool((cover == 1).all()), key + "/partition", "paths do not partition the clock domain")
    want = ((t.astype(np.int64) % FRAME[m]) < 32).astype(np.int64)
    diff = np.nonzero(got != want)[0]
    if inv:
        beyond = int((diff >= FRAME[m]).sum())
        diff = diff[diff < FRAME[m]]
        if beyond:
            print("NOTE: int_active(%s) differs from 'T mod frame < 32' at %d clocks >= frame length, which no run reaches "
                  "(frame clock < frame length is invariant: T-PAIR + T-BOUND); not compared" % (m, beyond))
    chk.check(len(diff) == 0, key, "INT line differs from 'T mod frame < 32' at %d clocks, e.g. T=%s" % (
        len(diff), int(diff[0]) if len(diff) else "-"))
    chk.count("int-rows", n)
    chk.sample({"machine": m, "int_active": tm.show(rs[0].ret)})


def wait_internal(chk, prog, names, m):
    cg, fa = cc.scans(prog)
    WI = names.bus("wait_internal")
    NF = names.ctl("new_frame")
    # sub-device calls are effects; new_frame itself is interpreted
    sub = set()
    for p in (WI, NF):
        for cp, s in cg.calls.get(p, ()):
            if cp in (NF, WI) or cp.endswith("ZXMachine::specs") or "::deref" in cp or cp.startswith("core::") \
                    or cp.startswith("<core::"):
                continue
            if cp in prog.fns and prog.fns[cp].local:
                sub.add(cp)
    w = Walker(prog)
    w.opaque_paths |= sub
    st = cc.controller_state(w, prog, names, m, overrides={"passed_frames": tm.sym("PF", 64)})
    clk = tm.sym("clk", 64)
    FC, PF = tm.sym("FC", 64), tm.sym("PF", 64)
    rs = w.run(prog.fn(WI), [Ref(cc.CTL, (), True), clk], genv=cc.GENV, state=st)
    key = "T-PAIR/ZXController::wait_internal/%s" % m
    if not rs or any(r.outcome != "return" for r in rs):
        chk.fail(key, "wait_internal has non-returning paths: %s" % [(r.outcome, r.detail) for r in rs if r.outcome != "return"][:2])
        return
    frame = K(FRAME[m], 64)
    total = tm.binop("add", FC, clk)
    fi = lambda n: prog.field_index(names.CTL, n)
    seen = set()
    for r in rs:
        chk.count("wait-internal-paths")
        ctl = r.store[cc.CTL]
        fc2 = ctl.fields[fi("frame_clocks")]
        pf2 = ctl.fields[fi("passed_frames")]
        over = c04.cc_decide(r, tm.cmp("ule", frame, total))
        called = [e.path.split("::")[-1] for e in r.trace]
        nf = [e for e in r.trace if e.path.endswith("::new_frame")]
        if over is None:
            chk.undecided_(key + "/classify", "path does not decide FC+clk >= frame: %s" % (r.pc,))
            continue
        seen.add(over)
        if over:
            chk.check(isinstance(fc2, T) and tm.equiv(fc2, tm.binop("sub", total, frame)) is True, key + "/carry",
                      "at a frame end the clock becomes %s; it must be FC+clk-frame (overrun carried)" % (fc2,))
            chk.check(isinstance(pf2, T) and tm.equiv(pf2, tm.binop("add", PF, K(1, 64))) is True, key + "/count",
                      "frame counter after a frame end is %s, expected +1" % (pf2,))
            chk.check(len(nf) >= 2, key + "/new-frame-devices",
                      "frame end does not start a new frame on the screen/border/mixer: %s" % called)
        else:
            chk.check(fc2 is total or (isinstance(fc2, T) and tm.equiv(fc2, total) is True), key + "/advance",
                      "clock after wait_internal is %s, expected FC+clk" % (fc2,))
            chk.check(pf2 is PF, key + "/count-stable", "frame counter changes without a frame end")
            chk.check(not nf, key + "/no-new-frame", "new_frame work without a frame end: %s" % called)
        # whole clk to the tape; advanced clock to the screen
        tp = [e for e in r.trace if e.path.endswith("::process_clocks") and "tape" in e.path.lower()]
        chk.check(len(tp) == 1 and tp[0].args[1] is clk, key + "/tape-gets-clk",
                  "tape.process_clocks is not called exactly once with the whole clk: %s" % [(e.path, e.args[1:]) for e in tp])
        sc = [e for e in r.trace if e.path.endswith("ZXScreen::<FB>::process_clocks") or (e.path.endswith("::process_clocks") and "screen" in e.path.lower())]
        chk.check(len(sc) == 1 and (sc[0].args[1] is total), key + "/screen-gets-clock",
                  "screen.process_clocks is not called with the advanced frame clock: %s" % [(e.path, e.args[1:]) for e in sc])
    chk.check(seen == {True, False}, key + "/cases", "frame-end / no-frame-end cases missing: %s" % seen)
    ok = seen == {True, False} and not any(key in v[0] for v in getattr(chk, 'violations', getattr(getattr(chk, '_c', None), 'violations', [])))
    chk.sample({"machine": m, "paths": len(rs), "opaque": sorted(x.split("::")[-2] + "::" + x.split("::")[-1] for x in sub)})
    return ok


def writers(chk, prog, names, cg, fa):
    wr = fa.writers(names.CTL, "frame_clocks")
    short = lambda p: p.split("::")[-1]
    allowed = {"wait_internal", "new_frame", "process_z80r_block"}
    # private helpers / closures / renamed private functions are attributed to their callers (corecommon)
    got = cc.effective_writers(prog, cg, fa, names, names.CTL, "frame_clocks", allowed)
    chk.check(got <= allowed and {"wait_internal"} <= got, "T-WRITERS/ZXController.frame_clocks",
              "functions storing to frame_clocks: %s; allowed %s" % (sorted(got), sorted(allowed)),
              {"sites": [repr(s) for v in wr.values() for s in v]})
    chk.count("frame-clock-writers", len(set(short(p) for p in wr)))
    got = cc.effective_writers(prog, cg, fa, names, names.CTL, "passed_frames", {"wait_internal", "reset_frame_counter"})
    chk.check(got == {"wait_internal", "reset_frame_counter"}, "T-WRITERS/ZXController.passed_frames",
              "functions storing to passed_frames: %s" % sorted(got))
    got = cc.effective_writers(prog, cg, fa, names, names.CTL, "passed_frames", {"wait_internal", "frames_count", "reset_frame_counter"}, readers=True) - {"wait_internal", "reset_frame_counter"}
    chk.check(got == {"frames_count"}, "T-WRITERS/ZXController.passed_frames/readers",
              "passed_frames is read by %s (only frames_count may)" % sorted(got))
    callers = set(short(s.fn.path) for s in cg.callers_of(names.ctl("frames_count")))
    chk.check(callers == {"emulate_frames"}, "T-WRITERS/ZXController::frames_count/callers",
              "frames_count is called from %s (only emulate_frames may)" % sorted(callers))
    callers = set(short(s.fn.path) for s in cg.callers_of(names.ctl("new_frame")))
    chk.check(callers == {"wait_internal"}, "T-WRITERS/ZXController::new_frame/callers",
              "new_frame is called from %s (only wait_internal may)" % sorted(callers))
    chk.floor("frame-clock-writers", 2)
