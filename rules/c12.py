"""C12 — deck commands: algebraic laws over the summaries of stop / play / rewind / end of tape."""
from . import corecommon as cc
from . import c04
from .tapecommon import TapeNames, tap_state, describe_state, TAPOBJ, A
from zx import term as tm
from zx.term import K, T
from zx.walk import Walker, Agg, Ref, EffectResult, UNIT, SymObj

LEVEL = "other"

EXPL = (
    "Decided (T-LAW, all 8x8 combinations of current and saved pulse state with symbolic payloads, all other fields "
    "symbolic): stop;stop == stop; play after stop restores exactly the pulse state that was interrupted and touches no "
    "position field, level or delay; play;play == play; stop and play store only to the two state fields (mod-ref); a "
    "stopped deck's process_clocks is inert (C11); running off the end leaves (Stop, nothing saved) with the position "
    "rewound; rewind of a stopped deck forgets the saved pulse state so that the next play starts with Play (fresh "
    "pilot) and always seeks the asset to 0 and clears the block window.  The Emulator API forwards play/stop/rewind "
    "unchanged.  NOT decided: that the concatenated waveform decodes to the tape's blocks (C11 + data)."
)

POS_FIELDS = ("buffer_offset", "block_bytes_read", "current_block_size", "tape_ended", "curr_bit", "curr_byte", "delay", "buffer")


def same_val(a, b):
    if a is b:
        return True
    if isinstance(a, T) and isinstance(b, T):
        return tm.equiv(a, b) is True
    if isinstance(a, Agg) and isinstance(b, Agg):
        return a.kind == b.kind and a.variant == b.variant and len(a.fields) == len(b.fields) and all(same_val(x, y) for x, y in zip(a.fields, b.fields))
    if isinstance(a, SymObj) and isinstance(b, SymObj):
        return a.name == b.name
    return False


def run(chk):
    prog = cc.program("A")
    tn = TapeNames(prog)
    cg, fa = cc.scans(prog)
    chk.rule("T-LAW", "stop;stop==stop, play after stop resumes, play;play==play, end of tape / rewind forget the saved state")
    chk.rule("T-WRITERS", "stop/play store only state and prev_state")
    STOP, PLAY, RW, PCL, NB = (tn.method(n) for n in ("stop", "play", "rewind", "process_clocks", "next_block"))

    def call(fnpath, tapval, opaque=(), hook=None):
        w = Walker(prog)
        w.opaque_paths |= set(opaque)
        w.effect_hook = hook or (lambda w_, st, path, a, d, wh: EffectResult(None, havoc=False))
        st = w.new_state()
        st.store[TAPOBJ] = tapval
        args = [Ref(TAPOBJ, (), True)]
        if fnpath == PCL:
            args.append(tm.sym("clocks", 64))
        rs = w.run(prog.fn(fnpath), args, genv={"A": A}, state=st)
        return rs

    def single(fnpath, tapval, key):
        rs = call(fnpath, tapval)
        good = [r for r in rs if r.outcome == "return"]
        if len(rs) != 1 or len(good) != 1:
            chk.undecided_(key, "%s does not have a single path: %s" % (fnpath.split("::")[-1], [(r.outcome, r.detail, [c[:3] for c in r.pc]) for r in rs][:3]))
            return None
        return good[0].store[TAPOBJ], good[0]

    def base(s, p):
        w = Walker(prog)
        st = tap_state(w, prog, tn, state=s, prev=p)
        return st.store[TAPOBJ]
    fi = tn.fi
    n_laws = 0
    # a stopped deck is frozen: emulated time passing changes nothing of it (whatever pulse was interrupted, whatever it
    # will resume at), so that play continues exactly where stop left off
    for p in tn.variants:
        x = base("Stop", p)
        rs = call(PCL, x, opaque=(NB, RW, tn.method("next_block_byte")))
        key = "T-LAW/Tap::process_clocks/stopped-inert"
        if not rs or any(r.outcome != "return" for r in rs):
            chk.undecided_(key, "process_clocks on a stopped deck: %s" % [(r.outcome, r.detail) for r in rs][:2])
            continue
        for r in rs:
            diff = cc.tree_diff(prog, x, r.store[TAPOBJ])
            names_ = [cc.tree_name(prog, "tap", tn.TAP, (A,), d_) for d_ in diff]
            chk.check(not diff and not r.trace, key,
                      "time passing on a stopped deck (saved state %s) changes %s / performs %s: the interrupted pulse is not resumed where it stopped" % (
                          p, [n_[0] if n_ else "?" for n_ in names_], [e.path.split("::")[-1] for e in r.trace]))
            n_laws += 1
    for s in tn.variants:
        for p in tn.variants:
            x = base(s, p)
            tag = "%s,%s" % (s, p)
            a = single(STOP, x, "T-LAW/Tap::stop/%s" % tag)
            if a is None:
                continue
            sx = a[0]
            b = single(STOP, sx, "T-LAW/Tap::stop;stop/%s" % tag)
            if b is None:
                continue
            ssx = b[0]
            n_laws += 1
            chk.check(all(same_val(u, v) for u, v in zip(sx.fields, ssx.fields)), "T-LAW/Tap::stop/idempotent",
                      "stop;stop differs from stop when the deck state is (%s, saved %s): after one stop %s / %s, after two %s / %s - a later play loses the position in the block" % (
                          s, p, describe_state(tn, sx.fields[fi("state")]), describe_state(tn, sx.fields[fi("prev_state")]),
                          describe_state(tn, ssx.fields[fi("state")]), describe_state(tn, ssx.fields[fi("prev_state")])))
            # play after stop resumes where it stopped (deck was playing)
            if s != "Stop":
                c = single(PLAY, sx, "T-LAW/Tap::stop;play/%s" % tag)
                if c is not None:
                    psx = c[0]
                    n_laws += 1
                    chk.check(same_val(psx.fields[fi("state")], x.fields[fi("state")]), "T-LAW/Tap::play/resumes",
                              "stop;play from %s resumes at %s" % (describe_state(tn, x.fields[fi("state")]), describe_state(tn, psx.fields[fi("state")])))
                    chk.check(all(same_val(psx.fields[fi(f)], x.fields[fi(f)]) for f in POS_FIELDS), "T-LAW/Tap::play/position",
                              "stop;play changes a position/level field")
            # play;play == play
            c1 = single(PLAY, x, "T-LAW/Tap::play/%s" % tag)
            if c1 is not None:
                c2 = single(PLAY, c1[0], "T-LAW/Tap::play;play/%s" % tag)
                if c2 is not None:
                    n_laws += 1
                    chk.check(all(same_val(u, v) for u, v in zip(c1[0].fields, c2[0].fields)), "T-LAW/Tap::play/idempotent",
                              "play;play differs from play for (%s, saved %s)" % (s, p))
                # a deck that is already playing ignores play: whatever is still remembered from an earlier stop
                # (the saved state is not cleared by a resume) must not be restored a second time
                if s != "Stop":
                    n_laws += 1
                    chk.check(all(same_val(u, v) for u, v in zip(x.fields, c1[0].fields)), "T-LAW/Tap::play/while-playing",
                              "play on a deck that is playing (%s, saved %s) changes its state to %s: the pulse machine jumps back to the point of an earlier stop" % (
                                  s, p, describe_state(tn, c1[0].fields[fi("state")])))
            # rewind of a stopped deck: the next play starts a fresh pilot
            if s == "Stop":
                rs = call(RW, x)
                for r in rs:
                    if r.outcome != "return":
                        chk.fail("T-LAW/Tap::rewind/paths", "rewind path %s %s" % (r.outcome, r.detail))
                        continue
                    ok_result = isinstance(r.ret, Agg) and r.ret.variant == 0
                    if not ok_result:
                        continue  # seek failed: error propagated
                    rx = r.store[TAPOBJ]
                    seeks = [e for e in r.trace if e.path.endswith("::seek")]
                    chk.check(len(seeks) == 1, "T-LAW/Tap::rewind/seek", "rewind does not seek the asset exactly once")
                    pos_ok = kz(rx.fields[fi("block_bytes_read")]) and kz(rx.fields[fi("buffer_offset")]) and kz(rx.fields[fi("delay")]) and \
                        isinstance(rx.fields[fi("current_block_size")], Agg) and rx.fields[fi("current_block_size")].variant == 0 and rx.fields[fi("tape_ended")] is tm.FALSE
                    chk.check(pos_ok, "T-LAW/Tap::rewind/position", "rewind does not reset the block window / end-of-tape flag")
                    c = single(PLAY, rx, "T-LAW/Tap::rewind;play/%s" % tag)
                    if c is not None:
                        n_laws += 1
                        stt = describe_state(tn, c[0].fields[fi("state")])
                        chk.check(stt[0] == "Play", "T-LAW/Tap::rewind/fresh-start",
                                  "rewind while stopped with saved state %s: the next play continues at %s instead of starting the first block with a fresh pilot" % (p, stt))
    # end of tape: Play with no block left
    for p in tn.variants:
        x = base("Play", p).with_field(fi("delay"), K(0, 64))

        def hook(w_, st, path, a, d, wh):
            if path == NB:
                return EffectResult(Agg(("adt", "core::result::Result"), 0, [tm.FALSE]), havoc=False)
            return None
        rs = call(PCL, x, opaque=[NB], hook=hook)
        for r in rs:
            if r.outcome != "return":
                chk.fail("T-LAW/Tap::process_clocks/end-of-tape/paths", "%s %s" % (r.outcome, r.detail))
                continue
            if isinstance(r.ret, Agg) and r.ret.variant != 0:
                continue
            ex = r.store[TAPOBJ]
            n_laws += 1
            s2, p2 = describe_state(tn, ex.fields[fi("state")]), describe_state(tn, ex.fields[fi("prev_state")])
            chk.check(s2[0] == "Stop" and p2[0] == "Stop", "T-LAW/Tap::process_clocks/end-of-tape",
                      "running off the end with saved state %s leaves (%s, saved %s): the next play does not start the tape from its first block with a fresh pilot" % (p, s2, p2))
            chk.check(kz(ex.fields[fi("block_bytes_read")]) and kz(ex.fields[fi("buffer_offset")]) and any(e.path.endswith("::seek") for e in r.trace),
                      "T-LAW/Tap::process_clocks/end-of-tape/rewound", "running off the end does not rewind the position")
    # mod-ref: stop / play write only the state fields
    for name, path in (("stop", STOP), ("play", PLAY)):
        wrote = set()
        for (adt, field), sites in fa.stores.items():
            if adt == tn.TAP and any(s.fn.path == path for s in sites):
                wrote.add(field)
        for (adt, field), sites in fa.mutrefs.items():
            if adt == tn.TAP and any(s.fn.path == path for s in sites):
                wrote.add(field)
        chk.check(wrote <= {"state", "prev_state"} and wrote, "T-WRITERS/Tap::%s" % name, "%s writes %s (only state/prev_state allowed)" % (name, sorted(wrote)))
    # Emulator API forwards
    for api, meth in (("play_tape", "play"), ("stop_tape", "stop"), ("rewind_tape", "rewind")):
        fnp = prog.fn_path("rustzx_core", "Emulator::<H>::" + api)
        callees = [cp for cp, s in cg.calls.get(fnp, ())]
        chk.check(any(c.endswith("TapeImpl>::" + meth) or c.endswith("TapeImpl::" + meth) for c in callees) and len([c for c in callees if "Tape" in c]) >= 1,
                  "T-WRITERS/Emulator::%s" % api, "%s does not forward to the deck's %s: %s" % (api, meth, callees))
    # a deck command changes the deck and nothing else of the machine
    chk.rule("T-NONINT/deck", "mod set of play_tape / stop_tape / rewind_tape is the tape deck (and the asset behind it)")
    EM = prog.adt_path("rustzx_core", "Emulator")
    names_ = cc.Names(prog)
    TAPE_ADTS = [p_ for p_ in prog.adts if p_.startswith("rustzx_core::zx::tape::")]
    deck = {(EM, "controller"), (names_.CTL, "tape")}
    for a_ in TAPE_ADTS:
        for v_ in prog.adt(a_)["variants"]:
            deck |= set((a_, f_["name"]) for f_ in v_["fields"])
    # assets (host-side readers) are positioned by rewind: their own fields are theirs to change
    is_asset = lambda adt, field: adt.startswith("rustzx_core::host::") or adt.startswith("rustzx_utils::")
    for api in ("play_tape", "stop_tape", "rewind_tape"):
        cc.check_mod_set(chk, prog, cg, fa, api, deck, "T-NONINT/deck/%s" % api, "the tape deck", ignore=is_asset)
    chk.count("law-instances", n_laws)
    chk.floor("law-instances", 150)
    chk.sample({"laws": ["stop;stop==stop", "stop;play resumes", "play;play==play", "end of tape -> (Stop,Stop)", "rewind(stopped);play -> Play"], "instances": n_laws})
    api_wrappers(chk, prog)
    return chk.finish(EXPL)


def kz(t):
    return isinstance(t, T) and t.is_const() and t.val == 0


def api_wrappers(chk, prog):
    """The host presses the deck's buttons through Emulator::play_tape / stop_tape / rewind_tape: each is exactly the
    deck command of the same name, once, on the inserted tape (whichever kind it is) and nothing else on it; rewind_tape
    returns the command's result.  The laws above are stated for the commands; this makes them hold for the buttons."""
    from . import loaders as ld
    chk.rule("T-PAIR/api", "Emulator::play_tape / stop_tape / rewind_tape = exactly one call of the deck command of the same name on the inserted tape")
    ln = ld.LoaderNames(prog)
    tapefns = set(p for p in prog.fns if "TapeImpl>::" in p and p.startswith("<rustzx_core::") and "ZXTape<" not in p)
    for api, cmd in (("play_tape", "play"), ("stop_tape", "stop"), ("rewind_tape", "rewind")):
        key = "T-PAIR/Emulator::%s" % api
        try:
            fn = prog.fn(prog.fn_path("rustzx_core", "Emulator::<H>::" + api))
        except Exception as e:
            chk.undecided_(key + "/anchor", "%s" % e)
            continue
        w = Walker(prog)
        w.opaque_paths |= tapefns
        w.effect_hook = lambda w_, st, path, a, d, wh: EffectResult(None, havoc=False)
        st = ld.emulator_state(w, prog, ln, "Sinclair48K")
        rs = w.run(fn, [Ref(ld.EMU, (), True)], genv={"H": ld.H}, state=st)
        if not rs or any(r.outcome != "return" for r in rs):
            chk.fail(key + "/paths", "%s" % [(r.outcome, r.detail) for r in rs][:2])
            continue
        for r in rs:
            calls = [e.path.split("::")[-1] for e in r.trace if e.path in tapefns]
            ok = calls == [cmd]
            if ok and cmd == "rewind":
                ok = getattr(r.ret, "name", "").startswith("ret0:rewind")
            chk.check(ok, key, "%s performs the deck commands %s%s; documented: %s once, nothing else" % (
                api, calls, "" if cmd != "rewind" or calls != [cmd] else " but does not return the command's result", cmd))
            chk.count("deck-api-paths")
    chk.floor("deck-api-paths", 6)
