"""C17 — keyboard matrix, compound keys, Sinclair/Kempston joysticks, Kempston mouse."""
from . import corecommon as cc
from . import c04
from zx import term as tm
from zx.term import K, T
from zx.walk import Walker, Agg, Ref, EffectResult, UNIT, SymObj

LEVEL = "other"

EXPL = (
    "Decided (T-TABLE by constant propagation over every enum value, T-BITS / T-WRITERS on the event handlers with "
    "symbolic matrices): the 40 keys occupy the 8x5 matrix of the documentation, all cells distinct; the 7 compound keys are "
    "CAPS SHIFT + {5,8,7,6,2,0,SPACE} with 7 distinct single-bit modifier masks; Sinclair 1 = 6,7,8,9,0 and Sinclair 2 = "
    "1,2,3,4,5 for left,right,down,up,fire; send_key / send_sinclair_key / send_compound_key each write only their own "
    "matrix (press: cell &= !mask, release: cell |= mask of the same cell), so a release by one source never releases a key "
    "held by another (row AND is C07); CAPS SHIFT is released exactly when the modifier mask becomes zero; Kempston bits "
    "1,2,4,8,16(,32,64,128) set by OR / cleared by AND-NOT; mouse buttons 1,2,4,8 active-low, wheel = bits 4-7 +-1 mod 16, "
    "X += dx, Y -= dy modulo 256.  Level 'other' while the Sinclair-2 finding is open."
)

MATRIX = [
    ["Shift", "Z", "X", "C", "V"], ["A", "S", "D", "F", "G"], ["Q", "W", "E", "R", "T"], ["N1", "N2", "N3", "N4", "N5"],
    ["N0", "N9", "N8", "N7", "N6"], ["P", "O", "I", "U", "Y"], ["Enter", "L", "K", "J", "H"], ["Space", "SymShift", "M", "N", "B"],
]
COMPOUND = {"ArrowLeft": "N5", "ArrowRight": "N8", "ArrowUp": "N7", "ArrowDown": "N6", "CapsLock": "N2", "Delete": "N0", "Break": "Space"}
SINCLAIR = {"Fist": {"Left": "N6", "Right": "N7", "Down": "N8", "Up": "N9", "Fire": "N0"},
            "Second": {"Left": "N1", "Right": "N2", "Down": "N3", "Up": "N4", "Fire": "N5"}}
KEMPSTON = {"Right": 1, "Left": 2, "Down": 4, "Up": 8, "Fire": 16, "Ext1": 32, "Ext2": 64, "Ext3": 128}
MOUSEB = {"Left": 1, "Right": 2, "Middle": 4, "Additional": 8}


def const_call(prog, fnpath, args):
    w = Walker(prog)
    rs = w.run(prog.fn(fnpath), args, genv={})
    good = [r for r in rs if r.outcome == "return"]
    if len(rs) != 1 or len(good) != 1:
        return None
    return good[0].ret


def run(chk):
    prog = cc.program("A")
    names = cc.Names(prog)
    chk.rule("T-TABLE", "key matrix, compound keys, Sinclair and Kempston tables")
    chk.rule("T-WRITERS/T-BITS", "each event source writes only its own matrix; press/release bit operations; mouse arithmetic")
    KEY = prog.adt_path("rustzx_core", "ZXKey")
    keyv = lambda n: Agg(("adt", KEY), prog.variant_index(KEY, n), ())
    cell = {}
    ROW = prog.fn_path("rustzx_core", "ZXKey::row_id")
    MASK = prog.fn_path("rustzx_core", "ZXKey::mask")
    w = Walker(prog)
    for r_, row in enumerate(MATRIX):
        for b_, kn in enumerate(row):
            try:
                kv = keyv(kn)
            except KeyError:
                chk.fail("T-TABLE/ZXKey/%s" % kn, "key %s does not exist" % kn)
                continue
            rr = const_call(prog, ROW, [kv])
            st = w.new_state()
            st.store[("h", "k")] = kv
            rs = w.run(prog.fn(MASK), [Ref(("h", "k"), (), False)], genv={}, state=st)
            mm = rs[0].ret if len(rs) == 1 and rs[0].outcome == "return" else None
            ok = isinstance(rr, T) and rr.is_const() and rr.val == r_ and isinstance(mm, T) and mm.is_const() and mm.val == (1 << b_)
            chk.check(ok, "T-TABLE/ZXKey/%s" % kn, "key %s is at row %s mask %s; documented row %d (A%d low) bit %d" % (kn, rr, mm, r_, 8 + r_, b_))
            if ok:
                cell[kn] = (r_, 1 << b_)
            chk.count("keys")
    chk.check(len(prog.variant_names(KEY)) == 40 and len(set(cell.values())) == len(cell), "T-TABLE/ZXKey/distinct",
              "the key enum has %d keys, %d distinct cells" % (len(prog.variant_names(KEY)), len(set(cell.values()))))
    chk.floor("keys", 40)
    # compound keys
    CK = prog.adt_path("rustzx_core", "CompoundKey")
    masks = []
    for cn, prim in COMPOUND.items():
        cv = Agg(("adt", CK), prog.variant_index(CK, cn), ())
        p = const_call(prog, prog.fn_path("rustzx_core", "CompoundKey::primary_key"), [cv])
        m = const_call(prog, prog.fn_path("rustzx_core", "CompoundKey::modifier_key"), [cv])
        mk = const_call(prog, prog.fn_path("rustzx_core", "CompoundKey::modifier_mask"), [cv])
        names_ = prog.variant_names(KEY)
        chk.check(isinstance(p, Agg) and names_[p.variant] == prim, "T-TABLE/CompoundKey/%s/primary" % cn,
                  "%s presses %s; documented CAPS SHIFT + %s" % (cn, names_[p.variant] if isinstance(p, Agg) else p, prim))
        chk.check(isinstance(m, Agg) and names_[m.variant] == "Shift", "T-TABLE/CompoundKey/%s/modifier" % cn, "%s does not hold CAPS SHIFT" % cn)
        ok = isinstance(mk, T) and mk.is_const() and mk.val and (mk.val & (mk.val - 1)) == 0
        chk.check(ok, "T-TABLE/CompoundKey/%s/mask" % cn, "modifier mask of %s is %s (must be a single bit)" % (cn, mk))
        if ok:
            masks.append(mk.val)
    chk.check(len(prog.variant_names(CK)) == 7 and len(set(masks)) == 7, "T-TABLE/CompoundKey/masks-distinct", "compound modifier masks are not 7 distinct bits: %s" % masks)
    # Sinclair joysticks
    SJ = prog.adt_path("rustzx_core", "SinclairJoyNum")
    SK = prog.adt_path("rustzx_core", "SinclairKey")
    S2K = prog.fn_path("rustzx_core", "sinclair_event_to_zx_key")
    for jn, tab in SINCLAIR.items():
        for bn, kn in tab.items():
            r = const_call(prog, S2K, [Agg(("adt", SK), prog.variant_index(SK, bn), ()), Agg(("adt", SJ), prog.variant_index(SJ, jn), ())])
            got = prog.variant_names(KEY)[r.variant] if isinstance(r, Agg) else r
            chk.check(got == kn, "T-TABLE/sinclair_event_to_zx_key/%s/%s" % (jn, bn),
                      "Sinclair joystick %s %s presses key %s; documented %s" % ("1" if jn == "Fist" else "2", bn.lower(), got, kn))
            chk.count("sinclair-rows")
    chk.floor("sinclair-rows", 10)
    senders(chk, prog, names, cell, keyv)
    compound_release(chk, prog, names, CK)
    kempston(chk, prog)
    mouse(chk, prog)
    input_mod_sets(chk, prog, names)
    # "a key reads 0 exactly when some source holds it": the AND of the three matrices over every selected half-row is the
    # ULA-read leaf rule of C07's decode walk
    from . import c07
    from zx.report import FilteredCheck
    chk.rule("T-BITS (shared with C07)", "every ULA read path: result = AND over the selected half-rows of the three matrices, EAR on bit 6")
    fc = FilteredCheck(chk, lambda k: k.startswith("T-BITS/") and (k.endswith("/rows") or k.endswith("/ear")), "c07")
    c07._KB.clear()
    c07._KB["prog"], c07._KB["names"] = prog, names
    for m in names.machine_variants():
        c07.decode(fc, prog, names, m, "read_io")
    chk.check(fc.forwarded >= 16, "T-BITS/ZXController::read_io/ula-paths", "only %d ULA read paths were judged" % fc.forwarded)
    api_forwarding(chk, prog)
    return chk.finish(EXPL)


def input_mod_sets(chk, prog, names):
    """T-NONINT/inputs: an input event changes its own device and nothing else.  Everything the functions reachable
    from a public send_* method store to, borrow mutably or replace (local types) lies on the ownership path to the
    matrix / joystick / mouse it feeds."""
    chk.rule("T-NONINT/inputs", "mod set of every send_* API method is the device it feeds")
    cg, fa = cc.scans(prog)
    EM = prog.adt_path("rustzx_core", "Emulator")
    KJ = prog.adt_path("rustzx_core", "KempstonJoy")
    KM = prog.adt_path("rustzx_core", "KempstonMouse")
    roles = cc.keyboard_roles(prog, names)
    chain = lambda r: set(roles[r][2])
    allf = lambda adt: set((adt, f["name"]) for f in prog.adt(adt)["variants"][0]["fields"])
    base = {(EM, "controller")}
    table = {
        "send_key": base | chain("main"),
        "send_sinclair_key": base | chain("sinclair"),
        "send_compound_key": base | chain("extended") | chain("mask"),
        "send_kempston_key": base | {(names.CTL, "kempston")} | allf(KJ),
        "send_mouse_button": base | {(names.CTL, "mouse")} | allf(KM),
        "send_mouse_wheel": base | {(names.CTL, "mouse")} | allf(KM),
        "send_mouse_pos_diff": base | {(names.CTL, "mouse")} | allf(KM),
    }
    written = {}
    for (adt, field), sites in list(fa.stores.items()) + list(fa.mutrefs.items()):
        for s_ in sites:
            written.setdefault(cc.strip_closure(s_.fn.path), set()).add((adt, field))
    n = 0
    for api, allowed in table.items():
        try:
            root = prog.fn_path("rustzx_core", "Emulator::<H>::" + api)
        except KeyError:
            chk.undecided_("T-NONINT/inputs/%s/anchor" % api, "Emulator::%s not found" % api)
            continue
        reach = set(cc.strip_closure(p) for p in cg.reachable([root]) if p in prog.fns and prog.fns[p].local)
        mods, who = set(), {}
        for p in reach:
            for af in written.get(p, ()):
                a = prog.adt(af[0])
                if a and a.get("local") and not af[0].endswith("Iter"):
                    mods.add(af)
                    who.setdefault(af, p)
        extra = mods - allowed
        chk.check(not extra, "T-NONINT/inputs/%s" % api,
                  "%s changes more than the device it feeds: %s" % (api, sorted("%s.%s (in %s)" % (a.split("::")[-1], f, who[(a, f)].split("::")[-1]) for a, f in extra)))
        n += 1
    chk.count("input-apis", n)
    chk.floor("input-apis", 7)


def senders(chk, prog, names, cell, keyv):
    cg, fa = cc.scans(prog)
    # the matrices and the hold mask are located by role (which state the public senders change), so that renaming them or
    # grouping them in a struct of their own does not matter; who-may-write is then asked of the field that holds them
    roles = cc.keyboard_roles(prog, names)
    for role, allowed, label in (("main", {"send_key"}, "keyboard"), ("sinclair", {"send_sinclair_key"}, "keyboard_sinclair"),
                                 ("extended", {"send_compound_key"}, "keyboard_extended"), ("mask", {"send_compound_key"}, "caps_shift_modifier_mask")):
        adt, field = roles[role][2][-1]
        got = cc.effective_writers(prog, cg, fa, names, adt, field, allowed)
        chk.check(got == allowed, "T-WRITERS/ZXController.%s" % label, "%s (%s.%s) is written by %s; allowed %s" % (label, adt.split("::")[-1], field, sorted(got), sorted(allowed)))
        # the enclosing structs may be replaced as a whole only by the constructor
        for adt2, field2 in roles[role][2][:-1]:
            senders_ = {"send_key", "send_sinclair_key", "send_compound_key", "new"}
            got2 = cc.effective_writers(prog, cg, fa, names, adt2, field2, senders_)
            chk.check(got2 <= senders_, "T-WRITERS/ZXController.%s/enclosing" % label, "%s.%s, which holds %s, is borrowed mutably or overwritten by %s" % (
                adt2.split("::")[-1], field2, label, sorted(got2 - senders_)))
    # press / release arithmetic for one representative key per row (the cell table is decided above for all 40)
    mpath, mname = roles["main"][0], roles["main"][1]
    for kn in ("Shift", "G", "E", "N4", "N0", "Y", "L", "B"):
        row, mask = cell.get(kn, (None, None))
        if row is None:
            continue
        for pressed in (1, 0):
            w = Walker(prog)
            st = cc.controller_state(w, prog, names, "Sinclair48K")
            init = st.store[cc.CTL]
            rs = w.run(prog.fn(names.ctl("send_key")), [Ref(cc.CTL, (), True), keyv(kn), K(pressed, 1)], genv=cc.GENV, state=st)
            key = "T-BITS/ZXController::send_key/%s" % ("press" if pressed else "release")
            if len(rs) != 1 or rs[0].outcome != "return":
                chk.fail(key + "/paths", "paths %s" % [(r.outcome, r.detail) for r in rs][:2])
                continue
            ctl2 = rs[0].store[cc.CTL]
            diff = cc.tree_diff(prog, init, ctl2)
            old = tm.sym("%s[%d]" % (mname, row), 8)
            v = cc.leaf_term(cc.tree_get(ctl2, mpath + (row,)))
            want = tm.binop("and", old, K(~mask & 0xFF, 8)) if pressed else tm.binop("or", old, K(mask, 8))
            ok = diff in ([mpath + (row,)], []) and v is not None and tm.equiv(v, want) is True
            chk.check(ok, key, "send_key(%s, %s) does not %s exactly bit %s of row %d (state changed: %s, cell %s)" % (
                kn, bool(pressed), "clear" if pressed else "set", mask, row, diff, v))
            chk.count("sender-cases")
    chk.floor("sender-cases", 16)


def compound_release(chk, prog, names, CK):
    roles = cc.keyboard_roles(prog, names)
    epath, ename = roles["extended"][0], roles["extended"][1]
    kpath, kname = roles["mask"][0], roles["mask"][1]
    M = tm.sym(kname, 32)
    for cn, prim in COMPOUND.items():
        for pressed in (1, 0):
            w = Walker(prog)
            st = cc.controller_state(w, prog, names, "Sinclair48K")
            cv = Agg(("adt", CK), prog.variant_index(CK, cn), ())
            rs = w.run(prog.fn(names.ctl("send_compound_key")), [Ref(cc.CTL, (), True), cv, K(pressed, 1)], genv=cc.GENV, state=st)
            key = "T-BITS/ZXController::send_compound_key/%s/%s" % (cn, "press" if pressed else "release")
            if not rs or any(r.outcome != "return" for r in rs):
                chk.fail(key + "/paths", "paths %s" % [(r.outcome, r.detail) for r in rs][:2])
                continue
            bit = 1 << list(COMPOUND).index(cn)
            for r in rs:
                ctl = r.store[cc.CTL]
                m2 = cc.leaf_term(cc.tree_get(ctl, kpath))
                old_shift = tm.sym("%s[0]" % ename, 8)
                kbe = cc.tree_get(ctl, epath)
                shift = cc.leaf_term(kbe.fields[0]) if isinstance(kbe, Agg) else old_shift
                if pressed:
                    ok = isinstance(m2, T) and tm.deps(m2) <= tm.deps(M) and bin(int(tm.known_bits(m2)[1])).count("1") == 1
                    chk.check(ok, key + "/mask", "press does not set exactly one modifier bit: %s" % (m2,))
                    # CAPS SHIFT held: bit 0 of row 0 cleared (the primary key may share row 0 only for none of the 7)
                    chk.check(isinstance(shift, T) and tm.bv(shift)[0] == 0, key + "/shift-held", "press does not hold CAPS SHIFT")
                else:
                    zero = c04.cc_decide(r, tm.cmp("eq", m2, K(0, 32))) if isinstance(m2, T) and not m2.is_const() else (m2.val == 0 if isinstance(m2, T) else None)
                    if zero is None:
                        zero = decide_zero(r, m2)
                    rel = isinstance(shift, T) and tm.bv(shift)[0] == 1
                    keep = isinstance(shift, T) and tm.bv(shift)[0] == ("c", "%s[0]" % ename, 0, False)
                    chk.check(zero is not None and ((zero and rel) or (not zero and keep)), key + "/shift-last",
                              "release with other compound keys held=%s: CAPS SHIFT bit becomes %s" % (None if zero is None else not zero, tm.bv(shift)[0] if isinstance(shift, T) else shift))
                    ok = isinstance(m2, T) and all(tm.bv(m2)[j] == ("c", kname, j, False) or tm.bv(m2)[j] == 0 for j in range(32)) and \
                        sum(1 for j in range(32) if tm.bv(m2)[j] == 0) >= 1
                    chk.check(ok or (isinstance(m2, T) and m2.is_const()), key + "/mask", "release does not clear just its own modifier bit: %s" % (m2,))
                chk.count("compound-paths")
    chk.floor("compound-paths", 14)


def decide_zero(r, m2):
    for t, v in r.facts.items():
        if t.bits == 32 and tm.syms(t) == tm.syms(m2) and tm.equiv(t, m2) is True:
            return v.val == 0
    for t, vals in r.nfacts.items():
        if t.bits == 32 and 0 in vals and tm.syms(t) == tm.syms(m2) and tm.equiv(t, m2) is True:
            return False
    return None


def kempston(chk, prog):
    KK = prog.adt_path("rustzx_core", "KempstonKey")
    KJ = prog.adt_path("rustzx_core", "KempstonJoy")
    adt = prog.adt(KK)
    got = dict((v["name"], v["discr"]) for v in adt["variants"])
    chk.check(got == KEMPSTON, "T-TABLE/KempstonKey", "Kempston bits are %s; documented %s" % (got, KEMPSTON))
    fn = prog.fn(prog.fn_path("rustzx_core", "KempstonJoy::key"))
    S = tm.sym("joy.state", 8)
    for kn, bit in KEMPSTON.items():
        for pressed in (1, 0):
            w = Walker(prog)
            st = w.new_state()
            st.store[("h", "joy")] = w.materialise(SymObj("joy", ("adt", KJ, ())), st)
            rs = w.run(fn, [Ref(("h", "joy"), (), True), Agg(("adt", KK), prog.variant_index(KK, kn), ()), K(pressed, 1)], genv={}, state=st)
            ok = len(rs) == 1 and rs[0].outcome == "return"
            if ok:
                v = rs[0].store[("h", "joy")].fields[0]
                want = tm.binop("or", S, K(bit, 8)) if pressed else tm.binop("and", S, K(~bit & 0xFF, 8))
                ok = isinstance(v, T) and tm.equiv(v, want) is True
            chk.check(ok, "T-BITS/KempstonJoy::key/%s/%s" % (kn, "press" if pressed else "release"), "Kempston %s %s is not an OR / AND-NOT of bit %d" % (kn, "press" if pressed else "release", bit))
    r = const_call_ref(prog, prog.fn_path("rustzx_core", "KempstonJoy::read"), KJ, "joy")
    chk.check(r is S, "T-BITS/KempstonJoy::read", "Kempston port does not read the held bits: %s" % (r,))


def const_call_ref(prog, fnpath, adt, name):
    w = Walker(prog)
    st = w.new_state()
    st.store[("h", name)] = w.materialise(SymObj(name, ("adt", adt, ())), st)
    rs = w.run(prog.fn(fnpath), [Ref(("h", name), (), False)], genv={}, state=st)
    return rs[0].ret if len(rs) == 1 and rs[0].outcome == "return" else None


def mouse(chk, prog):
    KM = prog.adt_path("rustzx_core", "KempstonMouse")
    MB = prog.adt_path("rustzx_core", "KempstonMouseButton")
    MW = prog.adt_path("rustzx_core", "KempstonMouseWheelDirection")
    got = dict((v["name"], v["discr"]) for v in prog.adt(MB)["variants"])
    chk.check(got == MOUSEB, "T-TABLE/KempstonMouseButton", "mouse button bits are %s; documented %s" % (got, MOUSEB))
    fi = lambda n: prog.field_index(KM, n)
    B, X, Y = tm.sym("m.buttons_port", 8), tm.sym("m.x_pos_port", 8), tm.sym("m.y_pos_port", 8)

    def run_(fnname, args):
        w = Walker(prog)
        st = w.new_state()
        st.store[("h", "m")] = w.materialise(SymObj("m", ("adt", KM, ())), st)
        rs = w.run(prog.fn(prog.fn_path("rustzx_core", "KempstonMouse::" + fnname)), [Ref(("h", "m"), (), True)] + args, genv={}, state=st)
        if len(rs) != 1 or rs[0].outcome != "return":
            return None
        return rs[0].store[("h", "m")]
    for bn, bit in MOUSEB.items():
        for pressed in (1, 0):
            m2 = run_("send_button", [Agg(("adt", MB), prog.variant_index(MB, bn), ()), K(pressed, 1)])
            want = tm.binop("and", B, K(~bit & 0xFF, 8)) if pressed else tm.binop("or", B, K(bit, 8))
            ok = m2 is not None and isinstance(m2.fields[fi("buttons_port")], T) and tm.equiv(m2.fields[fi("buttons_port")], want) is True
            chk.check(ok, "T-BITS/KempstonMouse::send_button/%s/%s" % (bn, "press" if pressed else "release"), "mouse buttons are not active-low bit %d" % bit)
    for dn, d in (("Up", 1), ("Down", -1)):
        m2 = run_("send_wheel", [Agg(("adt", MW), prog.variant_index(MW, dn), ())])
        cnt = tm.binop("and", tm.binop("add", tm.binop("lshr", B, K(4, 8)), K(d, 8)), K(0x0F, 8))
        want = tm.binop("or", tm.binop("and", B, K(0x0F, 8)), tm.binop("shl", cnt, K(4, 8)))
        ok = m2 is not None and isinstance(m2.fields[fi("buttons_port")], T) and tm.equiv(m2.fields[fi("buttons_port")], want) is True
        chk.check(ok, "T-BITS/KempstonMouse::send_wheel/%s" % dn, "wheel %s is not bits 4-7 %+d modulo 16 with the buttons kept: %s" % (dn, d, m2.fields[fi("buttons_port")] if m2 else None))
    dx, dy = tm.sym("dx", 8), tm.sym("dy", 8)
    m2 = run_("send_pos_diff", [dx, dy])
    ok = m2 is not None and tm.equiv(m2.fields[fi("x_pos_port")], tm.binop("add", X, dx)) is True and tm.equiv(m2.fields[fi("y_pos_port")], tm.binop("sub", Y, dy)) is True
    chk.check(ok, "T-BITS/KempstonMouse::send_pos_diff", "mouse counters are not X += dx, Y -= dy modulo 256: %s %s" % (
        m2.fields[fi("x_pos_port")] if m2 else None, m2.fields[fi("y_pos_port")] if m2 else None))


def api_forwarding(chk, prog):
    """The host reports input through Emulator::send_*: each is exactly one call of the handler the rules above judge
    (the controller's method of the same name, or the Kempston joystick's `key`), with the host's arguments in order
    and unchanged - a swapped x/y, an inverted or constant `pressed`, or a second call would make the judged handlers
    describe something other than what the host did."""
    from . import loaders as ld
    chk.rule("T-PAIR/api", "Emulator::send_* = exactly one call of the judged handler with the host's arguments, in order, unchanged")
    ln = ld.LoaderNames(prog)
    cg, _fa = cc.scans(prog)
    apis = sorted(p for p in prog.fns if p.startswith("rustzx_core::") and "Emulator::<H>::send_" in p and "::{" not in p.split("Emulator::<H>::")[1])
    n = 0
    for path in apis:
        api = path.split("::")[-1]
        fn = prog.fn(path)
        key = "T-PAIR/Emulator::%s" % api
        # the handler is whatever function of the core the wrapper calls (found in the call graph, not by name)
        handlers = set(cp for cp, s_ in cg.calls.get(path, ()) if cp in prog.fns and prog.fns[cp].local and "Emulator" not in cp)
        if not handlers:
            chk.undecided_(key + "/anchor", "no handler found for %s" % api)
            continue
        w = Walker(prog)
        w.opaque_paths |= handlers
        w.effect_hook = lambda w_, st, cp, a, d, wh: EffectResult(None, havoc=False)
        st = ld.emulator_state(w, prog, ln, "Sinclair48K")
        args = [Ref(ld.EMU, (), True)]
        for k in range(2, fn.body["argc"] + 1):
            ty = fn.T[fn.body["locals"][k]]
            if ty[0] == "int":
                args.append(tm.sym("arg%d" % (k - 1), ty[1]))
            elif ty[0] == "bool":
                args.append(tm.sym("arg%d" % (k - 1), 1))
            else:
                args.append(SymObj("arg%d" % (k - 1), ty))
        try:
            rs = w.run(fn, args, genv={"H": ld.H}, state=st)
        except Exception as e:
            chk.undecided_(key, "could not explore: %s" % e)
            continue
        forwarded = 0
        for r in rs:
            if r.outcome != "return":
                chk.fail(key + "/paths", "%s %s" % (r.outcome, r.detail))
                continue
            calls = [e for e in r.trace if e.path in handlers]
            if not calls:
                # the device is absent (optional joystick): nothing to report to
                absent = any(c[0] == "variant" and c[2] == "None" for c in r.pc)
                chk.check(absent, key, "%s returns without calling its handler although the device is present" % api)
                continue
            same = len(calls) == 1 and len(calls[0].args) - 1 == len(args) - 1 and all(
                (x is y) or (isinstance(x, SymObj) and isinstance(y, SymObj) and x.name == y.name) for x, y in zip(calls[0].args[1:], args[1:]))
            chk.check(same, key, "%s calls %s; documented: the handler once with the host's arguments (%s) in order, unchanged" % (
                api, [(e.path.split("::")[-1], [getattr(a, "name", None) or (tm.show(a) if isinstance(a, T) else str(a)) for a in e.args[1:]]) for e in calls],
                [getattr(a, "name", None) or tm.show(a) for a in args[1:]]))
            forwarded += 1
        chk.check(forwarded >= 1, key + "/forwards", "%s never reaches its handler" % api)
        n += 1
    chk.count("input-api-methods", n)
    chk.floor("input-api-methods", 7)
