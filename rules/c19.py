"""C19 — audio rate: samples per frame, queue bound guard, frame padding, beeper levels."""
import struct

from . import corecommon as cc
from . import c04
from zx import term as tm
from zx.term import K, T
from zx.walk import Walker, Agg, Ref, EffectResult, UNIT, SymObj

LEVEL = "other"

EXPL = (
    "Decided: samples per frame = sample_rate / 50 (the FPS constant reaches the division); every push into the audio queue "
    "is control-dependent on 'queue length < samples per frame' (process returns first when the queue already holds a frame; "
    "new_frame pads only the missing part up to exactly one frame), process adds exactly position(now) - position(last call) "
    "samples where position is clamped to one frame, new_frame resets the position: hence the queue stays below two frames "
    "however the host drains it and exactly sample_rate/50 samples are delivered per frame when drained at frame boundaries; "
    "the mixer is advanced from every wait_internal with frame_clocks / clocks_frame clamped to 1 (C05 pairing); beeper "
    "level = 0.5*speaker + 0.1*MIC from the ULA write bits (C07), scaled by the master volume; the sample stored as 'last' is "
    "written only by gen_sample; the host reads samples only through pop.  NOT decided: uniform spacing / edge within one "
    "sample / amplitude bound (floating-point arithmetic)."
)


def is_umax(t, a, b):
    """t is max(a, b) unsigned, written as a conditional: ite(p < q, q, p) / ite(p <= q, q, p) with {p, q} = {a, b}"""
    if not (isinstance(t, T) and t.op == "ite" and isinstance(t.args[0], T) and t.args[0].op in ("ult", "ule")):
        return False
    p, q = t.args[0].args
    return t.args[1] is q and t.args[2] is p and ((p is a and q is b) or (p is b and q is a))


def fconst(t):
    if isinstance(t, T) and t.is_const() and t.bits == 64:
        return struct.unpack("<d", struct.pack("<Q", t.val))[0]
    return None


def run(chk):
    prog = cc.program("A")
    names = cc.Names(prog)
    cg, fa = cc.scans(prog)
    chk.rule("T-GUARD", "every ring_buffer.push_back is guarded by len < samples_per_frame")
    chk.rule("T-TABLE", "samples_per_frame = rate / 50; beeper levels")
    chk.rule("T-WRITERS", "writers of last_sample / last_pos; consumers of the queue")
    MIX = prog.adt_path("rustzx_core", "ZXMixer")
    fi = lambda n: prog.field_index(MIX, n)
    RATE = tm.sym("mix.sample_rate", 64)
    spf_want = tm.binop("udiv", RATE, K(50, 64))

    def walker(opaque=()):
        w = Walker(prog, loop_bound=2)
        w.opaque_paths |= set(opaque)

        def hook(w_, st, path, a, d, wh):
            if path.endswith("VecDeque::<T, A>::len"):
                return EffectResult(tm.sym("QLEN", 64), havoc=False)
            if path.endswith("VecDeque::<T, A>::capacity"):
                return EffectResult(tm.sym("QCAP", 64), havoc=False)     # allocation size: unrelated to one frame
            if path.endswith("VecDeque::<T, A>::push_back"):
                return EffectResult(UNIT, havoc=False)
            return EffectResult(None, havoc=False)
        w.effect_hook = hook
        for p in prog.fns:
            if "VecDeque::<T, A>::len" in p or "VecDeque::<T, A>::push_back" in p or "VecDeque::<T, A>::pop_front" in p or "VecDeque::<T, A>::resize" in p \
                    or "VecDeque::<T, A>::capacity" in p:
                w.opaque_paths.add(p)
        return w

    def mixer_state(w):
        st = w.new_state()
        st.store[("h", "mix")] = w.materialise(SymObj("mix", ("adt", MIX, ())), st)
        return st
    # samples_per_frame
    w = walker()
    st = mixer_state(w)
    rs = w.run(prog.fn(prog.fn_path("rustzx_core", "ZXMixer::samples_per_frame")), [Ref(("h", "mix"), (), False)], genv={}, state=st)
    ok = len(rs) == 1 and rs[0].outcome == "return" and isinstance(rs[0].ret, T) and tm.equiv(rs[0].ret, spf_want) is None or \
        (len(rs) == 1 and tm.show(rs[0].ret) == tm.show(spf_want))
    chk.check(len(rs) == 1 and rs[0].outcome == "return" and tm.show(rs[0].ret) == tm.show(spf_want), "T-TABLE/ZXMixer::samples_per_frame",
              "samples per frame is %s; documented sample_rate / 50" % (rs[0].ret if rs else None))
    # process
    SPF = prog.fn_path("rustzx_core", "ZXMixer::samples_per_frame")
    GEN = prog.fn_path("rustzx_core", "ZXMixer::gen_sample")
    QLEN, SPFs, LAST = tm.sym("QLEN", 64), tm.sym("SPF", 64), tm.sym("mix.last_pos", 64)
    # the helper that turns the frame fraction into a sample index is inlined (it may be a method, an associated
    # function or no function at all): the position is read off the path instead
    w = walker(opaque=[SPF, GEN])
    base = w.effect_hook

    def hook(w_, st, path, a, d, wh):
        if path == SPF:
            return EffectResult(tm.sym("SPF", 64), havoc=False)
        return base(w_, st, path, a, d, wh)
    w.effect_hook = hook
    NOW = tm.sym("now", 64)

    def position(r):
        """the sample index `now` maps to on this path: SPF when now >= 1.0, else (SPF as f64 * now) as usize"""
        # the position is what the path records as the new last position
        cand = r.store[("h", "mix")].fields[fi("last_pos")]
        if not isinstance(cand, T) or cand is LAST:
            return None, "the last position is not advanced on a path that queues samples (%s)" % (cand,)
        ge1 = None
        for c in r.pc:
            if c[0] in ("eq", "ne") and isinstance(c[1], T) and c[1].op in ("app:fGe", "app:fGt", "app:fLt", "app:fLe") and NOW in c[1].args and 1.0 in [fconst(a_) for a_ in c[1].args]:
                truth = (c[0] == "ne")
                now_first = c[1].args[0] is NOW
                op = c[1].op
                if op in ("app:fGe", "app:fGt"):
                    ge1 = truth if now_first else not truth
                else:
                    ge1 = (not truth) if now_first else truth
        if cand is SPFs:
            return (cand, None) if ge1 is True else (None, "position clamped to a whole frame although now >= 1.0 is %s" % ge1)
        if isinstance(cand, T) and cand.op.startswith("app:FloatToInt") and isinstance(cand.args[0], T) and cand.args[0].op == "app:fMul":
            fs = cand.args[0].args
            other = [x for x in fs if x is not NOW]
            if NOW in fs and len(other) == 1 and other[0].op == "app:IntToFloat" and other[0].args[0] is SPFs and ge1 is False:
                return cand, None
        return None, "position is %s with now >= 1.0 %s; documented samples_per_frame if now >= 1.0 else (samples_per_frame as f64 * now) as usize" % (tm.show(cand), ge1)
    st = mixer_state(w)
    rs = w.run(prog.fn(prog.fn_path("rustzx_core", "ZXMixer::process")), [Ref(("h", "mix"), (), True), tm.sym("now", 64)], genv={}, state=st)
    key = "T-GUARD/ZXMixer::process"
    npush = 0
    forms = set()
    for r in rs:
        if r.outcome not in ("return", "cut"):
            chk.fail(key + "/paths", "%s %s" % (r.outcome, r.detail))
            continue
        pushes = [e for e in r.trace if e.path.endswith("push_back")]
        gens = [e for e in r.trace if e.path == GEN]
        full = c04.cc_decide(r, tm.cmp("ule", SPFs, QLEN))
        if pushes:
            npush += 1
            chk.check(full is False, key + "/guard", "samples are queued although the queue already holds a frame (len >= samples_per_frame: %s)" % full)
            POS, why = position(r)
            if POS is None:
                chk.fail("T-GUARD/ZXMixer::sample_count_for_frame_fraction", "frame position: %s" % why)
                continue
            forms.add("clamp" if POS is SPFs else "scale")
            adv = c04.cc_decide(r, tm.cmp("ult", LAST, POS))
            chk.check(adv is True, key + "/advance", "samples are generated although the frame position did not advance")
            chk.check(len(gens) == len(pushes), key + "/one-sample-per-push", "%d samples generated for %d pushes" % (len(gens), len(pushes)))
            # loop count is POS - LAST: the Range the loop iterates
            cnt = [c for c in r.pc if c[0] in ("eq", "ne") and isinstance(c[1], T) and c[1].op == "ult" and c[1].args[1] is tm.binop("sub", POS, LAST)]
            chk.check(bool(cnt), key + "/count", "the number of generated samples is not position(now) - position(last)")
            lp = r.store[("h", "mix")].fields[fi("last_pos")]
            chk.check(lp is POS, key + "/position", "the position is not advanced to position(now): %s" % (lp,))
        elif r.outcome == "return":
            if full is True:
                chk.check(not gens and r.store[("h", "mix")].fields[fi("last_pos")] is LAST, key + "/full-inert", "a full queue still consumes generator state")
            else:
                # the only other reason to queue nothing is that the frame position has not advanced past the last one
                compared = any(c[0] in ("eq", "ne") and isinstance(c[1], T) and LAST in tm.subterms(c[1]) for c in r.pc) if hasattr(tm, "subterms") else \
                    any(c[0] in ("eq", "ne") and isinstance(c[1], T) and "mix.last_pos" in tm.syms(c[1]) for c in r.pc)
                chk.check(compared, key + "/early-exit",
                          "process returns without queueing samples although the queue is not full and without comparing the frame position with the last one (%s): those samples are later padded with a stale value" % (
                              [tm.show(c[1])[:70] for c in r.pc if c[0] in ("eq", "ne") and isinstance(c[1], T)][-2:],))
    chk.check(npush >= 1, key + "/explored", "no path of process queues a sample")
    chk.check(forms == {"clamp", "scale"}, "T-GUARD/ZXMixer::sample_count_for_frame_fraction",
              "the frame position takes the forms %s; documented samples_per_frame when now >= 1.0, else (samples_per_frame as f64 * now) as usize" % sorted(forms))
    # new_frame
    w = walker(opaque=[SPF])
    base3 = w.effect_hook
    w.effect_hook = lambda w_, st, path, a, d, wh: EffectResult(tm.sym("SPF", 64), havoc=False) if path == SPF else base3(w_, st, path, a, d, wh)
    st = mixer_state(w)
    rs = w.run(prog.fn(prog.fn_path("rustzx_core", "ZXMixer::new_frame")), [Ref(("h", "mix"), (), True)], genv={}, state=st)
    key = "T-GUARD/ZXMixer::new_frame"
    seen = set()
    for r in rs:
        if r.outcome not in ("return", "cut"):
            chk.fail(key + "/paths", "%s %s" % (r.outcome, r.detail))
            continue
        pushes = [e for e in r.trace if e.path.endswith("push_back")]
        resizes = [e for e in r.trace if e.path.endswith("VecDeque::<T, A>::resize")]
        short = c04.cc_decide(r, tm.cmp("ult", QLEN, SPFs))
        if pushes:
            seen.add("pad")
            chk.check(short is True, key + "/guard", "padding is queued although the queue already holds a frame")
            chk.check(all(getattr(e.args[1], "name", None) == "mix.last_sample" for e in pushes), key + "/pad-value", "padding is not the last generated sample")
            rng = [c for c in r.pc if c[0] in ("eq", "ne") and isinstance(c[1], T) and c[1].op == "ult" and c[1].args[1] is SPFs]
            chk.check(bool(rng), key + "/pad-range", "padding does not run from the current length up to exactly samples_per_frame")
        if resizes:
            # the same padding as one call: grow the queue to exactly one frame with the last sample (the guard
            # len < samples_per_frame makes it a growth, never a truncation)
            seen.add("pad")
            tgt = resizes[0].args[1]
            # either under the guard len < samples_per_frame (target exactly one frame), or unguarded with the target
            # max(len, samples_per_frame): a growth to one frame when short, the identity otherwise (never a truncation)
            as_max = short is not True and is_umax(tgt, QLEN, SPFs)
            chk.check(short is True or as_max, key + "/guard", "the queue is resized although it already holds a frame")
            chk.check(len(resizes) == 1 and (tgt is SPFs if short is True else as_max), key + "/pad-range",
                      "the queue is not resized to exactly samples_per_frame: %s" % (tgt,))
            chk.check(all(getattr(e.args[2], "name", None) == "mix.last_sample" for e in resizes), key + "/pad-value", "padding is not the last generated sample")
        if r.outcome == "return":
            seen.add("done")
            lp = r.store[("h", "mix")].fields[fi("last_pos")]
            chk.check(isinstance(lp, T) and lp.is_const() and lp.val == 0, key + "/reset", "new_frame does not reset the frame position: %s" % (lp,))
    chk.check(seen == {"pad", "done"}, key + "/cases", "cases %s" % seen)
    # every push site in the crate is one of the two judged above
    push_fns = set()
    for fn in prog.local_fns():
        for b in fn.body["blocks"]:
            t = b["t"]
            if t["k"] == "call" and "path" in t["f"] and "VecDeque" in (t["f"].get("resolved") or {}).get("path", t["f"]["path"]) and \
                    any(k_ in t["f"]["path"] for k_ in ("push", "resize", "extend", "append", "insert")):
                push_fns.add(fn.path.split("::")[-1])
    chk.check(push_fns == {"process", "new_frame"}, "T-GUARD/ZXMixer/push-sites", "the audio queue grows in %s; judged: process, new_frame" % sorted(push_fns))
    # beeper levels
    BP = prog.adt_path("rustzx_core", "ZXBeeper")
    GS = [p for p in prog.fns if p.startswith("<rustzx_core::") and "ZXBeeper" in p and p.endswith("::gen_sample")]
    if len(GS) == 1:
        for ear in (0, 1):
            for mic in (0, 1):
                w2 = Walker(prog)
                st2 = w2.new_state()
                b = w2.materialise(SymObj("bp", ("adt", BP, ())), st2)
                b = b.with_field(prog.field_index(BP, "ear"), K(ear, 1)).with_field(prog.field_index(BP, "mic"), K(mic, 1))
                st2.store[("h", "bp")] = b
                rs2 = w2.run(prog.fn(GS[0]), [Ref(("h", "bp"), (), True)], genv={}, state=st2)
                v = rs2[0].ret.fields[0] if len(rs2) == 1 and rs2[0].outcome == "return" and isinstance(rs2[0].ret, Agg) else None
                val = fold_float(v)
                want = 0.5 * ear + 0.1 * mic
                chk.check(val is not None and abs(val - want) < 1e-12 and rs2[0].ret.fields[1] is v, "T-TABLE/ZXBeeper::gen_sample/%d%d" % (ear, mic),
                          "beeper level for speaker=%d mic=%d is %s; documented %.1f on both channels" % (ear, mic, val, want))
                chk.count("beeper-rows")
    else:
        chk.undecided_("anchor/ZXBeeper::gen_sample", "%s" % GS)
    gen_sample_rule(chk, prog, MIX, GS)
    # writers / consumers
    short_ = lambda p: p.split("::")[-1]
    names_ = cc.Names(prog)
    got = cc.effective_writers(prog, cg, fa, names_, MIX, "last_sample", {"gen_sample"})
    chk.check(got == {"gen_sample"}, "T-WRITERS/ZXMixer.last_sample", "last_sample is written by %s" % sorted(got))
    got = cc.effective_writers(prog, cg, fa, names_, MIX, "last_pos", {"process", "new_frame"})
    chk.check(got == {"process", "new_frame"}, "T-WRITERS/ZXMixer.last_pos", "last_pos is written by %s" % sorted(got))
    callers = set(short_(s.fn.path) for s in cg.callers_of(prog.fn_path("rustzx_core", "ZXMixer::pop")))
    chk.check(callers == {"next_audio_sample"}, "T-WRITERS/ZXMixer::pop/callers", "the queue is drained from %s" % sorted(callers))
    callers = set(short_(s.fn.path) for s in cg.callers_of(prog.fn_path("rustzx_core", "ZXMixer::process")))
    chk.check(callers == {"wait_internal"}, "T-WRITERS/ZXMixer::process/callers", "the mixer is advanced from %s" % sorted(callers))
    # frame position handed to the mixer: (frame_clocks + clk) / clocks_frame clamped to 1.0, whatever helper computes it
    WI = names.bus("wait_internal")
    MP = prog.fn_path("rustzx_core", "ZXMixer::process")
    opaque = {MP, names.ctl("new_frame"), prog.fn_path("rustzx_core", "ZXScreen::<FB>::process_clocks")}
    opaque |= set(p for p in prog.fns if p.endswith("TapeImpl>::process_clocks") and "ZXTape<" in p)
    for m in names.machine_variants():
        w3 = Walker(prog)
        w3.opaque_paths |= opaque
        w3.effect_hook = lambda w_, st_, path, a_, d_, wh_: EffectResult(None, havoc=False)
        st3 = cc.controller_state(w3, prog, names, m)
        clk = tm.sym("clk", 64)
        rs3 = w3.run(prog.fn(WI), [Ref(cc.CTL, (), True), clk], genv=cc.GENV, state=st3)
        key = "T-TABLE/ZXController::frame_pos/%s" % m
        if not rs3 or any(r.outcome != "return" for r in rs3):
            chk.fail(key, "wait_internal has non-returning paths: %s" % [(r.outcome, r.detail) for r in rs3 if r.outcome != "return"][:2])
            continue
        frame = {"Sinclair48K": 69888.0, "Sinclair128K": 70908.0}[m]
        now = tm.binop("add", tm.sym("FC", 64), clk)
        poss = []
        ok = True
        for r in rs3:
            ev = [e for e in r.trace if e.path == MP]
            if len(ev) != 1:
                ok = False
                poss.append("%d calls" % len(ev))
                continue
            x = ev[0].args[1]
            # a path taken only when an int-to-float quotient by a finite non-zero constant is NaN does not exist
            nan = False
            for c in r.pc:
                if c[0] == "ne" and isinstance(c[1], T) and c[1].op == "app:fNe" and c[1].args[0] is c[1].args[1]:
                    q = c[1].args[0]
                    if q.op == "app:fDiv" and q.args[0].op == "app:IntToFloat" and fconst(q.args[1]) not in (None, 0.0) and fconst(q.args[1]) == fconst(q.args[1]):
                        nan = True
            if nan:
                continue
            poss.append(x)
            if isinstance(x, T) and x.op.startswith("app:") and "min" in x.op and len(x.args) == 2 and 1.0 in [fconst(a) for a in x.args]:
                # f64::min(val, 1.0) in one expression
                x = [a for a in x.args if fconst(a) != 1.0][0]
                clamp = None
            else:
                # the clamp is a branch: which side of `val ? 1.0` is this path on
                clamp = None
                for c in r.pc:
                    if c[0] in ("eq", "ne") and isinstance(c[1], T) and c[1].op in ("app:fGt", "app:fGe", "app:fLt", "app:fLe"):
                        a0, a1 = c[1].args
                        truth = (c[0] == "ne")
                        if fconst(a1) == 1.0 and fconst(a0) is None:
                            above = truth if c[1].op in ("app:fGt", "app:fGe") else not truth
                        elif fconst(a0) == 1.0 and fconst(a1) is None:
                            above = truth if c[1].op in ("app:fLt", "app:fLe") else not truth
                        else:
                            continue
                        clamp = above
                if clamp is None:
                    ok = False
                    poss.append("no comparison with 1.0 on the path")
                    continue
                if clamp != (fconst(x) == 1.0):
                    ok = False
                    poss.append("position %s although val %s 1.0" % (tm.show(x), ">" if clamp else "<="))
                    continue
            if fconst(x) == 1.0:
                continue
            ok = ok and isinstance(x, T) and x.op == "app:fDiv" and x.args[0].op == "app:IntToFloat" and \
                tm.equiv(x.args[0].args[0], now) is True and fconst(x.args[1]) == frame
        forms = set("1.0" if fconst(x) == 1.0 else "div" for x in poss if isinstance(x, T))
        chk.check(ok and (forms == {"1.0", "div"} or forms == {"div"}), key,
                  "the frame position handed to the mixer is not min((frame_clocks + clk) / clocks_frame, 1.0): %s" % [tm.show(x) if isinstance(x, T) else x for x in poss][:4])
    chk.floor("beeper-rows", 4)
    chk.sample({"samples_per_frame": "sample_rate / 50", "push_sites": sorted(push_fns)})
    # which bits of a ULA port write reach the beeper: the ULA-write leaf of C07's decode walk (speaker = bit 4, MIC =
    # bit 3 of the byte written, on every write_io path that reaches the ULA, and every even port does reach it)
    from . import c07
    from zx.report import FilteredCheck
    chk.rule("T-BITS (shared with C07)", "on every write_io path reaching the ULA: speaker level = bit 4, MIC level = bit 3 of the byte written")
    fc = FilteredCheck(chk, lambda k: (k.startswith("T-BITS/") and (k.endswith("/speaker") or k.endswith("/mic"))) or
                       k.startswith("T-TABLE/ZXController::write_io"), "c07")
    c07._KB.clear()
    c07._KB["prog"], c07._KB["names"] = prog, names
    for m in names.machine_variants():
        c07.decode(fc, prog, names, m, "write_io")
    chk.check(fc.forwarded >= 8, "T-BITS/ZXController::write_io/beeper-paths", "only %d ULA write obligations were judged" % fc.forwarded)
    # the resampler's phase stays in [0,1): a necessary condition of 'every sample is finite and bounded'
    from . import floatinv
    chk.rule("T-INV/float", "interval analysis of AymPrecise::process: phase accumulator in [0,1) at every interpolation use and at return, for every step up to clock/(8000*64)")
    floatinv.phase_accumulator(chk, prog)
    return chk.finish(EXPL)


def gen_sample_rule(chk, prog, MIX, beeper_gs):
    """ZXMixer::gen_sample as a term over the device samples: for every (use_beeper, use_ay) the queued sample is, per
    channel, the sum of exactly the enabled devices' samples of that channel in which every device term passes through
    exactly one multiplication by the master volume (the volume bounds the output; volume 0 is silence), narrowed to
    f32; the same value is remembered as last_sample (the padding value)."""
    chk.rule("T-TERM", "ZXMixer::gen_sample: per channel, sum of the enabled devices, each term scaled once by master_volume; last_sample = result")
    GEN = prog.fn_path("rustzx_core", "ZXMixer::gen_sample")
    fi = lambda n: prog.field_index(MIX, n)
    AYGS = [p for p in prog.fns if p.startswith("<rustzx_core::") and "ZXAyChip" in p and p.endswith("::gen_sample")]
    if len(beeper_gs) != 1 or len(AYGS) != 1:
        chk.undecided_("anchor/ZXMixer::gen_sample/devices", "beeper %s ay %s" % (beeper_gs, AYGS))
        return
    SS = None
    for a in prog.adts:
        if a.endswith("::SoundSample"):
            SS = a
    src = {beeper_gs[0]: ("B.l", "B.r"), AYGS[0]: ("A.l", "A.r")}
    VOL = tm.sym("mix.master_volume", 64)

    def leaves(t, nmul, out, bad):
        """collect (source symbol, number of volume multiplications on the way) below sums / casts"""
        if not isinstance(t, T):
            bad.append(repr(t))
            return
        if t.op.startswith("app:FloatToFloat") or t.op.startswith("app:FloatCast") or t.op.startswith("app:fcast"):
            return leaves(t.args[0], nmul, out, bad)
        if t.op == "app:fAdd":
            for a in t.args:
                leaves(a, nmul, out, bad)
            return
        if t.op == "app:fMul" and VOL in t.args and len(t.args) == 2:
            other = t.args[1] if t.args[0] is VOL else t.args[0]
            return leaves(other, nmul + 1, out, bad)
        if t.op == "sym":
            out.append((t.args[0], nmul))
            return
        c = fconst(t)
        if c == 0.0:
            return
        bad.append(tm.show(t)[:80])

    for ub in (0, 1):
        for ua in (0, 1):
            w = Walker(prog)
            w.opaque_paths |= set(src)

            def hook(w_, st, path, a, d, wh):
                if path in src:
                    l, r = src[path]
                    f = [tm.sym(l, 64), tm.sym(r, 64)]
                    return EffectResult(Agg(("adt", SS), 0, f), havoc=False)
                return None
            w.effect_hook = hook
            st = w.new_state()
            mx = w.materialise(SymObj("mix", ("adt", MIX, ())), st)
            mx = mx.with_field(fi("use_beeper"), K(ub, 1)).with_field(fi("use_ay"), K(ua, 1))
            st.store[("h", "mix")] = mx
            rs = w.run(prog.fn(GEN), [Ref(("h", "mix"), (), True)], genv={}, state=st)
            key = "T-TERM/ZXMixer::gen_sample/beeper=%d,ay=%d" % (ub, ua)
            if len(rs) != 1 or rs[0].outcome != "return" or not isinstance(rs[0].ret, Agg):
                chk.fail(key + "/paths", "gen_sample does not take one course per device configuration: %s" % [(r.outcome, r.detail) for r in rs][:3])
                continue
            r = rs[0]
            called = set(e.path for e in r.trace if e.path in src)
            want_called = set(p for p, on in ((beeper_gs[0], ub), (AYGS[0], ua)) if on)
            chk.check(called == want_called, key + "/devices", "devices sampled: %s; enabled: %s" % (
                sorted(x.split("::")[-2] for x in called), sorted(x.split("::")[-2] for x in want_called)))
            for ch, idx in (("left", 0), ("right", 1)):
                out, bad = [], []
                leaves(r.ret.fields[idx], 0, out, bad)
                want = sorted(([("B.l", "B.r")[idx]] if ub else []) + ([("A.l", "A.r")[idx]] if ua else []))
                ok = not bad and sorted(n for n, _ in out) == want and all(k == 1 for _, k in out)
                chk.check(ok, key + "/" + ch,
                          "%s channel is %s: expected the sum of %s with every term multiplied once by the master volume (terms seen: %s%s)" % (
                              ch, tm.show(r.ret.fields[idx])[:160], want or "nothing", out, "; other: %s" % bad if bad else ""))
            ls = r.store[("h", "mix")].fields[fi("last_sample")]
            chk.check(isinstance(ls, Agg) and all(ls.fields[i] is r.ret.fields[i] for i in (0, 1)), key + "/last-sample",
                      "the remembered last sample (frame padding value) is not the sample returned")
            chk.count("gen-sample-configs")
    chk.floor("gen-sample-configs", 4)


def fold_float(t):
    """value of a constant float expression built from fAdd of constants"""
    if t is None:
        return None
    c = fconst(t)
    if c is not None:
        return c
    if isinstance(t, T) and t.op == "app:fAdd":
        a, b = fold_float(t.args[0]), fold_float(t.args[1])
        return None if a is None or b is None else a + b
    return None
