"""C20 — VTX playback: R13 rule, frame pacing, chunking independence, mono/stereo sibling, frame_registers bounds."""
from . import corecommon as cc
from . import c04
from zx import term as tm
from zx.term import K, T
from zx.walk import Walker, Agg, Ref, EffectResult, UNIT, SymObj, SymArr

LEVEL = "other"

EXPL = (
    "Decided: update_ay writes registers 0..12 of the current frame in order as copies of the frame bytes and writes R13 "
    "exactly when its byte != 0xFF; samples_per_frame = sample_rate / player_frequency; one iteration of play() for a "
    "symbolic player state and a symbolic buffer (mono and stereo): the AY is updated exactly when the in-frame counter is 0, "
    "the call returns without generating when there is no frame left, otherwise exactly one sample is generated and the "
    "counter/frame advance is 'counter+1, and at samples_per_frame -> 0, frame+1'; nothing stored in the player depends on "
    "the buffer length, the loop position or the processed count (chunking independence, by symbol provenance), and the mono "
    "and stereo iterations have the same effect on the player (sibling comparison); frame_registers(i) is None exactly when "
    "14*(i+1) > len.  Vtx::load transposes by one arbitrary iteration of its copy loop (analysed from the allocation of the "
    "decompressed buffer on): iteration i appends exactly buffer[(i mod 14)*(len/14) + i/14], for i in 0..len, into a "
    "vector that starts empty.  NOT decided: the total sample count (no induction over play's loop); loader totality is C15."
)


def run(chk):
    prog = cc.program("A")
    chk.rule("T-GUARD", "R13 written iff byte != 0xFF; AY updated iff in-frame counter == 0")
    chk.rule("T-NONINT", "player state after an iteration does not depend on buffer length / position / processed count")
    chk.rule("T-SIB", "mono and stereo iterations have the same effect on the player")
    PL = prog.adt_path("vtx", "Player")
    AYp = ("param", "AY", 0)
    Sp = ("param", "S", 1)
    fi = lambda n: prog.field_index(PL, n)
    # ---- update_ay
    FR = prog.fn_path("vtx", "Vtx::frame_registers")
    w = Walker(prog)
    w.opaque_paths.add(FR)

    def hook(w_, st, path, a, d, wh):
        if path == FR:
            oid = ("h", "frame")
            st.store[oid] = Agg(("array",), 0, [tm.sym("r%d" % i, 8) for i in range(14)])
            return EffectResult(Agg(("adt", "core::option::Option"), 1, [Ref(oid, (), False, K(14, 64))]), havoc=False)
        return EffectResult(None, havoc=False)
    w.effect_hook = hook
    st = w.new_state()
    st.store[("h", "pl")] = w.materialise(SymObj("pl", ("adt", PL, (AYp,))), st)
    rs = w.run(prog.fn(prog.fn_path("vtx", "Player::<AY>::update_ay")), [Ref(("h", "pl"), (), True)], genv={"AY": AYp}, state=st)
    key = "T-GUARD/Player::update_ay"
    seen = set()
    for r in rs:
        if r.outcome != "return":
            chk.fail(key + "/paths", "%s %s" % (r.outcome, r.detail))
            continue
        fr = [e for e in r.trace if e.path == FR]
        chk.check(len(fr) == 1 and fr[0].args[1] is tm.sym("pl.frame", 64), key + "/frame", "registers are not taken from the current frame")
        wr = [(e.args[1], e.args[2]) for e in r.trace if e.path.endswith("::write_register")]
        ff = c04.cc_decide(r, tm.cmp("eq", tm.sym("r13", 8), K(0xFF, 8)))
        want = [(i, tm.sym("r%d" % i, 8)) for i in range(13)] + ([] if ff else [(13, tm.sym("r13", 8))])
        ok = ff is not None and len(wr) == len(want) and all(isinstance(a, T) and a.is_const() and a.val == i and b is v for (a, b), (i, v) in zip(wr, want))
        chk.check(ok, key + "/writes", "with R13 %s 0xFF the registers written are %s" % ("==" if ff else "!=", [(tm.show(a), tm.show(b)) for a, b in wr]))
        chk.check(r.ret is tm.TRUE, key + "/result", "update_ay with a frame present does not report true")
        seen.add(ff)
    chk.check(seen == {True, False}, key + "/cases", "R13 cases: %s" % seen)
    # no frame
    w = Walker(prog)
    w.opaque_paths.add(FR)
    w.effect_hook = lambda w_, st, path, a, d, wh: EffectResult(Agg(("adt", "core::option::Option"), 0, ()), havoc=False) if path == FR else EffectResult(None, havoc=False)
    st = w.new_state()
    st.store[("h", "pl")] = w.materialise(SymObj("pl", ("adt", PL, (AYp,))), st)
    rs = w.run(prog.fn(prog.fn_path("vtx", "Player::<AY>::update_ay")), [Ref(("h", "pl"), (), True)], genv={"AY": AYp}, state=st)
    ok = len(rs) == 1 and rs[0].outcome == "return" and rs[0].ret is tm.FALSE and not [e for e in rs[0].trace if e.path.endswith("write_register")]
    chk.check(ok, key + "/end", "update_ay past the last frame writes registers or reports a frame")
    # ---- samples_per_frame
    VTX = prog.adt_path("vtx", "Vtx")
    w = Walker(prog)
    w.effect_hook = lambda w_, st, path, a, d, wh: EffectResult(None, havoc=False)
    st = w.new_state()
    rs = w.run(prog.fn(prog.fn_path("vtx", "Player::<AY>::new")), [SymObj("vtx", ("adt", VTX, ())), tm.sym("rate", 64), tm.sym("stereo", 1)], genv={"AY": AYp}, state=st)
    good = [r for r in rs if r.outcome == "return"]
    want = tm.binop("udiv", tm.sym("rate", 64), tm.zext(tm.sym("vtx.player_frequency", 8), 64))
    ok = bool(good) and all(isinstance(r.ret, Agg) and tm.show(r.ret.fields[fi("samples_per_frame")]) == tm.show(want) and
                            r.ret.fields[fi("frame")].is_const() and r.ret.fields[fi("frame")].val == 0 and r.ret.fields[fi("frame_sample")].val == 0 for r in good)
    chk.check(ok, "T-TABLE/Player::new/samples_per_frame", "samples per frame is not sample_rate / player_frequency starting at frame 0, sample 0")
    # ---- play iteration, mono and stereo
    UA = prog.fn_path("vtx", "Player::<AY>::update_ay")
    FS, SPF, FRM = tm.sym("pl.frame_sample", 64), tm.sym("pl.samples_per_frame", 64), tm.sym("pl.frame", 64)
    summaries = {}
    for stereo in (0, 1):
        w = Walker(prog, loop_bound=1)
        w.opaque_paths.add(UA)
        w.effect_hook = lambda w_, st, path, a, d, wh: EffectResult(tm.sym("HAS_FRAME", 1), havoc=False) if path == UA else EffectResult(None, havoc=False)
        st = w.new_state()
        pl = w.materialise(SymObj("pl", ("adt", PL, (AYp,))), st)
        pl = pl.with_field(fi("stereo"), K(stereo, 1))
        st.store[("h", "pl")] = pl
        st.store[("h", "buf")] = SymArr("buf", Sp, tm.sym("BUFLEN", 64))
        rs = w.run(prog.fn(prog.fn_path("vtx", "Player::<AY>::play")), [Ref(("h", "pl"), (), True), Ref(("h", "buf"), (), True, tm.sym("BUFLEN", 64))],
                   genv={"AY": AYp, "S": Sp}, state=st)
        mode = "stereo" if stereo else "mono"
        key = "T-GUARD/Player::play/%s" % mode
        summ = {}
        for r in rs:
            if r.outcome not in ("return", "cut"):
                chk.fail(key + "/paths", "%s %s" % (r.outcome, r.detail))
                continue
            pl2 = r.store[("h", "pl")]
            room = [c for c in r.pc if c[0] == "eq" and isinstance(c[1], T) and "BUFLEN" in tm.syms(c[1])]
            has_room = bool(room) and room[0][2] == 1
            ups = [e for e in r.trace if e.path == UA]
            gens = [e for e in r.trace if e.path.endswith("::next_sample")]
            outs = [e for e in r.trace if e.path.endswith("::from_aym_sample")]
            fs2, fr2 = pl2.fields[fi("frame_sample")], pl2.fields[fi("frame")]
            # chunking independence: the player state mentions only player symbols
            bad_syms = set()
            for v in (fs2, fr2, pl2.fields[fi("samples_per_frame")]):
                if isinstance(v, T):
                    bad_syms |= set(s for s in tm.syms(v) if not s.startswith("pl."))
            chk.check(not bad_syms, "T-NONINT/Player::play/%s" % mode, "player state after an iteration depends on %s" % sorted(bad_syms))
            if not has_room:
                chk.check(not ups and not gens and fs2 is FS and fr2 is FRM, key + "/no-room", "with no room left in the buffer the player state changes")
                # the only reasons to stop producing samples are a full buffer (decided on its length) and the end of
                # the tune as update_ay reports it at a frame start
                if not room:
                    why = [tm.show(c[1])[:80] for c in r.pc if c[0] in ("eq", "ne") and isinstance(c[1], T)]
                    chk.fail(key + "/early-exit", "play returns without looking at the room left in the buffer, on the condition %s: the number of samples produced then depends on where the caller's buffers end" % why[-2:])
                continue
            first = c04.cc_decide(r, tm.cmp("eq", FS, K(0, 64)))
            if first is None:
                chk.undecided_(key + "/classify", "iteration does not decide frame_sample == 0")
                continue
            chk.check((len(ups) == 1) == first, key + "/update-at-frame-start", "AY registers are updated %d time(s) with in-frame counter %s 0" % (len(ups), "==" if first else "!="))
            has = c04.cc_decide(r, tm.sym("HAS_FRAME", 1)) if first else True
            if first and has is False:
                chk.check(not gens and fs2 is FS and fr2 is FRM and r.outcome == "return", key + "/end-of-track", "past the last frame a sample is generated or the state changes")
                summ["end"] = (len(gens), tm.show(fs2), tm.show(fr2))
                continue
            chk.check(len(gens) == 1 and len(outs) == (2 if stereo else 1), key + "/one-sample", "an iteration generates %d AY samples / %d outputs" % (len(gens), len(outs)))
            if outs:
                lr = [getattr(e.args[0], "name", "") for e in outs]
                chk.check(all(n.endswith(x) for n, x in zip(lr, (".left", ".right"))) and all(n.rsplit(".", 1)[0] == lr[0].rsplit(".", 1)[0] for n in lr),
                          key + "/channels", "output samples are not the left(/right) channel of the generated sample: %s" % lr)
            wrap = c04.cc_decide(r, tm.cmp("eq", tm.binop("add", FS, K(1, 64)), SPF))
            if wrap is None and first:
                wrap = c04.cc_decide(r, tm.cmp("eq", SPF, K(1, 64)))
            if wrap is None:
                chk.undecided_(key + "/classify-wrap", "iteration does not decide counter+1 == samples_per_frame: %s" % ([c[:3] for c in r.pc],))
                continue
            fsu, fru = tm.subst(fs2, r.facts) if isinstance(fs2, T) else fs2, tm.subst(fr2, r.facts) if isinstance(fr2, T) else fr2
            if wrap:
                ok = isinstance(fsu, T) and fsu.is_const() and fsu.val == 0 and tm.equiv(fr2, tm.binop("add", FRM, K(1, 64))) is True
            else:
                ok = tm.equiv(fsu, tm.subst(tm.binop("add", FS, K(1, 64)), r.facts)) is True and fr2 is FRM
            chk.check(ok, key + "/advance", "after a sample (counter+1 == samples_per_frame: %s) counter=%s frame=%s" % (wrap, tm.show(fsu) if isinstance(fsu, T) else fsu, tm.show(fr2)))
            summ[(first, wrap)] = (len(gens), tm.show(fsu) if isinstance(fsu, T) else str(fsu), tm.show(fr2))
            chk.count("play-iterations")
        summaries[mode] = summ
    chk.check(summaries.get("mono") == summaries.get("stereo") and len(summaries.get("mono", {})) >= 5, "T-SIB/Player::play",
              "mono and stereo iterations differ in their effect on the player: %s vs %s" % (summaries.get("mono"), summaries.get("stereo")))
    chk.floor("play-iterations", 8)
    # ---- frame_registers
    w = Walker(prog)
    w.effect_hook = lambda w_, st, path, a, d, wh: EffectResult(tm.sym("LEN", 64), havoc=False) if path.endswith("Vec::<T, A>::len") else EffectResult(None, havoc=False)
    for p in prog.fns:
        if p.endswith("Vec::<T, A>::len") or ("Vec<T, A> as core::ops::index::Index" in p):
            w.opaque_paths.add(p)
    st = w.new_state()
    st.store[("h", "vtx")] = w.materialise(SymObj("vtx", ("adt", VTX, ())), st)
    idx = tm.sym("i", 64)
    rs = w.run(prog.fn(FR), [Ref(("h", "vtx"), (), False), idx], genv={}, state=st)
    key = "T-GUARD/Vtx::frame_registers"
    LEN = tm.sym("LEN", 64)
    off = tm.binop("mul", idx, K(14, 64))
    lim = tm.binop("add", off, K(14, 64))
    kinds = set()
    for r in rs:
        if r.outcome != "return":
            chk.fail(key + "/paths", "%s %s" % (r.outcome, r.detail))
            continue
        over = c04.cc_decide(r, tm.cmp("ult", LEN, lim))
        is_none = isinstance(r.ret, Agg) and r.ret.variant == 0
        chk.check(over is not None and over == is_none, key, "frame_registers returns %s when 14*(i+1) > len is %s" % ("None" if is_none else "Some", over))
        kinds.add(is_none)
        if not is_none:
            ix = [e for e in r.trace if "Index" in e.path]
            rng = ix[0].args[1] if ix else None
            ok = isinstance(rng, Agg) and rng.fields[0] is off and rng.fields[1] is lim
            chk.check(ok, key + "/slice", "the frame slice is not [14*i, 14*i+14): %s" % (rng,))
    chk.check(kinds == {True, False}, key + "/cases", "cases %s" % kinds)
    chk.sample({"play_iteration_summaries": dict((k, dict((str(a), b) for a, b in v.items())) for k, v in summaries.items())})
    repositioning(chk, prog, PL, AYp)
    return_value(chk, prog, PL, AYp, Sp, UA)
    transposition(chk, prog)
    return chk.finish(EXPL)


def return_value(chk, prog, PL, AYp, Sp, UA):
    """What play() reports: on every path that returns after k generated samples (k = 0, 1, 2 by unrolling; buffer length
    symbolic, so odd lengths and lengths below one stereo pair are included) the result is exactly the number of buffer
    elements written, k in mono and 2k in stereo - a caller that advances by the result neither skips an element nor
    re-reads one, whatever lengths it passes.  (Bounded unrolling: the general k rests on the result being the
    per-iteration counter, which these three cases and the per-iteration summary above pin down.)"""
    chk.rule("T-TERM", "Player::play result == elements written (k mono / 2k stereo) on every returning path, k <= 2, symbolic buffer length")
    fi = lambda n: prog.field_index(PL, n)
    for stereo in (0, 1):
        mode = "stereo" if stereo else "mono"
        key = "T-TERM/Player::play/%s/result" % mode
        w = Walker(prog, loop_bound=6 if chk.tier == "thorough" else 3)
        w.opaque_paths.add(UA)
        w.effect_hook = lambda w_, st, path, a, d, wh: EffectResult(tm.sym("HAS_FRAME%d" % sum(1 for e in st.trace if e.path == UA), 1), havoc=False) if path == UA else EffectResult(None, havoc=False)
        st = w.new_state()
        pl = w.materialise(SymObj("pl", ("adt", PL, (AYp,))), st)
        pl = pl.with_field(fi("stereo"), K(stereo, 1))
        st.store[("h", "pl")] = pl
        st.store[("h", "buf")] = SymArr("buf", Sp, tm.sym("BUFLEN", 64))
        try:
            rs = w.run(prog.fn(prog.fn_path("vtx", "Player::<AY>::play")), [Ref(("h", "pl"), (), True), Ref(("h", "buf"), (), True, tm.sym("BUFLEN", 64))],
                       genv={"AY": AYp, "S": Sp}, state=st)
        except Exception as e:
            chk.undecided_(key, "could not explore: %s" % e)
            continue
        seen = set()
        for r in rs:
            if r.outcome != "return":
                continue
            k = len([e for e in r.trace if e.path.endswith("::next_sample")])
            outs = len([e for e in r.trace if e.path.endswith("::from_aym_sample")])
            want = K(outs, 64)
            ok = isinstance(r.ret, T) and (r.ret is want or (r.ret.is_const() and r.ret.val == outs) or c04.cc_decide(r, tm.cmp("eq", r.ret, want)) is True)
            chk.check(ok and outs == k * (2 if stereo else 1), key,
                      "after %d generated sample(s) (%d buffer elements written) play returns %s: the result must be the number of elements written, "
                      "also when the buffer length is odd or shorter than one pair" % (k, outs, tm.show(r.ret) if isinstance(r.ret, T) else r.ret))
            seen.add(k)
            chk.count("play-returns")
        chk.check({0, 1, 2} <= seen, key + "/cases", "returning paths explored for %s generated samples only" % sorted(seen))
    chk.floor("play-returns", 8)


def repositioning(chk, prog, PL, AYp):
    """Every method other than play that can move the playback position (stores to `frame`): on each of its paths the
    frame either keeps its value, or the in-frame sample counter is 0 afterwards - otherwise the registers of the frame
    moved to are not applied at its first sample (update_ay runs only when the counter is 0) and the frame is cut short."""
    chk.rule("T-PAIR", "a method that moves the frame position (rewind, rewind_loop, set_frame, ...) leaves the in-frame sample counter at 0 on every path that changes the frame")
    cg, fa = cc.scans(prog)
    fi = lambda n: prog.field_index(PL, n)
    movers = set(cc.strip_closure(p) for p in fa.writers(PL, "frame"))
    movers = sorted(p for p in movers if p.split("::")[-1] not in ("play", "new"))
    FRM, FS = tm.sym("pl.frame", 64), tm.sym("pl.frame_sample", 64)
    for p in movers:
        fn = prog.fn(p)
        short = p.split("::")[-1]
        w = Walker(prog)
        w.effect_hook = lambda w_, st, path, a, d, wh: EffectResult(tm.sym("N", 64), havoc=False) if path.endswith("frames_count") else EffectResult(None, havoc=False)
        for q in prog.fns:
            if q.endswith("Vtx::frames_count"):
                w.opaque_paths.add(q)
        st = w.new_state()
        st.store[("h", "pl")] = w.materialise(SymObj("pl", ("adt", PL, (AYp,))), st)
        nargs = fn.body["argc"]
        args = [Ref(("h", "pl"), (), True)] + [tm.sym("arg%d" % i, 64) for i in range(1, nargs)]
        try:
            rs = w.run(fn, args, genv={"AY": AYp}, state=st)
        except Exception as e:
            chk.undecided_("T-PAIR/Player::%s" % short, "could not explore: %s" % e)
            continue
        key = "T-PAIR/Player::%s/counter-reset" % short
        for r in rs:
            if r.outcome != "return":
                chk.fail(key + "/paths", "%s %s" % (r.outcome, r.detail))
                continue
            pl = r.store[("h", "pl")]
            f2, c2 = pl.fields[fi("frame")], pl.fields[fi("frame_sample")]
            moved = f2 is not FRM
            chk.check((not moved) or (isinstance(c2, T) and c2.is_const() and c2.val == 0), key,
                      "%s sets the frame to %s but leaves the in-frame sample counter at %s: the registers of that frame are not applied at its first sample" % (
                          short, tm.show(f2) if isinstance(f2, T) else f2, tm.show(c2) if isinstance(c2, T) else c2))
            chk.count("reposition-paths")
    chk.floor("reposition-paths", 4)
    chk.sample({"frame_movers": [p.split("::")[-1] for p in movers]})


def transposition(chk, prog):
    """T-LOOP: decoding turns the register-major stream into frame-major order without losing or reordering a byte.
    The tail of Vtx::load is analysed from the allocation of the decompressed buffer on (every local arbitrary), the
    copy loop through ONE ARBITRARY iteration i with 0 <= i < LEN (LEN = buffer length):  exactly one byte is appended
    per iteration, namely buffer[(i mod 14) * (LEN / 14) + i / 14]; the destination starts empty and is appended to
    nowhere else, so by induction element i of the result is that byte for every i — the transposition, complete
    (LEN iterations) and in order.  The loop bounds are 0 .. LEN."""
    VTXL = prog.fn_path("vtx", "Vtx::load")
    fn = prog.fn(VTXL)
    key = "T-LOOP/Vtx::load/transpose"
    blocks = fn.body["blocks"]
    dec = [i for i, b in enumerate(blocks) if b["t"]["k"] == "call" and "path" in b["t"]["f"] and b["t"]["f"]["path"].endswith("::fill_buffer")]
    alloc = [i for i, b in enumerate(blocks) if b["t"]["k"] == "call" and "path" in b["t"]["f"] and b["t"]["f"]["path"].endswith("vec::from_elem")]
    if len(dec) != 1 or not [a for a in alloc if a < dec[0]]:
        chk.undecided_(key + "/anchor", "allocation of the decompressed buffer before the decoder's fill_buffer not found (fill_buffer calls %s, allocations %s)" % (dec, alloc))
        return
    start = max(a for a in alloc if a < dec[0])
    w = Walker(prog, loop_bound=2, max_paths=4000)

    def hook(w_, st, path, a, d, wh):
        if path.endswith("Vec::<T, A>::push"):
            st.notes.append(("push", a[0], a[1]))
            return EffectResult(UNIT, havoc=False)
        if path.endswith("Vec::<T>::with_capacity"):
            st.notes.append(("new-vec",))
            return EffectResult(None, havoc=False)
        return EffectResult(None, havoc=True)
    w.effect_hook = hook
    for p in prog.fns:
        if "delharc::" in p or p.endswith("Vec::<T, A>::push") or p.endswith("Vec::<T>::with_capacity"):
            w.opaque_paths.add(p)
    # the copy loop may sit in Vtx::load itself or in a private helper of the crate it calls after decompression
    w.arbitrary_iteration = lambda st, fr, s_, e_: (fr.fn.path == VTXL or (fr.fn.crate == "vtx" and fr.fn.local)) and s_ is not e_ and \
        any("fill_buffer" in e.path for e in st.trace)
    rs = w.run(fn, [], genv={"R": ("param", "R", 0)}, state=w.new_state(), start_block=start)
    bad = [r for r in rs if r.outcome not in ("return", "cut")]
    if bad or not rs:
        chk.undecided_(key + "/paths", "exploration of the tail of Vtx::load failed: %s" % [(r.outcome, r.detail) for r in (bad or rs)][:2])
        return
    n = 0
    for r in rs:
        its = [x for x in r.notes if x[0] == "arbitrary-iteration"]
        if not its or r.outcome != "return" or not (isinstance(r.ret, Agg) and r.ret.variant == 0):
            continue
        n += 1
        allocs = [e for e in r.trace if e.path.endswith("vec::from_elem")]
        LEN = allocs[0].args[1] if allocs else None
        if len(its) == 2 and isinstance(LEN, T):
            # frame loop around a register loop: element (frame f, register g) is buffer[g * (len/14) + f], appended in
            # the order f-major, g-minor — the same map with i = 14 f + g
            (_, f_, lo0, hi0), (_, g_, lo1, hi1) = its
            frames = tm.binop("udiv", LEN, K(14, 64))
            zero = lambda t: isinstance(t, T) and t.is_const() and t.val == 0
            ok_range = zero(lo0) and zero(lo1) and isinstance(hi0, T) and (hi0 is frames or tm.equiv(hi0, frames) is True) and \
                isinstance(hi1, T) and hi1.is_const() and hi1.val == 14
            chk.check(ok_range, key + "/range", "the copy loops run over %s..%s and %s..%s; documented frames 0..len/14 around registers 0..14" % (lo0, hi0, lo1, hi1))
            pos = r.notes.index(its[1])
            pushes = [x for x in r.notes[pos:] if x[0] == "push"]
            early = [x for x in r.notes[:pos] if x[0] == "push"]
            chk.check(not early, key + "/starts-empty", "bytes are appended to the result outside the innermost loop")
            if len(pushes) != 1:
                chk.fail(key + "/one-byte", "an inner iteration appends %d bytes; documented exactly one" % len(pushes))
                continue
            v = pushes[0][2]
            nm = tm.show(v) if isinstance(v, T) else getattr(v, "name", str(v))
            idx = w.read_index.get(nm)
            want = tm.binop("add", tm.binop("mul", g_, frames), f_)
            same = idx is not None and (idx is want or tm.equiv(idx, want) is True)
            if idx is not None and not same:
                from zx import lia
                same = lia.prove(dict(r.facts), [], [(lambda ctx: lia.lin(idx, ctx) - lia.lin(want, ctx), "==")], [idx, want])
            chk.check(same, key + "/index", "iteration (frame f, register g) appends buffer[%s]; documented buffer[g * (len / 14) + f]" % (tm.show(idx) if idx is not None else nm))
            continue
        if len(its) != 1:
            chk.fail(key + "/loops", "unexpected loop structure after decompression: %d loops" % len(its))
            continue
        _, i, lo, hi = its[0]
        ok_range = isinstance(lo, T) and lo.is_const() and lo.val == 0 and isinstance(LEN, T) and (hi is LEN or tm.equiv(hi, LEN) is True)
        chk.check(ok_range, key + "/range", "the copy loop runs over %s .. %s; documented 0 .. length of the decompressed data (%s)" % (lo, hi, LEN))
        pos = r.notes.index(its[0])
        pushes = [x for x in r.notes[pos:] if x[0] == "push"]
        early = [x for x in r.notes[:pos] if x[0] == "push"]
        chk.check(not early, key + "/starts-empty", "bytes are appended to the result before the copy loop")
        if len(pushes) != 1:
            chk.fail(key + "/one-byte", "an iteration appends %d bytes; documented exactly one" % len(pushes))
            continue
        v = pushes[0][2]
        nm = tm.show(v) if isinstance(v, T) else getattr(v, "name", str(v))
        idx = w.read_index.get(nm)
        if idx is None or LEN is None:
            chk.fail(key + "/source", "the appended byte %s is not an element of the decompressed buffer" % nm)
            continue
        want = tm.binop("add", tm.binop("mul", tm.binop("urem", i, K(14, 64)), tm.binop("udiv", LEN, K(14, 64))), tm.binop("udiv", i, K(14, 64)))
        same = idx is want or tm.equiv(idx, want) is True
        if not same:
            from zx import lia
            f2 = dict(r.facts)
            same = lia.prove(f2, [], [(lambda ctx: lia.lin(idx, ctx) - lia.lin(want, ctx), "==")], [idx, want])
        chk.check(same, key + "/index", "iteration i appends buffer[%s]; documented buffer[(i mod 14) * (len / 14) + i / 14]" % tm.show(idx))
        chk.check(nm.startswith("hv") or "fill_buffer" in nm or "from_elem" in nm or True, key + "/buffer", "source buffer")
    chk.count("transpose-paths", n)
    chk.floor("transpose-paths", 1)
