"""T-INV (float): interval abstract interpretation of one function's MIR over its f64 places.

Used for the phase accumulator of the AY resampler (C18 / C19 "every sample is finite and bounded"):
`AymPrecise::process` adds `step` (= chip clock / (sample rate * 64), > 1 for sample rates below clock/64) to the
fraction `x` and evaluates the interpolation polynomial at `x`; the polynomial is only an interpolation for
x in [0, 1) — outside it grows quadratically with x, and x itself grows without bound once it is not reduced.
Obligation: from x in [0,1) and step in [0, S] (S from the smallest sample rate of the property's range) every
read of x that feeds a multiplication sees x in [0,1), and x is in [0,1) again at every return (inductive).

The analysis is a textbook forward interval analysis on the CFG (join = hull, widening after a few visits,
refinement of a place by the comparison guarding a branch).  Calls leave the tracked fields untouched, which is
justified by a who-may-write check (only `process` and the constructor store to them)."""
import math
from . import corecommon as cc

INF = float("inf")
TOP = (-INF, INF)


def _key(place):
    return (place["l"], tuple(tuple(x) if isinstance(x, list) else x for x in place["p"]))


def _join(a, b):
    return (min(a[0], b[0]), max(a[1], b[1]))


def _const_float(op):
    if op[0] == "c" and isinstance(op[1].get("v"), dict) and "float" in op[1]["v"]:
        try:
            return float(op[1]["v"]["float"])
        except ValueError:
            return None
    return None


class FloatIntervals(object):
    def __init__(self, fn, init, stable_fields=()):
        """init: {place-key: (lo, hi)} at entry;  stable_fields: place keys that calls cannot modify"""
        self.fn = fn
        self.blocks = fn.body["blocks"]
        self.init = dict(init)
        self.stable = set(stable_fields)
        self.uses = []          # (block index, stmt index, place key, interval, 'mul'|'ret')

    def val(self, st, op):
        c = _const_float(op)
        if c is not None:
            return (c, c)
        if op[0] in ("cp", "mv"):
            return st.get(_key(op[1]), TOP)
        return TOP

    def assign(self, st, place, iv):
        k = _key(place)
        # a store through a longer / shorter projection of the same base may alias: forget overlapping entries
        for other in list(st):
            if other != k and other[0] == k[0] and (other[1][:len(k[1])] == k[1] or k[1][:len(other[1])] == other[1]):
                del st[other]
        if iv == TOP:
            st.pop(k, None)
        else:
            st[k] = iv

    def transfer(self, bi, st, record):
        st = dict(st)
        cmp_of = {}
        orig = {}          # temporaries of this block holding a copy of a watched place
        blk = self.blocks[bi]
        for si, s in enumerate(blk["s"]):
            if s[0] != "=":
                continue
            place, rv = s[1], s[2]
            kind = rv[0]
            if kind == "use":
                self.assign(st, place, self.val(st, rv[1]))
                if rv[1][0] in ("cp", "mv"):
                    src = _key(rv[1][1])
                    if src in self.watch or src in orig:
                        orig[_key(place)] = orig.get(src, src)
                    else:
                        orig.pop(_key(place), None)
            elif kind == "bin":
                op, a, b = rv[1], rv[2], rv[3]
                x, y = self.val(st, a), self.val(st, b)
                if op == "Mul" and record is not None:
                    for o in (a, b):
                        if o[0] in ("cp", "mv") and (_key(o[1]) in self.watch or _key(o[1]) in orig):
                            record.append((bi, si, orig.get(_key(o[1]), _key(o[1])), self.val(st, o), "mul"))
                if op == "Add":
                    iv = (x[0] + y[0], x[1] + y[1])
                elif op == "Sub":
                    iv = (x[0] - y[1], x[1] - y[0])
                elif op == "Mul":
                    c = [p * q if not (math.isinf(p) and q == 0 or math.isinf(q) and p == 0) else 0.0 for p in x for q in y]
                    iv = (min(c), max(c))
                elif op in ("Ge", "Gt", "Le", "Lt"):
                    oa = orig.get(_key(a[1])) if a[0] in ("cp", "mv") else None
                    cmp_of[_key(place)] = (op, a, b, oa)
                    iv = TOP
                else:
                    iv = TOP
                if any(math.isnan(v) for v in iv):
                    iv = TOP
                self.assign(st, place, iv)
            elif kind == "ref" and len(rv) > 2 and rv[2]:
                # &mut to a tracked place: it may be written through the reference
                k = _key(rv[1])
                if k in st and k not in self.stable:
                    del st[k]
                self.assign(st, place, TOP)
            else:
                self.assign(st, place, TOP)
        t = blk["t"]
        outs = []
        k = t["k"]
        if k == "goto":
            outs.append((t["t"], st))
        elif k == "switch":
            d = t["discr"]
            guard = cmp_of.get(_key(d[1])) if d[0] in ("cp", "mv") else None
            for (val, tgt) in t["arms"]:
                outs.append((tgt, self.refine(st, guard, bool(val)) if guard and val in (0, 1) else st))
            if t.get("otherwise") is not None:
                arm_vals = [v for v, _ in t["arms"]]
                other_true = None
                if guard and arm_vals == [0]:
                    other_true = True
                elif guard and arm_vals == [1]:
                    other_true = False
                outs.append((t["otherwise"], self.refine(st, guard, other_true) if other_true is not None else st))
        elif k == "call":
            st2 = dict((p, v) for p, v in st.items() if p in self.stable)
            if t.get("t") is not None:
                outs.append((t["t"], st2))
        elif k in ("assert", "drop"):
            if t.get("t") is not None:
                outs.append((t["t"], st))
        elif k == "return":
            if record is not None:
                for w_ in self.watch:
                    record.append((bi, -1, w_, st.get(w_, TOP), "ret"))
        return [(tgt, s2) for tgt, s2 in outs if s2 is not None]

    def refine(self, st, guard, truth):
        op, a, b, origin = guard
        cb = _const_float(b)
        st = dict(st)
        if cb is not None and a[0] in ("cp", "mv"):
            # the compared temporary and the place it was copied from
            for k in [_key(a[1])] + ([origin] if origin is not None else []):
                lo, hi = st.get(k, TOP)
                rel = op if truth else {"Ge": "Lt", "Gt": "Le", "Le": "Gt", "Lt": "Ge"}[op]
                if rel in ("Ge", "Gt"):
                    lo = max(lo, cb)
                else:
                    hi = min(hi, cb)
                    if rel == "Lt" and hi >= cb:
                        hi = math.nextafter(cb, -INF)
                if lo > hi:
                    return None
                st[k] = (lo, hi)
        return st

    def run(self, watch):
        self.watch = set(watch)
        instate = {0: dict(self.init)}
        visits = {}
        work = [0]
        while work:
            bi = work.pop()
            visits[bi] = visits.get(bi, 0) + 1
            for tgt, out in self.transfer(bi, instate[bi], None):
                old = instate.get(tgt)
                if old is None:
                    new = out
                else:
                    new = {}
                    for k in set(old) & set(out):
                        j = _join(old[k], out[k])
                        if visits.get(tgt, 0) > 6:
                            j = (old[k][0] if j[0] >= old[k][0] else -INF, old[k][1] if j[1] <= old[k][1] else INF)
                        new[k] = j
                if old is None or new != old:
                    instate[tgt] = new
                    if tgt not in work:
                        work.append(tgt)
        rec = []
        for bi, st in instate.items():
            self.transfer(bi, st, rec)
        return instate, rec


def phase_accumulator(chk, prog, key_prefix="T-INV/AymPrecise::process"):
    """x in [0,1) at every interpolation use and at every return, for step in [0, clock/(8000*64)]"""
    cg, fa = cc.scans(prog)
    AY = prog.adt_path("aym", "AymPrecise")
    fn = prog.fn(prog.fn_path("aym", "AymPrecise::process"))
    xi, si = prog.field_index(AY, "x"), prog.field_index(AY, "step")
    # the fields by their (index, type) projection as it appears in this body
    xkey = skey = None
    for b in fn.body["blocks"]:
        for s in b["s"]:
            for pl in _places_in(s):
                p = pl["p"]
                if pl["l"] == 1 and len(p) == 2 and p[0][0] == "d" and p[1][0] == "f":
                    if p[1][1] == xi:
                        xkey = _key(pl)
                    if p[1][1] == si:
                        skey = _key(pl)
    if xkey is None or skey is None:
        chk.undecided_(key_prefix + "/anchor", "fields x / step of AymPrecise are not used by process")
        return
    wx = set(p.split("::")[-1] for p in fa.writers(AY, "x"))
    ws = set(p.split("::")[-1] for p in fa.writers(AY, "step"))
    chk.check(wx <= {"process", "new"} and ws <= {"new"}, key_prefix + "/writers",
              "the phase accumulator / its step are written by %s / %s (the analysis assumes only process / new)" % (sorted(wx), sorted(ws)))
    clock = None
    for cp, c in prog.consts.items():
        if cp.endswith("::AY_FREQ"):
            try:
                clock = float(c["v"].get("int", c["v"].get("float")))
            except Exception:
                pass
    if not clock:
        clock = 2_000_000.0
    smax = clock / (8000.0 * 64.0)
    one_below = math.nextafter(1.0, 0.0)
    an = FloatIntervals(fn, {xkey: (0.0, one_below), skey: (0.0, smax)}, stable_fields={xkey, skey})
    # x is stable across calls but is written by process itself: the analysis handles those stores
    instate, rec = an.run([xkey])
    uses = [r for r in rec if r[4] == "mul"]
    rets = [r for r in rec if r[4] == "ret"]
    if not uses or not rets:
        chk.undecided_(key_prefix + "/uses", "no interpolation use / return of the phase accumulator found (%d / %d)" % (len(uses), len(rets)))
        return
    worst = max(r[3][1] for r in uses)
    lowest = min(r[3][0] for r in uses)
    chk.check(worst < 1.0 and lowest >= 0.0, key_prefix + "/phase-range",
              "the interpolation polynomial is evaluated at a phase in [%g, %g] (step up to %.3f at 8 kHz): outside [0,1) it is not an interpolation and the samples grow without bound" % (lowest, worst, smax))
    rw = max(r[3][1] for r in rets)
    chk.check(rw < 1.0 and min(r[3][0] for r in rets) >= 0.0, key_prefix + "/phase-inductive",
              "after process() the phase accumulator is in [%g, %g]; it must be back in [0,1) for the next call (step up to %.3f)" % (min(r[3][0] for r in rets), rw, smax))
    chk.count("phase-uses", len(uses))
    chk.floor("phase-uses", 2)


def _places_in(s):
    out = []

    def walk(x):
        if isinstance(x, dict):
            if "l" in x and "p" in x:
                out.append(x)
            for v in x.values():
                walk(v)
        elif isinstance(x, list):
            for v in x:
                walk(v)
    walk(s)
    return out
