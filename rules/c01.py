"""C01 — architected result of every instruction (clauses D1, D2, D3b, D5 + ED-undefined = NOP; see DESIGN §3)."""
from . import z80common as zc
from oracle import z80 as oz
from zx import term as tm
from zx.term import K, T
from zx import cpu
from zx.walk import Walker, Agg, Ref, SymObj

LEVEL = "other"

EXPL = (
    "Clause-limited (necessary conditions of C01, decided for all inputs): D1 decode totality - every path of every one "
    "of the 1792 encodings returns normally, no panic/unreachable/failed assert is reachable and no assert depends on a "
    "runtime value.  D2 flag tables - the evaluated constants PARITY/F3F5/SZF3F5/SZPF3F5 (4x256) and the half-carry / "
    "overflow tables (4x8) equal closed forms derived from binary arithmetic, and lookup8_r12/lookup16_r12 are the bit "
    "permutations a3,b3,r3,a7,b7,r7 -> 0,1,2,4,5,6.  D3b - for every main-page opcode that does not mention H, L or (HL), "
    "the DD- and FD-prefixed forms have the same bus trace and final state as the unprefixed form started one byte "
    "later (only the prefix fetch and a second R increment differ).  ED-undefined opcodes change nothing but PC, R, Q.  "
    "D5 - MEMPTR after LD (BC|DE|nn),A and OUT (n),A has high byte = A and low byte = (address+1)&0xFF.  "
    "D6 - exact semantics: for every non-prefix encoding and every path of emulate, the closed-form terms of all final "
    "registers, F (8 bits), MEMPTR, Q, PC, SP, IFF1/2, IM, HALT/EI state and of every memory/port access (address, data, "
    "order) are proved equal to the symbolic NMOS-Z80 reference (oracle/z80sem.py) for all operand values: exhaustive "
    "tabulation over the input bits each result bit depends on, restricted by the path's branch facts; adders wider than "
    "8 bits through ripple-carry normal form and cut points (zx/cec.py); an undecided equality is OPEN, a difference is "
    "reported only with a concrete witness.  NOT decided: behaviour over instruction sequences beyond the carried "
    "MEMPTR/Q state; the reference model itself is trusted."
)


def uses_hl(opc):
    """main-page opcodes whose behaviour a DD/FD prefix changes (documentation: they mention H, L, HL or (HL))"""
    x, y, z = opc >> 6, (opc >> 3) & 7, opc & 7
    p, q = y >> 1, y & 1
    if x == 0:
        if z == 1:
            return q == 1 or p == 2
        if z == 2:
            return p == 2
        if z == 3:
            return p == 2
        if z in (4, 5, 6):
            return y in (4, 5, 6)
        return False
    if x == 1:
        if opc == 0x76:
            return False
        return y in (4, 5, 6) or z in (4, 5, 6)
    if x == 2:
        return z in (4, 5, 6)
    if z == 1:
        return (q == 0 and p == 2) or (q == 1 and p in (2, 3))
    if z == 3:
        return y == 4
    if z == 5:
        return q == 0 and p == 2
    return False


def run(chk):
    prog = zc.program("A")
    chk.rule("D1", "every path of emulate specialised to an encoding returns; no potential-panic site remains")
    chk.rule("D2", "evaluated flag tables == closed forms")
    chk.rule("D3b", "DD/FD + opcode not using HL  ==  opcode alone, one byte later (trace and final state)")
    chk.rule("ED-NOP", "undefined ED opcodes write nothing but PC, R, Q/LAST_Q")
    chk.rule("D5", "MEMPTR bit provenance after LD (rr|nn),A / OUT (n),A")
    d1_totality(chk, prog)
    d2_tables(chk, prog)
    d3b_prefix_noop(chk, prog)
    ed_undefined(chk, prog)
    d5_memptr(chk, prog)
    from . import c01_exact
    chk.rule("D6", "final registers, flags, MEMPTR/Q and the ordered bus accesses of every encoding == symbolic Z80 reference model (finite-domain term equivalence)")
    c01_exact.run_exact(chk, prog, chk.tier)
    return chk.finish(EXPL)


def d1_totality(chk, prog):
    n = 0
    for group, opc in oz.all_encodings():
        if oz.is_prefix_byte(group, opc) and not (group in ("dd", "fd") and opc in (0xDD, 0xED, 0xFD)):
            continue
        name = zc.enc_name(group, opc).replace(" ", "_")
        paths = zc.explore(prog, group, opc)
        key = "D1/Z80::emulate/%s" % name
        bad = [p for p in paths if p.outcome != "return"]
        if bad or not paths:
            b = bad[0] if bad else None
            chk.fail(key, "encoding %s: %s" % (name, "no path" if b is None else "%s reachable: %s" % (b.outcome, b.detail)))
            continue
        sites = [s for p in paths for s in p.sites]
        if sites:
            s = sites[0]
            chk.fail(key, "encoding %s: %s at %s in %s depends on runtime values (%s)" % (
                name, s["kind"], s["loc"], s["fn"], tm.show(s["cond"])))
            continue
        chk.ok()
        n += 1
    chk.count("encodings-total", n)
    chk.floor("encodings-total", 1780)


def parity(i):
    return bin(i).count("1") % 2 == 0


def d2_tables(chk, prog):
    def table(name):
        path = [p for p in prog.consts if p.startswith("rustzx_z80::") and p.endswith("::" + name)]
        if len(path) != 1:
            chk.undecided_("D2/anchor/%s" % name, "constant %s not found" % name)
            return None
        v = prog.consts[path[0]]["v"]
        if "bytes" in v:
            return list(bytes.fromhex(v["bytes"]))
        if "ints" in v:
            return v["ints"]
        chk.undecided_("D2/anchor/%s" % name, "constant %s is not an integer array" % name)
        return None
    S, Z, F5, H, F3, PV, N, C = 0x80, 0x40, 0x20, 0x10, 0x08, 0x04, 0x02, 0x01
    forms = {
        "PARITY_TABLE": lambda i: PV if parity(i) else 0,
        "F3F5_TABLE": lambda i: i & (F3 | F5),
        "SZF3F5_TABLE": lambda i: (i & S) | (Z if i == 0 else 0) | (i & (F3 | F5)),
        "SZPF3F5_TABLE": lambda i: (i & S) | (Z if i == 0 else 0) | (i & (F3 | F5)) | (PV if parity(i) else 0),
    }
    for name, f in forms.items():
        t = table(name)
        if t is None:
            continue
        chk.check(len(t) == 256, "D2/%s/len" % name, "%s has %d entries" % (name, len(t)))
        for i, v in enumerate(t[:256]):
            chk.check(v == f(i), "D2/%s/%d" % (name, i), "%s[%d] = 0x%02X, closed form gives 0x%02X" % (name, i, v, f(i)))
    # index = a | b<<1 | r<<2 of bit 3 (half carry) / bit 7 (overflow); r = a op b (op carry)

    def hc_add(a, b, r):
        return H if ((a & b) | ((a | b) & (1 - r))) else 0

    def hc_sub(a, b, r):
        na = 1 - a
        return H if ((na & b) | ((na | b) & r)) else 0

    def ov_add(a, b, r):
        return PV if (a == b and r != a) else 0

    def ov_sub(a, b, r):
        return PV if (a != b and r != a) else 0
    for name, f in (("HALF_CARRY_ADD_TABLE", hc_add), ("HALF_CARRY_SUB_TABLE", hc_sub),
                    ("OVERFLOW_ADD_TABLE", ov_add), ("OVERFLOW_SUB_TABLE", ov_sub)):
        t = table(name)
        if t is None:
            continue
        chk.check(len(t) == 8, "D2/%s/len" % name, "%s has %d entries" % (name, len(t)))
        for i, v in enumerate(t[:8]):
            e = f(i & 1, (i >> 1) & 1, (i >> 2) & 1)
            chk.check(v == e, "D2/%s/%d" % (name, i), "%s[%d] = 0x%02X, arithmetic gives 0x%02X" % (name, i, v, e))
    # lookup functions: bit permutations
    for fname, bits, b3, b7 in (("lookup8_r12", 8, 3, 7), ("lookup16_r12", 16, 11, 15)):
        try:
            fn = prog.fn(prog.fn_path("rustzx_z80", fname))
        except KeyError as e:
            chk.undecided_("D2/anchor/%s" % fname, str(e))
            continue
        w = Walker(prog)
        a, b, r = tm.sym("a", bits), tm.sym("b", bits), tm.sym("r", bits)
        rs = w.run(fn, [a, b, r], genv={})
        ok = len(rs) == 1 and rs[0].outcome == "return" and isinstance(rs[0].ret, T)
        if ok:
            v = tm.bv(rs[0].ret)
            want = [("c", "a", b3, False), ("c", "b", b3, False), ("c", "r", b3, False), 0,
                    ("c", "a", b7, False), ("c", "b", b7, False), ("c", "r", b7, False), 0]
            ok = list(v) == want
        chk.check(ok, "D2/%s/permutation" % fname, "%s is not the r12 bit permutation" % fname)
    chk.count("table-entries", 4 * 256 + 4 * 8)


def run_shifted(prog, opc, ii_group):
    """the unprefixed opcode executed one byte later: PC := PC+1, R := inc7(R); bytes named as in the prefixed run"""
    w = Walker(prog, max_paths=600)
    w.effect_hook = cpu.make_fetch_hook([0xDD if ii_group == "dd" else 0xFD, opc], shift=0)
    st = cpu.cpu_state(w, prog, skip_interrupt=True, pending_prefix="None")
    roles = cpu.bind_roles(prog)
    ri = prog.field_index(cpu.Z80, "regs")
    cpuv = st.store[cpu.CPU]
    R = zc.INITIAL["R"]
    PC = zc.INITIAL["PC"]
    inc7 = tm.binop("or", tm.binop("and", tm.binop("add", R, K(1, 8)), K(0x7F, 8)), tm.binop("and", R, K(0x80, 8)))
    regs = cpuv.fields[ri].with_field(roles["PC"], tm.binop("add", PC, K(1, 16))).with_field(roles["R"], inc7)
    st.store[cpu.CPU] = cpuv.with_field(ri, regs)
    return w.run(prog.fn(cpu.EMULATE), [Ref(cpu.CPU, (), True), Ref(cpu.BUSOBJ, (), True)], genv={}, state=st)


def state_sig(prog, p):
    fin = zc.final_cpu(prog, p)
    return fin


def d3b_prefix_noop(chk, prog):
    n = 0
    for opc in range(256):
        if opc in (0xCB, 0xDD, 0xED, 0xFD) or uses_hl(opc):
            continue
        for group in ("dd", "fd"):
            name = zc.enc_name(group, opc).replace(" ", "_")
            key = "D3b/Z80::emulate/%s" % name
            pre = zc.explore(prog, group, opc)
            ref = run_shifted(prog, opc, group)
            if any(p.outcome != "return" for p in pre + ref) or len(pre) != len(ref):
                chk.fail(key, "%s: path sets differ from the unprefixed form (%d vs %d paths)" % (name, len(pre), len(ref)))
                continue
            ok = True
            for pp in pre:
                evp, sidep = zc.events_of(pp)
                finp = zc.final_cpu(prog, pp)
                match = None
                why = None
                for pr in ref:
                    evr, sider = zc.events_of(pr)
                    if len(evp) != len(evr) + 1:
                        why = "trace length"
                        continue
                    if not all(len(a) == len(b) and all((x is y) or (isinstance(x, T) and isinstance(y, T) and zc.same(x, y)) or x == y
                                                        for x, y in zip(a, b)) for a, b in zip(evp[1:], evr)):
                        why = "bus trace"
                        continue
                    finr = zc.final_cpu(prog, pr)
                    diff = [k for k in finp if not (finp[k] is finr[k] or (isinstance(finp[k], T) and isinstance(finr[k], T) and zc.same(finp[k], finr[k])) or finp[k] == finr[k])]
                    if diff:
                        why = "final %s: prefixed %s vs plain %s" % (diff[0], tm.show(finp[diff[0]]) if isinstance(finp[diff[0]], T) else finp[diff[0]],
                                                                      tm.show(finr[diff[0]]) if isinstance(finr[diff[0]], T) else finr[diff[0]])
                        continue
                    if len(sidep) != len(sider):
                        why = "side effects"
                        continue
                    match = pr
                    break
                if match is None:
                    ok = False
                    chk.fail(key, "%s does not behave like the unprefixed opcode one byte later (%s)" % (name, why))
                    break
            if ok:
                chk.ok()
                n += 1
    chk.count("prefix-noop-pairs", n)
    chk.floor("prefix-noop-pairs", 2 * 150)


def defined_ed(opc):
    x, y, z = opc >> 6, (opc >> 3) & 7, opc & 7
    if x == 1:
        return not (z == 7 and y >= 6)
    if x == 2:
        return z <= 3 and y >= 4
    return False


def ed_undefined(chk, prog):
    n = 0
    allowed = {"PC", "R", "Q", "LAST_Q", "skip_interrupt"}
    for opc in range(256):
        if defined_ed(opc):
            continue
        name = "ED_%02X" % opc
        for p in zc.explore(prog, "ed", opc):
            fin = zc.final_cpu(prog, p)
            ev, side = zc.events_of(p)
            changed = [k for k, v in fin.items() if k in zc.INITIAL and not (v is zc.INITIAL[k] or zc.same(v, zc.INITIAL[k]))
                       and k not in allowed and k not in ("AF", "AF'") and k not in cpu.PAIRS]
            busy = [e for e in ev[2:] if e[0] != "?"]
            chk.check(not changed and not busy and zc.same(fin["PC"], tm.binop("add", zc.INITIAL["PC"], K(2, 16))),
                      "ED-NOP/Z80::emulate/%s" % name,
                      "undefined %s is not a two-byte NOP: changes %s, bus %s, PC %s" % (
                          name, changed, [zc.show_event(e) for e in busy], tm.show(fin["PC"])))
            n += 1
    chk.count("ed-undefined", n)
    chk.floor("ed-undefined", 150)


def d5_memptr(chk, prog):
    A = zc.INITIAL["A"]
    BC, DE = zc.INITIAL["BC"], zc.INITIAL["DE"]
    cases = []
    for group, base in (("main", 0), ("dd", 1), ("fd", 1)):
        nn = tm.join16(tm.sym("op%d" % (base + 2), 8), tm.sym("op%d" % (base + 1), 8))
        n8 = tm.zext(tm.sym("op%d" % (base + 1), 8), 16)
        cases += [(group, 0x02, BC, "LD (BC),A"), (group, 0x12, DE, "LD (DE),A"), (group, 0x32, nn, "LD (nn),A"),
                  (group, 0xD3, n8, "OUT (n),A")]
    for group, opc, addr, what in cases:
        name = zc.enc_name(group, opc).replace(" ", "_")
        want = tm.join16(A, tm.lo8(tm.binop("add", addr, K(1, 16))))
        for p in zc.explore(prog, group, opc):
            fin = zc.final_cpu(prog, p)
            mp = fin["MEMPTR"]
            ok = zc.same(mp, want)
            if not ok:
                hi = tm.bv(mp)[8:]
                bad_hi = [j for j in range(8) if hi[j] != ("c", "A", j, False)]
                detail = "high byte bit(s) %s are not copies of A" % bad_hi if bad_hi else "low byte is not (address+1)&0xFF"
            chk.check(ok, "D5/Z80::emulate/%s/MEMPTR" % name,
                      "%s (%s): MEMPTR = %s, documented A<<8 | (addr+1)&0xFF = %s; %s" % (
                          what, name.replace("_", " "), tm.show(mp), tm.show(want), "" if ok else detail))
            chk.count("memptr-cases")
    chk.floor("memptr-cases", 12)
