"""T-BOUND: interprocedural upper bound of an unsigned integer parameter, decided on the MIR of every call site.

`ArgBound.param(path, i)` is the maximum over *all* call sites (resolved callees, trait dispatch included) of the bound
of the i-th argument operand, where an operand is bounded by

  constant                              its value
  copy of the caller's own parameter    the bound of that parameter (recursively; a cycle is unbounded)
  local                                 the maximum over every assignment to it in the body (all paths)
  a + b, a * b (checked or not)         sum / product of the bounds
  a - b, a / b, a >> k                  bound of a
  a & b                                 the smaller bound;  a % k -> k - 1
  widening / unsigned integer cast      bound of the source
  call result                           `ret_bound(callee)` supplied by the rule (e.g. the contention table maximum)

and by nothing else: anything not in this list (a field read, an upvar, a value that had its address taken, a function
used as a value, an externally reachable function) makes the parameter unbounded, which the rule reports.  The result is
sound for every execution because every assignment and every call site is taken, without path conditions."""
from zx import scan


class ArgBound(object):
    def __init__(self, prog, cg, ret_bound=None):
        self.prog = prog
        self.cg = cg
        self.ret_bound = ret_bound or (lambda path: None)
        self.memo = {}
        self.sites = 0
        self.why = {}        # (path, idx) -> text of the maximal / unbounded site
        self._esc = None
        self._confined = False

    # ------------------------------------------------------------------ parameters
    def escaping(self):
        """ADTs a caller outside the workspace crates can hold: mentioned in the signature of an externally reachable
        function, or in a public field of such a type"""
        if self._esc is None:
            esc = set()

            def mention(t, acc):
                if isinstance(t, tuple):
                    if t and t[0] == "adt":
                        acc.add(t[1])
                    for x in t:
                        mention(x, acc)
            for fn in self.prog.fns.values():
                if fn.local and fn.reachable:
                    for i in range(fn.body["argc"] + 1):
                        mention(fn.T[fn.body["locals"][i]], esc)
            work = list(esc)
            while work:
                a = self.prog.adts.get(work.pop())
                if not a or not a.get("local"):
                    continue
                for v in a["variants"]:
                    for f in v["fields"]:
                        if f.get("vis") == "pub":
                            acc = set()
                            mention(f["ty"], acc)
                            for x in acc - esc:
                                esc.add(x)
                                work.append(x)
            self._esc = esc
        return self._esc

    def _receiver_confined(self, fn):
        """fn is a method of an impl for a type no outside caller can hold: it, and everything that calls it with that
        receiver, runs only inside the workspace"""
        a = fn.assoc
        if not a or a.get("container") != "impl":
            return False
        st = a.get("self_ty")
        return isinstance(st, tuple) and st and st[0] == "adt" and st[1] not in self.escaping() and \
            (self.prog.adts.get(st[1]) or {}).get("local", False)

    def param(self, path, idx, stack=(), confined=False):
        fn = self.prog.fns.get(path)
        if fn is not None and self._receiver_confined(fn):
            confined = True
        key = (path, idx, confined)
        if key in self.memo:
            return self.memo[key]
        if key in stack:
            return None
        if fn is not None and fn.reachable and not confined:
            self.why[key[:2]] = "%s is callable from outside the crate" % _short(path)
            self.memo[key] = None
            return None
        best, why = _BOTTOM, None
        n = 0
        for s in self.cg.callers_of(path):
            if s.kind != "call":
                self.why[key[:2]] = "%s is used as a value in %s" % (_short(path), _short(s.fn.path))
                self.memo[key] = None
                return None
        for caller in list(self.prog.fns.values()):
            for body, bi, t in scan.call_sites(self.prog, caller, lambda targets: path in targets):
                n += 1
                self.sites += 1
                args = t["args"]
                b = self.operand(caller, body, args[idx], stack + (key,), confined) if idx < len(args) else None
                loc = "%s (%s)" % (_short(caller.path), caller.loc(t.get("span")))
                if b is None or (isinstance(b, dict) and not b):
                    self.why[key[:2]] = "argument %d of %s is not bounded at %s" % (idx, _short(path), loc)
                    self.memo[key] = None
                    return None
                j = _join(best, b)
                if j != best:
                    why = "%s at %s" % (_fmt(b), loc)
                best = j
        if n == 0:
            self.why[key[:2]] = "%s has no call site" % _short(path)
            self.memo[key] = None
            return None
        self.why[key[:2]] = why
        self.memo[key] = best
        return best

    def _sub_why(self, stack):
        return ""

    # ------------------------------------------------------------------ operands
    # a bound is an int (unsigned scalar), a dict {field index: bound} (struct / tuple / single-variant value), or None
    def operand(self, fn, body, op, stack, confined=False):
        if op[0] == "c":
            v = op[1].get("v")
            if isinstance(v, dict) and "int" in v and int(v["int"]) >= 0:
                return int(v["int"])
            if isinstance(v, dict) and "fields" in v and not v.get("variant"):
                return dict((i, self.operand(fn, body, ["c", {"v": f, "ty": None}], stack, confined)) for i, f in enumerate(v["fields"]))
            return None
        if op[0] not in ("cp", "mv"):
            return None
        place = op[1]
        l, p = place["l"], place["p"]
        for e in p:
            if e[0] != "f":
                return None
        val = self.local(fn, body, l, stack, confined)
        for e in p:
            if not isinstance(val, dict):
                return None
            val = val.get(e[1])
        return val

    def local(self, fn, body, l, stack, confined):
        defs = self._defs(body, l)
        if defs is None:
            return None
        if 1 <= l <= body["argc"] and body is fn.body:
            if defs:
                return None      # a parameter that is reassigned
            return self.param(fn.path, l - 1, stack, confined)
        if not defs:
            return None
        key = ("local", fn.path, id(body), l)
        if key in stack:
            return None
        stack = stack + (key,)
        best = _BOTTOM
        for d in defs:
            if d[0] == "rv":
                b = self.rvalue(fn, body, d[1], stack, confined)
            else:
                b = _BOTTOM
                for cp in scan.call_targets(self.prog, fn, d[1]):
                    b = _join(b, self.ret_bound(cp))
                if b is _BOTTOM:
                    b = None
            best = _join(best, b)
            if best is None:
                return None
        return None if best is _BOTTOM else best

    def _defs(self, body, l):
        """every definition of local l: ('rv', rvalue) / ('call', terminator); None when it is written through a
        projection or its address is taken mutably"""
        out = []
        for b in body["blocks"]:
            for s in b["s"]:
                if s[0] != "=":
                    continue
                pl, rv = s[1], s[2]
                if pl["l"] == l:
                    if pl["p"]:
                        return None
                    out.append(("rv", rv))
                if rv[0] == "ref" and rv[1]["l"] == l and len(rv) > 2 and rv[2]:
                    return None
                if rv[0] == "addr" and rv[1]["l"] == l:
                    return None
            t = b["t"]
            if t["k"] == "call" and t.get("dest") and t["dest"]["l"] == l:
                if t["dest"]["p"]:
                    return None
                out.append(("call", t))
        return out

    def _unsigned(self, fn, body, op):
        if op[0] == "c":
            if op[1].get("ty") is None:
                return False
            ty = fn.T[op[1]["ty"]]
        elif op[0] in ("cp", "mv"):
            ty = fn.T[body["locals"][op[1]["l"]]]
            for e in op[1]["p"]:
                if e[0] != "f" or len(e) < 3:
                    return False
                ty = fn.T[e[2]]
        else:
            return False
        return ty[0] == "int" and not ty[2] or ty[0] in ("bool", "char")

    def rvalue(self, fn, body, rv, stack, confined=False):
        k = rv[0]
        if k == "use":
            return self.operand(fn, body, rv[1], stack, confined)
        if k == "cast":
            src = rv[2]
            if not self._unsigned(fn, body, src):
                return None
            v = self.operand(fn, body, src, stack, confined)
            return v if isinstance(v, int) else None
        if k == "agg":
            kind = rv[1]
            if kind.get("k") == "tuple" or (kind.get("k") == "adt" and not kind.get("variant") and kind.get("union_field") is None
                                            and len((self.prog.adts.get(kind.get("path")) or {"variants": [0, 0]})["variants"]) == 1):
                return dict((i, self.operand(fn, body, o, stack, confined)) for i, o in enumerate(rv[2]))
            return None
        if k == "bin":
            op, a, b = rv[1], rv[2], rv[3]
            checked = op.endswith("WithOverflow")
            base = op.replace("WithOverflow", "").replace("Unchecked", "")
            x = self.operand(fn, body, a, stack, confined)
            y = self.operand(fn, body, b, stack, confined)
            x = x if isinstance(x, int) else None
            y = y if isinstance(y, int) else None
            r = None
            if base in ("Sub", "Div", "Shr"):
                r = x if self._unsigned(fn, body, a) else None
            elif base == "BitAnd":
                c = [v for v in (x, y) if v is not None]
                r = min(c) if c else None
            elif base == "Rem":
                if y is not None and y > 0:
                    r = y - 1 if x is None else min(x, y - 1)
                else:
                    r = x
            elif x is None or y is None:
                r = None
            elif base == "Add":
                r = x + y
            elif base == "Mul":
                r = x * y
            elif base in ("BitOr", "BitXor"):
                r = (1 << max(x.bit_length(), y.bit_length())) - 1
            elif base == "Shl":
                r = x << y if y < 64 else None
            return {0: r, 1: 1} if checked else r
        return None


_BOTTOM = object()


def _join(a, b):
    """least upper bound of two bounds (None = unbounded absorbs)"""
    if a is _BOTTOM:
        return b
    if b is _BOTTOM:
        return a
    if a is None or b is None:
        return None
    if isinstance(a, int) and isinstance(b, int):
        return max(a, b)
    if isinstance(a, dict) and isinstance(b, dict):
        return dict((k, _join(a.get(k, None) if k in a else None, b.get(k, None) if k in b else None)) for k in set(a) | set(b))
    return None


def _fmt(b):
    if isinstance(b, dict):
        return "{" + ", ".join("%s: %s" % (k, _fmt(v)) for k, v in sorted(b.items())) + "}"
    return "unbounded" if b is None else str(b)


def _short(p):
    return "::".join(p.replace("<", "").replace(">", "").split("::")[-2:])
