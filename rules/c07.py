"""C07 — port decoding (T-TABLE over all 65536 addresses x configurations)."""
import numpy as np

from . import corecommon as cc
from . import c04
from zx import term as tm
from zx.term import K, T
from zx.walk import Walker, Agg, Ref, EffectResult, UNIT, SymObj

LEVEL = "proof"

EXPL = (
    "Decided: read_io and write_io are extracted as complete path sets (device leaves as effects); every path's branch "
    "conditions over the 16 address bits are tabulated for all 65536 addresses, per configuration (machine x mouse x "
    "joystick x extender absent/claims/declines), giving the device reached at each address; this table is compared with "
    "the decode cubes of the statement at every address where exactly one device is selected (three-valued oracle: the "
    "mouse is fixed only on xxDF-style addresses), and unclaimed reads must fall to the floating bus.  The extender is "
    "consulted with the same port, receives exactly the ports it claims and pre-empts every other device.  ULA read: the "
    "result is the AND of the three key matrices over exactly the rows whose address line is low, bit 6 toggled by the "
    "tape level; ULA write: border = data[0..2], MIC bit 3, speaker bit 4.  Floating bus: the extracted function of the frame clock returns 0xFF at every T outside the ULA's fetch slots and, inside them (bitmap, attribute, bitmap+1, attribute+1, four idle T, from first-picture-T + 2 on each of the 192 lines), the byte at the fetched display / attribute offset of the RAM page that is being displayed (page 7 while the 128K shadow screen is selected)."
)

DEV = {"none": 12, "ext": 1, "ula": 2, "mouse_b": 3, "mouse_x": 4, "mouse_y": 5, "ay": 6, "kemp": 7, "float": 8,
       "ay_sel": 9, "ay_data": 10, "p7ffd": 11}
NAME = dict((v, k) for k, v in DEV.items())


def bits(port, n):
    return (port >> n) & 1


def run(chk):
    prog = cc.program("A")
    names = cc.Names(prog)
    _KB.clear()
    _KB["prog"], _KB["names"] = prog, names
    chk.rule("T-TABLE", "device reached per (configuration, address) == decode cubes of the statement where exactly one device is selected")
    chk.rule("T-GUARD", "extender called only under its own extends_port(port) with the same port, and pre-empts all devices")
    chk.rule("T-BITS", "ULA read row selection / AND of matrices / EAR bit; ULA write border, MIC, speaker bits")
    for m in names.machine_variants():
        decode(chk, prog, names, m, "read_io")
        decode(chk, prog, names, m, "write_io")
    chk.floor("decode-rows", 2 * 2 * 65536 * 12)
    chk.rule("T-TABLE/float", "floating-bus byte: closed form of floating_bus_value over the frame clock == 0xFF outside the ULA's fetch slots, the fetched display/attribute byte of the displayed screen page inside them")
    for m in names.machine_variants():
        floating_bus(chk, prog, names, m)
    chk.floor("float-rows", 2 * 69888)
    return chk.finish(EXPL, extra={"exhaustive": True})


def floating_bus(chk, prog, names, m):
    """The byte returned for an unclaimed port, as a function of the frame clock T (all T of the frame tabulated from
    the extracted paths; nothing is executed):  idle -> 0xFF;  in the 128 T of each of the 192 picture lines the ULA
    fetches bitmap, attribute, bitmap+1, attribute+1 and then rests 4 T (first fetch at first-picture-T + 2: 14338 on
    the 48K, 14364 on the 128K, as in the published floating-bus timings); the byte comes from the RAM page the ULA is
    displaying (48K: page 0 = 0x4000; 128K: page 5, or page 7 while bit 3 of the paging latch is set)."""
    import numpy as np
    spec = cc.specs_of(prog, names, m)
    first, line, frame = spec.get("clocks_first_pixel"), spec.get("clocks_line"), spec.get("clocks_frame")
    key = "T-TABLE/ZXController::floating_bus_value/%s" % m
    if None in (first, line, frame):
        chk.undecided_(key + "/specs", "machine constants not constant-folded: %s" % spec)
        return
    MEMREAD = prog.fn_path("rustzx_core", "ZXMemory::read")
    RPD = prog.fn_path("rustzx_core", "ZXMemory::ram_page_data")
    w = Walker(prog)
    w.opaque_paths |= {MEMREAD, RPD}

    def hook(w_, st, path, a, d, wh):
        if path == MEMREAD:
            return EffectResult(tm.sym("MEM%d" % len(st.trace), 8), havoc=False)
        if path == RPD:
            return None
        return None
    w.effect_hook = hook
    SB = tm.sym("SCREEN_BANK", 8)
    st = cc.controller_state(w, prog, names, m, overrides={"screen_bank": SB})
    rs = w.run(prog.fn(names.ctl("floating_bus_value")), [Ref(cc.CTL, (), False)], genv=cc.GENV, state=st)
    bad = [r for r in rs if r.outcome != "return"]
    if bad or not rs:
        chk.undecided_(key + "/paths", "exploration failed: %s" % [(r.outcome, r.detail) for r in (bad or rs)][:2])
        return
    T_ = np.arange(frame, dtype=np.uint64)
    env = {"FC": T_}
    # oracle
    rel = T_.astype(np.int64) - (first + 2)
    row = rel // line
    tin = rel % line
    fetch = (rel >= 0) & (row < 192) & (tin < 128) & ((tin & 4) == 0)
    col = (tin // 8) * 2 + (tin % 8) // 2
    is_attr = (tin % 2) == 1
    r_ = np.clip(row, 0, 191)
    baddr = 0x4000 | ((r_ << 5) & 0x1800) | ((r_ << 8) & 0x0700) | ((r_ << 2) & 0x00E0) | col
    aaddr = 0x5800 + (r_ // 8) * 32 + col
    want_addr = np.where(is_attr, aaddr, baddr)
    covered = np.zeros(frame, dtype=bool)
    wrong = []
    for r in rs:
        try:
            mask_ = cc.path_mask(r, dict(env, SCREEN_BANK=np.zeros(frame, dtype=np.uint64)), frame)
        except Exception as e:
            chk.undecided_(key + "/conditions", "path condition not a function of the frame clock: %s" % e)
            return
        if not mask_.any():
            continue
        if (covered & mask_).any():
            chk.undecided_(key + "/overlap", "two paths claim the same clocks")
            return
        covered |= mask_
        ret = r.ret
        reads = [e for e in r.trace if e.path in (MEMREAD, RPD)]
        if isinstance(ret, T) and ret.is_const():
            bad_ = mask_ & (fetch | (ret.val != 0xFF))
            if bad_.any():
                wrong.append("constant 0x%02X returned at %d clocks where the ULA is fetching (e.g. T=%d)" % (ret.val, int(bad_.sum()), int(T_[bad_][0])) if ret.val == 0xFF else
                             "constant 0x%02X returned (e.g. T=%d)" % (ret.val, int(T_[mask_][0])))
            continue
        # a memory byte
        idle = mask_ & ~fetch
        if idle.any():
            wrong.append("a memory byte is returned at %d clocks where the ULA is idle (e.g. T=%d): documented 0xFF" % (int(idle.sum()), int(T_[idle][0])))
            continue
        if len(reads) != 1:
            wrong.append("the byte returned inside the fetch window is not one memory read: %s" % (ret,))
            continue
        e = reads[0]
        if e.path == MEMREAD:
            if not (isinstance(ret, T) and ret.op == "sym" and ret.args[0].startswith("MEM")):
                wrong.append("the returned value is not the byte read: %s" % (ret,))
                continue
            addr = e.args[1]
            got = np.asarray(tm.evaluate(addr, env)).astype(np.int64) if not addr.is_const() else np.full(frame, addr.val)
            diff = mask_ & (got != want_addr)
            if diff.any():
                t0 = int(T_[diff][0])
                wrong.append("address read at T=%d is 0x%04X; the ULA fetches 0x%04X there (%d clocks differ)" % (t0, int(got[diff][0]), int(want_addr[diff][0]), int(diff.sum())))
                continue
            # read through the CPU's map at 0x4000-0x5AFF: that is page 0 (48K) / page 5 (128K) whatever is displayed
            if m != "Sinclair48K":
                sb = c04.cc_decide(r, tm.cmp("eq", SB, K(5, 8)))
                if sb is not True:
                    wrong.append("the byte is read through the CPU address 0x%04X.. (always RAM page 5) although the path does not know that page 5 is the displayed screen: with bit 3 of 0x7FFD set the ULA fetches page 7" % int(want_addr[mask_][0]))
        else:
            # ram_page_data(page)[offset]
            page = e.args[1]
            okp = (page is SB) or (isinstance(page, T) and m == "Sinclair48K" and page.is_const() and page.val == 0)
            if not okp:
                wrong.append("the byte is taken from RAM page %s; the ULA fetches the displayed page (screen_bank)" % (page,))
                continue
            nm = tm.show(ret) if isinstance(ret, T) else getattr(ret, "name", str(ret))
            idx = w.read_index.get(nm) if hasattr(w, "read_index") else None
            if idx is None:
                chk.undecided_(key + "/offset", "offset of the byte inside the page not recovered: %s" % nm)
                return
            got = np.asarray(tm.evaluate(idx, env)).astype(np.int64) + 0x4000 if not idx.is_const() else np.full(frame, idx.val + 0x4000)
            diff = mask_ & (got != want_addr)
            if diff.any():
                t0 = int(T_[diff][0])
                wrong.append("offset read at T=%d is 0x%04X; the ULA fetches 0x%04X there (%d clocks differ)" % (t0, int(got[diff][0]) - 0x4000, int(want_addr[diff][0]) - 0x4000, int(diff.sum())))
    if not covered.all():
        chk.undecided_(key + "/coverage", "%d clocks of the frame are covered by no path" % int((~covered).sum()))
        return
    for i, wmsg in enumerate(sorted(set(wrong))):
        chk.fail(key + ("/source" if "page" in wmsg and "CPU address" in wmsg else "/value/%d" % i), "%s floating bus: %s" % (m, wmsg))
    if not wrong:
        chk.ok()
    chk.count("float-rows", frame)


def leaf_markers(prog, names):
    """functions treated as device leaves (opaque effects)"""
    f = {}
    f["float"] = names.ctl("floating_bus_value")
    f["ay"] = names.ctl("read_ay_port")
    f["ay_sel"] = names.ctl("select_ay_reg")
    f["ay_data"] = names.ctl("write_ay_port")
    f["ula_w"] = names.ctl("set_border_color")
    f["p7ffd"] = names.ctl("write_7ffd")
    f["kemp"] = prog.fn_path("rustzx_core", "KempstonJoy::read")
    cb = [p for p in prog.fns if p.startswith("<rustzx_core::") and "ZXTape" in p and p.endswith("::current_bit")]
    if len(cb) != 1:
        raise KeyError("anchor: ZXTape::current_bit not unique: %s" % cb)
    f["ear"] = cb[0]
    bp = [p for p in prog.fns if p.startswith("rustzx_core::") and p.endswith("::change_state")]
    if len(bp) == 0:
        # a build without the sound feature has no beeper: the speaker / MIC bits go nowhere
        f["beeper"] = None
        return f
    if len(bp) != 1:
        raise KeyError("anchor: beeper change_state not unique: %s" % bp)
    f["beeper"] = bp[0]
    return f


def decode(chk, prog, names, m, meth):
    mk = leaf_markers(prog, names)
    # the contention helpers are judged by C04; here they are opaque so that only the decode chain forks
    w = c04.make_walker(prog, names, extra_opaque=[v for v in mk.values()] + [names.ctl("io_contention_first"), names.ctl("io_contention_last")])
    w.max_paths = 100000
    st = cc.controller_state(w, prog, names, m)
    port = tm.sym("port", 16)
    data = tm.sym("data", 8)
    args = [Ref(cc.CTL, (), True), port] + ([data] if meth == "write_io" else [])
    base_hook = w.effect_hook

    def hook(w_, st_, path, args_, dty, where):
        if path.endswith("IoExtender::extends_port"):
            n = sum(1 for e in st_.trace if e.path == path)
            return EffectResult(tm.sym("CLAIMS", 1) if n == 0 else tm.sym("CLAIMS%d" % n, 1), havoc=False)
        if path.endswith("IoExtender::read"):
            return EffectResult(tm.sym("EXTVAL", 8), havoc=False)
        if path.endswith("IoExtender::write"):
            return EffectResult(UNIT, havoc=False)
        if path == mk["ear"]:
            return EffectResult(tm.sym("EAR", 1), havoc=False)
        return base_hook(w_, st_, path, args_, dty, where)
    w.effect_hook = hook
    rs = w.run(prog.fn(names.bus(meth)), args, genv=cc.GENV, state=st)
    key = "ZXController::%s/%s" % (meth, m)
    if not rs or any(r.outcome != "return" for r in rs):
        chk.fail("T-TABLE/%s/paths" % key, "non-returning paths: %s" % [(r.outcome, r.detail) for r in rs if r.outcome != "return"][:2])
        return
    ports = np.arange(65536, dtype=np.uint64)
    env = {"port": ports}
    # configuration of a path: extender (absent / claims / declines), mouse, kempston
    table = {}
    n_ula = 0
    for r in rs:
        cfg = {"ext": None, "mouse": None, "kemp": None}
        for c in r.pc:
            if c[0] == "variant" and c[1] == "ctl.io_extender":
                cfg["ext"] = "absent" if c[2] == "None" else "present"
            elif c[0] == "variant" and c[1] == "ctl.mouse":
                cfg["mouse"] = c[2] == "Some"
            elif c[0] == "variant" and c[1] == "ctl.kempston":
                cfg["kemp"] = c[2] == "Some"
        claims = c04.cc_decide(r, tm.sym("CLAIMS", 1))
        if cfg["ext"] == "present":
            if claims is None:
                chk.undecided_("T-GUARD/%s/claims" % key, "extender present but the path does not decide extends_port")
                continue
            cfg["ext"] = "claims" if claims else "declines"
        # extender discipline
        exts = [e for e in r.trace if "IoExtender::" in e.path]
        for e in exts:
            chk.check(e.args[1] is port, "T-GUARD/%s/ext-same-port" % key, "extender method %s called with %s instead of the port" % (e.path.split("::")[-1], e.args[1]))
        acc = [e for e in exts if not e.path.endswith("extends_port")]
        chk.check((len(acc) == 1) == (cfg["ext"] == "claims"), "T-GUARD/%s/ext-iff-claims" % key,
                  "extender %s: %d access(es) (must be accessed exactly when it claims the port)" % (cfg["ext"], len(acc)))
        # address mask of the path: only conditions over the port
        mask = np.ones(65536, dtype=bool)
        for c in r.pc:
            if c[0] in ("eq", "ne", "index") and isinstance(c[1], T) and tm.syms(c[1]) <= {"port"} and tm.syms(c[1]):
                v = tm.evaluate(c[1], env)
                if c[0] == "ne":
                    for x in c[2]:
                        mask &= (v != x)
                else:
                    mask &= (v == c[2])
        # device leaf
        leaf, extra_ok = classify(chk, prog, names, mk, r, meth, key, port, data, mask)
        if leaf is None:
            continue
        if cfg["ext"] == "claims":
            chk.check(leaf == "ext", "T-GUARD/%s/ext-preempts" % key, "extender claims the port but %s is also reached" % leaf)
        if leaf == "ula":
            n_ula += 1
        exts_ = [cfg["ext"]] if cfg["ext"] is not None else ["absent", "claims", "declines"]
        mice = [cfg["mouse"]] if cfg["mouse"] is not None else [True, False]
        kemps = [cfg["kemp"]] if cfg["kemp"] is not None else [True, False]
        for e_ in exts_:
            for mo in mice:
                for ke in kemps:
                    t = table.setdefault((e_, mo, ke), np.zeros(65536, dtype=np.int16))
                    clash = (t[mask] != 0) & (t[mask] != DEV[leaf])
                    if clash.any():
                        chk.fail("T-TABLE/%s/ambiguous" % key, "two paths reach different devices for the same address/configuration")
                    t[mask] = DEV[leaf]
        chk.count("decode-paths")
    # compare with the oracle per configuration
    for cfgk, t in sorted(table.items(), key=str):
        e_, mo, ke = cfgk
        miss = np.nonzero(t == 0)[0]
        if not chk.check(len(miss) == 0, "T-TABLE/%s/%s/total" % (key, cfgname(cfgk)), "no device/leaf decided for %d addresses, e.g. 0x%04X" % (len(miss), miss[0] if len(miss) else 0)):
            continue
        want, determinate = oracle(meth, m, e_, mo, ke)
        cmpm = determinate
        bad = np.nonzero(cmpm & (t != want))[0]
        chk.count("decode-rows", 65536)
        chk.check(len(bad) == 0, "T-TABLE/%s/%s" % (key, cfgname(cfgk)),
                  "%s %s [%s]: %d addresses reach the wrong device, e.g. port 0x%04X reaches %s, documented %s" % (
                      m, meth, cfgname(cfgk), len(bad), bad[0] if len(bad) else 0,
                      NAME.get(int(t[bad[0]])) if len(bad) else "-", NAME.get(int(want[bad[0]])) if len(bad) else "-"))
        chk.count("compared-addresses", int(cmpm.sum()))
    chk.check(len(table) == 12, "T-TABLE/%s/configs" % key, "expected 12 configurations, got %d" % len(table))
    chk.sample({"method": meth, "machine": m, "paths": len(rs), "configs": len(table),
                "example": {"port": "0x7FFD", "device": NAME.get(int(table[("absent", False, False)][0x7FFD])) if ("absent", False, False) in table else None}})


def cfgname(c):
    return "ext=%s,mouse=%s,kempston=%s" % (c[0], "on" if c[1] else "off", "on" if c[2] else "off")


def oracle(meth, m, ext, mouse, kemp):
    """(device id per address, mask of addresses taking part in the comparison)"""
    p = np.arange(65536, dtype=np.int64)
    a = lambda n: (p >> n) & 1
    want = np.zeros(65536, dtype=np.int16)
    if ext == "claims":
        want[:] = DEV["ext"]
        return want, np.ones(65536, dtype=bool)
    sel = []      # (device, selected mask, unspecified mask)
    none = np.zeros(65536, dtype=bool)
    if meth == "read_io":
        sel.append(("ula", a(0) == 0, none))
        sel.append(("ay", (a(15) == 1) & (a(14) == 1) & (a(1) == 0), none))
        if kemp:
            sel.append(("kemp", (a(7) == 0) & (a(6) == 0) & (a(5) == 0), none))
        if mouse:
            low_df = (p & 0xFF) == 0xDF
            certain_not = (a(0) == 0) | (a(5) == 1)
            unspec = ~low_df & ~certain_not
            sel.append(("mouse_b", low_df & (a(8) == 0), unspec))
            sel.append(("mouse_x", low_df & (a(8) == 1) & (a(10) == 0), unspec))
            sel.append(("mouse_y", low_df & (a(8) == 1) & (a(10) == 1), unspec))
        default = DEV["float"]
    else:
        sel.append(("ula", a(0) == 0, none))
        sel.append(("ay_sel", (a(15) == 1) & (a(14) == 1) & (a(1) == 0), none))
        sel.append(("ay_data", (a(15) == 1) & (a(14) == 0) & (a(1) == 0), none))
        if m == "Sinclair128K":
            sel.append(("p7ffd", (a(15) == 0) & (a(1) == 0), none))
        default = DEV["none"] if False else -1
    count = np.zeros(65536, dtype=np.int64)
    determinate = np.ones(65536, dtype=bool)
    for d, s, u in sel:
        count += s
        determinate &= ~u
        want[s & (want == 0)] = DEV[d]
    one = count == 1
    zero = count == 0
    if meth == "read_io":
        want[zero] = DEV["float"]
        return want, determinate & (one | zero)
    want[zero] = DEV["none"]
    return want, determinate & (one | zero)


def flatten_and(t, out):
    if t.op == "and":
        flatten_and(t.args[0], out)
        flatten_and(t.args[1], out)
    else:
        out.append(t)


def classify(chk, prog, names, mk, r, meth, key, port, data, mask):
    tr = [e for e in r.trace if e.path not in (r.trace and ())]
    paths = [e.path for e in r.trace]
    if meth == "read_io":
        leaves = []
        if any(p.endswith("IoExtender::read") for p in paths):
            leaves.append("ext")
        if mk["ear"] in paths:
            leaves.append("ula")
        if mk["ay"] in paths:
            leaves.append("ay")
        if mk["kemp"] in paths:
            leaves.append("kemp")
        if mk["float"] in paths:
            leaves.append("float")
        ret = r.ret
        if isinstance(ret, T) and ret.op == "sym" and ret.args[0].startswith("ctl.mouse.Some.0."):
            f = ret.args[0].split(".")[-1]
            leaves.append({"buttons_port": "mouse_b", "x_pos_port": "mouse_x", "y_pos_port": "mouse_y"}.get(f, "mouse?"))
        if len(leaves) != 1:
            chk.fail("T-TABLE/%s/one-leaf" % key, "a read reaches %s (exactly one device must answer)" % leaves)
            return None, False
        leaf = leaves[0]
        # the value returned must be the leaf's value
        if leaf == "ext":
            chk.check(ret is tm.sym("EXTVAL", 8), "T-TABLE/%s/ext-value" % key, "extender read value is not returned")
        elif leaf in ("ay", "kemp", "float"):
            src = [e for e in r.trace if e.path == mk[leaf]][0]
            chk.check(ret is src.ret, "T-TABLE/%s/%s-value" % (key, leaf), "%s value is not what the read returns" % leaf)
        elif leaf == "ula":
            ula_read(chk, r, key, port, mask)
        return leaf, True
    leaves = []
    if any(p.endswith("IoExtender::write") for p in paths):
        leaves.append("ext")
    if mk["ay_sel"] in paths:
        leaves.append("ay_sel")
    if mk["ay_data"] in paths:
        leaves.append("ay_data")
    if mk["ula_w"] in paths:
        leaves.append("ula")
    if mk["p7ffd"] in paths:
        leaves.append("p7ffd")
    if len(leaves) > 1:
        chk.fail("T-TABLE/%s/one-leaf" % key, "a write reaches %s" % leaves)
        return None, False
    leaf = leaves[0] if leaves else "none"
    if leaf == "ula":
        e = [x for x in r.trace if x.path == mk["ula_w"]][0]
        col = e.args[2]
        COLOR = prog.adt_path("rustzx_core", "ZXColor")
        # ZXColor::from_bits(data & 7): the path fixes the three bits; the colour's discriminant must be that value
        ok = isinstance(col, Agg)
        if ok:
            discr = prog.adt(COLOR)["variants"][col.variant]["discr"]
            got = c04.cc_decide(r, tm.cmp("eq", tm.binop("and", data, K(7, 8)), K(discr, 8)))
            ok = got is True
        chk.check(ok, "T-BITS/%s/border" % key, "border colour written is not data & 7 (%r)" % (col,))
        bp = [x for x in r.trace if x.path == mk["beeper"]]
        if bp:
            ear, mic = bp[0].args[1], bp[0].args[2]
            chk.check(isinstance(ear, T) and tm.equiv(ear, tm.cmp("ne", tm.binop("and", data, K(0x10, 8)), K(0, 8))) is True,
                      "T-BITS/%s/speaker" % key, "speaker level is %s, documented bit 4" % (ear,))
            chk.check(isinstance(mic, T) and tm.equiv(mic, tm.cmp("ne", tm.binop("and", data, K(0x08, 8)), K(0, 8))) is True,
                      "T-BITS/%s/mic" % key, "MIC level is %s, documented bit 3" % (mic,))
        chk.check(e.args[1] is tm.sym("FC", 64), "T-BITS/%s/border-clock" % key,
                  "border change is stamped with %s, not the controller's frame clock at the device write" % (e.args[1],))
    elif leaf in ("ay_sel", "ay_data", "p7ffd"):
        e = [x for x in r.trace if x.path == mk[leaf]][0]
        chk.check(e.args[1] is data, "T-BITS/%s/%s-data" % (key, leaf), "%s receives %s instead of the data byte" % (leaf, e.args[1]))
    return leaf, True


_KB = {}


def ula_read(chk, r, key, port, mask):
    """result = AND of keyboard/extended/sinclair rows whose address line is low, xor 0x40 unless EAR"""
    ret = r.ret
    ear = c04.cc_decide(r, tm.sym("EAR", 1))
    if ear is None:
        chk.undecided_("T-BITS/%s/ear" % key, "ULA read path does not decide the tape level")
        return
    core = ret if ear else tm.binop("xor", ret, K(0x40, 8))
    leaves = []
    flatten_and(core, leaves)
    got = set()
    ok = True
    for l in leaves:
        if l.is_const():
            ok = ok and l.val == 0xFF
        elif l.op == "sym":
            got.add(l.args[0])
        else:
            ok = False
    pm = np.arange(65536, dtype=np.int64)[mask]
    rows = []
    for n in range(8):
        b = (pm >> (8 + n)) & 1
        if len(pm) == 0 or (b.min() != b.max()):
            chk.undecided_("T-BITS/%s/rows" % key, "path does not decide address line A%d" % (8 + n))
            return
        if b[0] == 0:
            rows.append(n)
    # the three key matrices, located by role (what the three public senders write), not by field name
    if "roles" not in _KB:
        _KB["roles"] = cc.keyboard_roles(_KB["prog"], _KB["names"])
    mats = [_KB["roles"][x][1] for x in ("main", "extended", "sinclair")]
    want = set("%s[%d]" % (mx, n) for n in rows for mx in mats)
    chk.check(ok and got == want, "T-BITS/%s/rows" % key,
              "ULA read with rows %s low (EAR=%s) returns %s; documented AND of %s, bit 6 inverted when EAR is low" % (
                  rows, ear, tm.show(ret), sorted(want)))
    chk.count("ula-read-paths")
