"""C07 — port decoding (T-TABLE over all 65536 addresses x configurations)."""
import numpy as np

from . import corecommon as cc
from . import c04
from zx import term as tm
from zx.term import K, T
from zx.walk import Walker, Agg, Ref, EffectResult, UNIT, SymObj

LEVEL = "proof"

EXPL = (
    "Decided: read_io and write_io are extracted as complete path sets (device leaves as effects); every path's branch "
    "conditions over the 16 address bits are tabulated for all 65536 addresses, per configuration (machine x mouse x "
    "joystick x extender absent/claims/declines), giving the device reached at each address; this table is compared with "
    "the decode cubes of the statement at every address where exactly one device is selected (three-valued oracle: the "
    "mouse is fixed only on xxDF-style addresses), and unclaimed reads must fall to the floating bus.  The extender is "
    "consulted with the same port, receives exactly the ports it claims and pre-empts every other device.  ULA read: the "
    "result is the AND of the three key matrices over exactly the rows whose address line is low, bit 6 toggled by the "
    "tape level; ULA write: border = data[0..2], MIC bit 3, speaker bit 4.  NOT decided: the floating-bus byte itself."
)

DEV = {"none": 12, "ext": 1, "ula": 2, "mouse_b": 3, "mouse_x": 4, "mouse_y": 5, "ay": 6, "kemp": 7, "float": 8,
       "ay_sel": 9, "ay_data": 10, "p7ffd": 11}
NAME = dict((v, k) for k, v in DEV.items())


def bits(port, n):
    return (port >> n) & 1


def run(chk):
    prog = cc.program("A")
    names = cc.Names(prog)
    chk.rule("T-TABLE", "device reached per (configuration, address) == decode cubes of the statement where exactly one device is selected")
    chk.rule("T-GUARD", "extender called only under its own extends_port(port) with the same port, and pre-empts all devices")
    chk.rule("T-BITS", "ULA read row selection / AND of matrices / EAR bit; ULA write border, MIC, speaker bits")
    for m in names.machine_variants():
        decode(chk, prog, names, m, "read_io")
        decode(chk, prog, names, m, "write_io")
    chk.floor("decode-rows", 2 * 2 * 65536 * 12)
    return chk.finish(EXPL, extra={"exhaustive": True})


def leaf_markers(prog, names):
    """functions treated as device leaves (opaque effects)"""
    f = {}
    f["float"] = names.ctl("floating_bus_value")
    f["ay"] = names.ctl("read_ay_port")
    f["ay_sel"] = names.ctl("select_ay_reg")
    f["ay_data"] = names.ctl("write_ay_port")
    f["ula_w"] = names.ctl("set_border_color")
    f["p7ffd"] = names.ctl("write_7ffd")
    f["kemp"] = prog.fn_path("rustzx_core", "KempstonJoy::read")
    cb = [p for p in prog.fns if p.startswith("<rustzx_core::") and "ZXTape" in p and p.endswith("::current_bit")]
    if len(cb) != 1:
        raise KeyError("anchor: ZXTape::current_bit not unique: %s" % cb)
    f["ear"] = cb[0]
    bp = [p for p in prog.fns if p.startswith("rustzx_core::") and p.endswith("::change_state")]
    if len(bp) != 1:
        raise KeyError("anchor: beeper change_state not unique: %s" % bp)
    f["beeper"] = bp[0]
    return f


def decode(chk, prog, names, m, meth):
    mk = leaf_markers(prog, names)
    # the contention helpers are judged by C04; here they are opaque so that only the decode chain forks
    w = c04.make_walker(prog, names, extra_opaque=[v for v in mk.values()] + [names.ctl("io_contention_first"), names.ctl("io_contention_last")])
    w.max_paths = 100000
    st = cc.controller_state(w, prog, names, m)
    port = tm.sym("port", 16)
    data = tm.sym("data", 8)
    args = [Ref(cc.CTL, (), True), port] + ([data] if meth == "write_io" else [])
    base_hook = w.effect_hook

    def hook(w_, st_, path, args_, dty, where):
        if path.endswith("IoExtender::extends_port"):
            n = sum(1 for e in st_.trace if e.path == path)
            return EffectResult(tm.sym("CLAIMS", 1) if n == 0 else tm.sym("CLAIMS%d" % n, 1), havoc=False)
        if path.endswith("IoExtender::read"):
            return EffectResult(tm.sym("EXTVAL", 8), havoc=False)
        if path.endswith("IoExtender::write"):
            return EffectResult(UNIT, havoc=False)
        if path == mk["ear"]:
            return EffectResult(tm.sym("EAR", 1), havoc=False)
        return base_hook(w_, st_, path, args_, dty, where)
    w.effect_hook = hook
    rs = w.run(prog.fn(names.bus(meth)), args, genv=cc.GENV, state=st)
    key = "ZXController::%s/%s" % (meth, m)
    if not rs or any(r.outcome != "return" for r in rs):
        chk.fail("T-TABLE/%s/paths" % key, "non-returning paths: %s" % [(r.outcome, r.detail) for r in rs if r.outcome != "return"][:2])
        return
    ports = np.arange(65536, dtype=np.uint64)
    env = {"port": ports}
    # configuration of a path: extender (absent / claims / declines), mouse, kempston
    table = {}
    n_ula = 0
    for r in rs:
        cfg = {"ext": None, "mouse": None, "kemp": None}
        for c in r.pc:
            if c[0] == "variant" and c[1] == "ctl.io_extender":
                cfg["ext"] = "absent" if c[2] == "None" else "present"
            elif c[0] == "variant" and c[1] == "ctl.mouse":
                cfg["mouse"] = c[2] == "Some"
            elif c[0] == "variant" and c[1] == "ctl.kempston":
                cfg["kemp"] = c[2] == "Some"
        claims = c04.cc_decide(r, tm.sym("CLAIMS", 1))
        if cfg["ext"] == "present":
            if claims is None:
                chk.undecided_("T-GUARD/%s/claims" % key, "extender present but the path does not decide extends_port")
                continue
            cfg["ext"] = "claims" if claims else "declines"
        # extender discipline
        exts = [e for e in r.trace if "IoExtender::" in e.path]
        for e in exts:
            chk.check(e.args[1] is port, "T-GUARD/%s/ext-same-port" % key, "extender method %s called with %s instead of the port" % (e.path.split("::")[-1], e.args[1]))
        acc = [e for e in exts if not e.path.endswith("extends_port")]
        chk.check((len(acc) == 1) == (cfg["ext"] == "claims"), "T-GUARD/%s/ext-iff-claims" % key,
                  "extender %s: %d access(es) (must be accessed exactly when it claims the port)" % (cfg["ext"], len(acc)))
        # address mask of the path: only conditions over the port
        mask = np.ones(65536, dtype=bool)
        for c in r.pc:
            if c[0] in ("eq", "ne", "index") and isinstance(c[1], T) and tm.syms(c[1]) <= {"port"} and tm.syms(c[1]):
                v = tm.evaluate(c[1], env)
                if c[0] == "ne":
                    for x in c[2]:
                        mask &= (v != x)
                else:
                    mask &= (v == c[2])
        # device leaf
        leaf, extra_ok = classify(chk, prog, names, mk, r, meth, key, port, data, mask)
        if leaf is None:
            continue
        if cfg["ext"] == "claims":
            chk.check(leaf == "ext", "T-GUARD/%s/ext-preempts" % key, "extender claims the port but %s is also reached" % leaf)
        if leaf == "ula":
            n_ula += 1
        exts_ = [cfg["ext"]] if cfg["ext"] is not None else ["absent", "claims", "declines"]
        mice = [cfg["mouse"]] if cfg["mouse"] is not None else [True, False]
        kemps = [cfg["kemp"]] if cfg["kemp"] is not None else [True, False]
        for e_ in exts_:
            for mo in mice:
                for ke in kemps:
                    t = table.setdefault((e_, mo, ke), np.zeros(65536, dtype=np.int16))
                    clash = (t[mask] != 0) & (t[mask] != DEV[leaf])
                    if clash.any():
                        chk.fail("T-TABLE/%s/ambiguous" % key, "two paths reach different devices for the same address/configuration")
                    t[mask] = DEV[leaf]
        chk.count("decode-paths")
    # compare with the oracle per configuration
    for cfgk, t in sorted(table.items(), key=str):
        e_, mo, ke = cfgk
        miss = np.nonzero(t == 0)[0]
        if not chk.check(len(miss) == 0, "T-TABLE/%s/%s/total" % (key, cfgname(cfgk)), "no device/leaf decided for %d addresses, e.g. 0x%04X" % (len(miss), miss[0] if len(miss) else 0)):
            continue
        want, determinate = oracle(meth, m, e_, mo, ke)
        cmpm = determinate
        bad = np.nonzero(cmpm & (t != want))[0]
        chk.count("decode-rows", 65536)
        chk.check(len(bad) == 0, "T-TABLE/%s/%s" % (key, cfgname(cfgk)),
                  "%s %s [%s]: %d addresses reach the wrong device, e.g. port 0x%04X reaches %s, documented %s" % (
                      m, meth, cfgname(cfgk), len(bad), bad[0] if len(bad) else 0,
                      NAME.get(int(t[bad[0]])) if len(bad) else "-", NAME.get(int(want[bad[0]])) if len(bad) else "-"))
        chk.count("compared-addresses", int(cmpm.sum()))
    chk.check(len(table) == 12, "T-TABLE/%s/configs" % key, "expected 12 configurations, got %d" % len(table))
    chk.sample({"method": meth, "machine": m, "paths": len(rs), "configs": len(table),
                "example": {"port": "0x7FFD", "device": NAME.get(int(table[("absent", False, False)][0x7FFD])) if ("absent", False, False) in table else None}})


def cfgname(c):
    return "ext=%s,mouse=%s,kempston=%s" % (c[0], "on" if c[1] else "off", "on" if c[2] else "off")


def oracle(meth, m, ext, mouse, kemp):
    """(device id per address, mask of addresses taking part in the comparison)"""
    p = np.arange(65536, dtype=np.int64)
    a = lambda n: (p >> n) & 1
    want = np.zeros(65536, dtype=np.int16)
    if ext == "claims":
        want[:] = DEV["ext"]
        return want, np.ones(65536, dtype=bool)
    sel = []      # (device, selected mask, unspecified mask)
    none = np.zeros(65536, dtype=bool)
    if meth == "read_io":
        sel.append(("ula", a(0) == 0, none))
        sel.append(("ay", (a(15) == 1) & (a(14) == 1) & (a(1) == 0), none))
        if kemp:
            sel.append(("kemp", (a(7) == 0) & (a(6) == 0) & (a(5) == 0), none))
        if mouse:
            low_df = (p & 0xFF) == 0xDF
            certain_not = (a(0) == 0) | (a(5) == 1)
            unspec = ~low_df & ~certain_not
            sel.append(("mouse_b", low_df & (a(8) == 0), unspec))
            sel.append(("mouse_x", low_df & (a(8) == 1) & (a(10) == 0), unspec))
            sel.append(("mouse_y", low_df & (a(8) == 1) & (a(10) == 1), unspec))
        default = DEV["float"]
    else:
        sel.append(("ula", a(0) == 0, none))
        sel.append(("ay_sel", (a(15) == 1) & (a(14) == 1) & (a(1) == 0), none))
        sel.append(("ay_data", (a(15) == 1) & (a(14) == 0) & (a(1) == 0), none))
        if m == "Sinclair128K":
            sel.append(("p7ffd", (a(15) == 0) & (a(1) == 0), none))
        default = DEV["none"] if False else -1
    count = np.zeros(65536, dtype=np.int64)
    determinate = np.ones(65536, dtype=bool)
    for d, s, u in sel:
        count += s
        determinate &= ~u
        want[s & (want == 0)] = DEV[d]
    one = count == 1
    zero = count == 0
    if meth == "read_io":
        want[zero] = DEV["float"]
        return want, determinate & (one | zero)
    want[zero] = DEV["none"]
    return want, determinate & (one | zero)


def flatten_and(t, out):
    if t.op == "and":
        flatten_and(t.args[0], out)
        flatten_and(t.args[1], out)
    else:
        out.append(t)


def classify(chk, prog, names, mk, r, meth, key, port, data, mask):
    tr = [e for e in r.trace if e.path not in (r.trace and ())]
    paths = [e.path for e in r.trace]
    if meth == "read_io":
        leaves = []
        if any(p.endswith("IoExtender::read") for p in paths):
            leaves.append("ext")
        if mk["ear"] in paths:
            leaves.append("ula")
        if mk["ay"] in paths:
            leaves.append("ay")
        if mk["kemp"] in paths:
            leaves.append("kemp")
        if mk["float"] in paths:
            leaves.append("float")
        ret = r.ret
        if isinstance(ret, T) and ret.op == "sym" and ret.args[0].startswith("ctl.mouse.Some.0."):
            f = ret.args[0].split(".")[-1]
            leaves.append({"buttons_port": "mouse_b", "x_pos_port": "mouse_x", "y_pos_port": "mouse_y"}.get(f, "mouse?"))
        if len(leaves) != 1:
            chk.fail("T-TABLE/%s/one-leaf" % key, "a read reaches %s (exactly one device must answer)" % leaves)
            return None, False
        leaf = leaves[0]
        # the value returned must be the leaf's value
        if leaf == "ext":
            chk.check(ret is tm.sym("EXTVAL", 8), "T-TABLE/%s/ext-value" % key, "extender read value is not returned")
        elif leaf in ("ay", "kemp", "float"):
            src = [e for e in r.trace if e.path == mk[leaf]][0]
            chk.check(ret is src.ret, "T-TABLE/%s/%s-value" % (key, leaf), "%s value is not what the read returns" % leaf)
        elif leaf == "ula":
            ula_read(chk, r, key, port, mask)
        return leaf, True
    leaves = []
    if any(p.endswith("IoExtender::write") for p in paths):
        leaves.append("ext")
    if mk["ay_sel"] in paths:
        leaves.append("ay_sel")
    if mk["ay_data"] in paths:
        leaves.append("ay_data")
    if mk["ula_w"] in paths:
        leaves.append("ula")
    if mk["p7ffd"] in paths:
        leaves.append("p7ffd")
    if len(leaves) > 1:
        chk.fail("T-TABLE/%s/one-leaf" % key, "a write reaches %s" % leaves)
        return None, False
    leaf = leaves[0] if leaves else "none"
    if leaf == "ula":
        e = [x for x in r.trace if x.path == mk["ula_w"]][0]
        col = e.args[2]
        COLOR = prog.adt_path("rustzx_core", "ZXColor")
        # ZXColor::from_bits(data & 7): the path fixes the three bits; the colour's discriminant must be that value
        ok = isinstance(col, Agg)
        if ok:
            discr = prog.adt(COLOR)["variants"][col.variant]["discr"]
            got = c04.cc_decide(r, tm.cmp("eq", tm.binop("and", data, K(7, 8)), K(discr, 8)))
            ok = got is True
        chk.check(ok, "T-BITS/%s/border" % key, "border colour written is not data & 7 (%r)" % (col,))
        bp = [x for x in r.trace if x.path == mk["beeper"]]
        if bp:
            ear, mic = bp[0].args[1], bp[0].args[2]
            chk.check(isinstance(ear, T) and tm.equiv(ear, tm.cmp("ne", tm.binop("and", data, K(0x10, 8)), K(0, 8))) is True,
                      "T-BITS/%s/speaker" % key, "speaker level is %s, documented bit 4" % (ear,))
            chk.check(isinstance(mic, T) and tm.equiv(mic, tm.cmp("ne", tm.binop("and", data, K(0x08, 8)), K(0, 8))) is True,
                      "T-BITS/%s/mic" % key, "MIC level is %s, documented bit 3" % (mic,))
        chk.check(e.args[1] is tm.sym("FC", 64), "T-BITS/%s/border-clock" % key,
                  "border change is stamped with %s, not the controller's frame clock at the device write" % (e.args[1],))
    elif leaf in ("ay_sel", "ay_data", "p7ffd"):
        e = [x for x in r.trace if x.path == mk[leaf]][0]
        chk.check(e.args[1] is data, "T-BITS/%s/%s-data" % (key, leaf), "%s receives %s instead of the data byte" % (leaf, e.args[1]))
    return leaf, True


def ula_read(chk, r, key, port, mask):
    """result = AND of keyboard/extended/sinclair rows whose address line is low, xor 0x40 unless EAR"""
    ret = r.ret
    ear = c04.cc_decide(r, tm.sym("EAR", 1))
    if ear is None:
        chk.undecided_("T-BITS/%s/ear" % key, "ULA read path does not decide the tape level")
        return
    core = ret if ear else tm.binop("xor", ret, K(0x40, 8))
    leaves = []
    flatten_and(core, leaves)
    got = set()
    ok = True
    for l in leaves:
        if l.is_const():
            ok = ok and l.val == 0xFF
        elif l.op == "sym":
            got.add(l.args[0])
        else:
            ok = False
    pm = np.arange(65536, dtype=np.int64)[mask]
    rows = []
    for n in range(8):
        b = (pm >> (8 + n)) & 1
        if len(pm) == 0 or (b.min() != b.max()):
            chk.undecided_("T-BITS/%s/rows" % key, "path does not decide address line A%d" % (8 + n))
            return
        if b[0] == 0:
            rows.append(n)
    want = set("ctl.%s[%d]" % (mx, n) for n in rows for mx in ("keyboard", "keyboard_extended", "keyboard_sinclair"))
    chk.check(ok and got == want, "T-BITS/%s/rows" % key,
              "ULA read with rows %s low (EAR=%s) returns %s; documented AND of %s, bit 6 inverted when EAR is low" % (
                  rows, ear, tm.show(ret), sorted(want)))
    chk.count("ula-read-paths")
