"""C08 — displayed picture: address decode, pixel/attribute selection, flash, shadow coherence, bank selection."""
import re
from . import corecommon as cc
from . import c04
from zx import term as tm
from zx.term import K, T
from zx.walk import Walker, Agg, Ref, EffectResult, UNIT, SymObj
from zx import scan

LEVEL = "other"

EXPL = (
    "Decided: D1 - bitmap_line_rel / bitmap_col_rel / attr_row_rel / attr_col_rel equal the documented bit permutation of the "
    "screen offset (term equivalence over all 16-bit inputs); ZXAttribute::from_byte takes ink 0-2, paper 3-5, bright 6, "
    "flash 7 (all 128 decode paths); active_color is ink iff pixel xor (flash && phase) (8-row truth table); the render loop "
    "body for a symbolic block b: pixel p takes bit 7-p of bitmap[b], lands at x=(b%32)*8+p, y=b/32, coloured by "
    "attribute[(b/256)*32+b%32] and the ink/paper choice above (all 1024 first-iteration paths); update() stores the byte at "
    "line*32+col of the bank / decodes the attribute at row*32+col; flash phase toggles exactly when frame_counter%16==0 and the "
    "buffers are swapped each frame.  D2 shadow coherence - every RAM mutation reachable from the Emulator API is followed on "
    "every exit by ZXScreen::update for that address/bank or by refresh_memory_dependent_devices (must-pass-through on the CFG; "
    "write_internal path-sensitively).  D3 - local_bank table 48K:0->0, 128K:5->0,7->1.  D4 beam - BlocksCount::from_clocks tabulated for every T of the frame: monotone, 6144 cells in raster order, each "
    "cell passed within -16..+4 T of first_pixel + line*clocks_line + 4*col; process_clocks renders exactly [recorded, passed "
    "now) and then records it, keeps the record when nothing passed; passed_from is the difference of the linear cell "
    "indices (linear arithmetic).  NOT decided: writes inside the tolerance window around the beam."
)


def run(chk):
    prog = cc.program("A")
    names = cc.Names(prog)
    chk.rule("T-BITS", "screen address decode, attribute fields, pixel bit / position / colour selection")
    chk.rule("T-PAIR", "every RAM mutation is followed on every exit by a shadow-screen update")
    chk.rule("T-TABLE", "local_bank table; flash toggle period")
    address_decode(chk, prog)
    attribute_decode(chk, prog)
    active_color(chk, prog)
    render_loop(chk, prog, names)
    update_fn(chk, prog, names)
    new_frame(chk, prog)
    shadow_coherence(chk, prog, names)
    refresh_covers_banks(chk, prog, names)
    beam_relative(chk, prog, names)
    # the beam position the renderer works from is the controller's frame clock *after* the wait just performed: the
    # '/screen-gets-clock' obligation of C05's walk of wait_internal (both machines)
    from . import c05
    from zx.report import FilteredCheck
    chk.rule("T-PAIR (shared with C05)", "wait_internal hands the advanced frame clock to ZXScreen::process_clocks exactly once on every path")
    fc = FilteredCheck(chk, lambda k: k.endswith("/screen-gets-clock"), "c05")
    for m_ in names.machine_variants():
        c05.wait_internal(fc, prog, names, m_)
    chk.check(fc.forwarded >= 4, "T-PAIR/ZXController::wait_internal/screen-gets-clock/judged", "judged on %d paths only" % fc.forwarded)
    return chk.finish(EXPL)


def one_path(chk, prog, fn, args, key, genv=None, walker=None, state=None):
    w = walker or Walker(prog)
    rs = w.run(fn, args, genv=genv or {}, state=state)
    good = [r for r in rs if r.outcome == "return"]
    # paths ending in the function's own assert!() are its stated precondition, not a result
    other = [r for r in rs if r.outcome != "return" and not (r.outcome == "panic" and r.detail and "panicking::panic" in str(r.detail[1]))]
    if good and not other and all(g.ret is good[0].ret or (isinstance(g.ret, T) and isinstance(good[0].ret, T) and tm.equiv(g.ret, good[0].ret) is True) for g in good):
        return good[0]
    chk.undecided_(key, "expected one returning path (or several with the same result), got %s" % [(r.outcome, r.detail) for r in rs][:5])
    return None


def address_decode(chk, prog):
    addr = tm.sym("addr", 16)
    a64 = tm.zext(addr, 64)
    sh = lambda x, n: tm.binop("lshr", x, K(n, 64))
    an = lambda x, m: tm.binop("and", x, K(m, 64))
    orr = lambda *xs: xs[0] if len(xs) == 1 else tm.binop("or", xs[0], orr(*xs[1:]))
    want = {
        # offset = ((y&0xC0)<<5)|((y&7)<<8)|((y&0x38)<<2)|col
        "bitmap_line_rel": orr(an(sh(a64, 5), 0xC0), an(sh(a64, 8), 0x07), an(sh(a64, 2), 0x38)),
        "bitmap_col_rel": an(a64, 0x1F),
        "attr_row_rel": tm.zext(tm.binop("lshr", tm.binop("sub", addr, K(0x1800, 16)), K(5, 16)), 64),
        "attr_col_rel": tm.zext(tm.binop("and", tm.binop("sub", addr, K(0x1800, 16)), K(0x1F, 16)), 64),
    }
    for name, w_ in want.items():
        try:
            fn = prog.fn(prog.fn_path("rustzx_core", name))
        except KeyError as e:
            chk.undecided_("anchor/%s" % name, str(e))
            continue
        r = one_path(chk, prog, fn, [addr], "T-BITS/%s/paths" % name)
        if r is None:
            continue
        ok = isinstance(r.ret, T) and tm.equiv(r.ret, w_) is True
        chk.check(ok, "T-BITS/utils::screen::%s" % name, "%s(addr) = %s; documented %s%s" % (
            name, tm.show(r.ret), tm.show(w_), " (differs e.g. at %s)" % tm.equiv.witness if tm.equiv.witness else ""))
        chk.count("decode-functions")
    chk.floor("decode-functions", 4)


def attribute_decode(chk, prog):
    ATTR = prog.adt_path("rustzx_core", "ZXAttribute")
    COLOR = prog.adt_path("rustzx_core", "ZXColor")
    BR = prog.adt_path("rustzx_core", "ZXBrightness")
    fn = prog.fn(prog.fn_path("rustzx_core", "ZXAttribute::from_byte"))
    data = tm.sym("data", 8)
    w = Walker(prog)
    rs = w.run(fn, [data], genv={})
    key = "T-BITS/ZXAttribute::from_byte"
    if not rs or any(r.outcome != "return" for r in rs):
        chk.fail(key + "/paths", "non-returning paths: %s" % [(r.outcome, r.detail) for r in rs if r.outcome != "return"][:2])
        return
    fi = lambda n: prog.field_index(ATTR, n)
    discr = lambda adt, v: prog.adt(adt)["variants"][v.variant]["discr"]
    for r in rs:
        a = r.ret
        ink, paper, br, fl = a.fields[fi("ink")], a.fields[fi("paper")], a.fields[fi("brightness")], a.fields[fi("flash")]
        ok = isinstance(ink, Agg) and isinstance(paper, Agg) and isinstance(br, Agg)
        if ok:
            ok = c04.cc_decide(r, tm.cmp("eq", tm.binop("and", data, K(7, 8)), K(discr(COLOR, ink), 8))) is True and \
                c04.cc_decide(r, tm.cmp("eq", tm.binop("and", tm.binop("lshr", data, K(3, 8)), K(7, 8)), K(discr(COLOR, paper), 8))) is True
        chk.check(ok, key + "/ink-paper", "ink/paper are not bits 0-2 / 3-5 of the attribute byte on path %s" % ([c[:3] for c in r.pc],))
        b6 = c04.cc_decide(r, tm.cmp("ne", tm.binop("and", data, K(0x40, 8)), K(0, 8)))
        chk.check(isinstance(br, Agg) and b6 is not None and discr(BR, br) == (1 if b6 else 0), key + "/bright", "BRIGHT is not bit 6")
        chk.check(isinstance(fl, T) and tm.equiv(fl, tm.cmp("ne", tm.binop("and", data, K(0x80, 8)), K(0, 8))) is True,
                  key + "/flash", "FLASH is not bit 7: %s" % (fl,))
        chk.count("attribute-paths")
    chk.floor("attribute-paths", 128)


def active_color(chk, prog):
    ATTR = prog.adt_path("rustzx_core", "ZXAttribute")
    COLOR = prog.adt_path("rustzx_core", "ZXColor")
    BR = prog.adt_path("rustzx_core", "ZXBrightness")
    try:
        fn = prog.fn(prog.fn_path("rustzx_core", "ZXAttribute::active_color"))
    except KeyError:
        # no such helper (any more): the render-loop rule judges the colour of every pixel from the attribute byte,
        # the bitmap bit and the flash phase with whatever helpers there are inlined
        chk.observe("ZXAttribute::active_color does not exist; pixel colour selection is judged by the render-loop rule alone")
        return
    INK, PAPER = 2, 5
    fi = lambda n: prog.field_index(ATTR, n)
    for state in (0, 1):
        for flash in (0, 1):
            for phase in (0, 1):
                w = Walker(prog)
                st = w.new_state()
                fields = [None] * 4
                fields[fi("ink")] = Agg(("adt", COLOR), INK, ())
                fields[fi("paper")] = Agg(("adt", COLOR), PAPER, ())
                fields[fi("brightness")] = Agg(("adt", BR), 0, ())
                fields[fi("flash")] = K(flash, 1)
                st.store[("h", "attr")] = Agg(("adt", ATTR), 0, fields)
                r = one_path(chk, prog, fn, [Ref(("h", "attr"), (), False), K(state, 1), K(phase, 1)],
                             "T-TABLE/active_color/paths", state=st, walker=w)
                if r is None:
                    continue
                want = INK if (state ^ (flash & phase)) else PAPER
                chk.check(isinstance(r.ret, Agg) and r.ret.variant == want, "T-TABLE/ZXAttribute::active_color/%d%d%d" % (state, flash, phase),
                          "pixel=%d flash=%d phase=%d selects %s; documented %s" % (state, flash, phase, "ink" if isinstance(r.ret, Agg) and r.ret.variant == INK else "paper",
                                                                                   "ink" if want == INK else "paper"))
                chk.count("active-color-rows")


def render_loop(chk, prog, names):
    SCR = prog.adt_path("rustzx_core", "ZXScreen")
    FB = ("param", "FB", 0)
    w = Walker(prog, loop_bound=1, max_paths=5000)
    w.branch_loop_bound = 8      # one cell (one iteration of the cell loop), but a data-dependent branch per pixel is fine
    FC = prog.fn_path("rustzx_core", "BlocksCount::from_clocks")
    PF = prog.fn_path("rustzx_core", "BlocksCount::passed_from")
    w.opaque_paths |= {FC, PF}

    def hook(w_, st, path, a, d, wh):
        if path == FC:
            return EffectResult(None, havoc=False)
        if path == PF:
            return EffectResult(tm.sym("COUNT", 64), havoc=False)
        if path.endswith("::set_color"):
            return EffectResult(UNIT, havoc=False)
        return None
    w.effect_hook = hook
    st = w.new_state()
    st.store[("h", "scr")] = w.materialise(SymObj("scr", ("adt", SCR, (FB,))), st)
    fn = prog.fn(prog.fn_path("rustzx_core", "ZXScreen::<FB>::process_clocks"))
    rs = w.run(fn, [Ref(("h", "scr"), (), True), tm.sym("clocks", 64)], genv={"FB": FB}, state=st)
    key = "T-BITS/ZXScreen::process_clocks"
    bad = [r for r in rs if r.outcome not in ("return", "cut")]
    if bad:
        chk.fail(key + "/paths", "render loop exploration failed: %s %s" % (bad[0].outcome, bad[0].detail))
        return
    b = tm.binop("add", tm.sym("scr.last_blocks.columns", 64), tm.binop("shl", tm.sym("scr.last_blocks.lines", 64), K(5, 64)))
    n = 0
    for r in rs:
        sc = [e for e in r.trace if e.path.endswith("::set_color")]
        fc_ev = [e for e in r.trace if e.path == FC]
        if len(sc) < 8:
            chk.check(len(sc) == 0, key + "/partial", "a path renders %d pixels of a block" % len(sc))
            if r.outcome == "return" and len(sc) == 0:
                # nothing rendered: either nothing passed (record kept) or an empty range; the record never moves
                # without the cells in between having been rendered
                lb = r.store[("h", "scr")].fields[prog.field_index(SCR, "last_blocks")]
                cnt = c04.cc_decide(r, tm.cmp("ult", K(0, 64), tm.sym("COUNT", 64)))
                if cnt is False:
                    kept = (getattr(lb, "name", None) == "scr.last_blocks") or \
                        (isinstance(lb, Agg) and all(isinstance(x, T) and x.op == "sym" and x.args[0].startswith("scr.last_blocks.") for x in lb.fields))
                    chk.check(kept, key + "/record-kept", "with no cell passed the record of rendered cells changes: %s" % (lb,))
            continue
        n += 1
        # the rendered range is [cells recorded as rendered, cells passed now)
        if fc_ev:
            now = None
            for c in r.pc:
                if c[0] in ("eq", "ne") and isinstance(c[1], T) and c[1].op == "ult" and c[1].args[0] is b:
                    now = c[1].args[1]
            names_now = sorted(tm.syms(now)) if now is not None else []
            ok_rng = now is not None and len(names_now) == 2 and all("from_clocks" in x for x in names_now) and \
                any(x.endswith(".lines") for x in names_now) and any(x.endswith(".columns") for x in names_now)
            if ok_rng:
                ln_ = tm.sym([x for x in names_now if x.endswith(".lines")][0], 64)
                cl_ = tm.sym([x for x in names_now if x.endswith(".columns")][0], 64)
                ok_rng = tm.equiv(now, tm.binop("add", cl_, tm.binop("shl", ln_, K(5, 64)))) is True or now is tm.binop("add", cl_, tm.binop("shl", ln_, K(5, 64)))
            chk.check(ok_rng, key + "/range", "the cells rendered do not run from the recorded position up to lines*32+columns of the cells passed now: end %s" % (tm.show(now) if now is not None else None))
        bank = [c[2] for c in r.pc if c[0] == "index" and isinstance(c[1], T) and tm.show(c[1]) == "scr.active_bank"]
        if len(bank) != 1:
            chk.fail(key + "/bank", "the render loop does not read the active bank")
            continue
        bk = bank[0]
        bm = None
        aname = None
        for c in r.pc:
            if c[0] in ("eq", "ne") and isinstance(c[1], T):
                for s in tm.syms(c[1]):
                    if ".bitmap." in s:
                        bm = s
                    if ".attributes." in s and s.endswith(".flash"):
                        aname = s[:-len(".flash")]
        if bm is None:
            chk.fail(key + "/bitmap", "pixel state does not depend on the bitmap byte")
            continue
        want_bm = "scr.banks[%d].bitmap" % bk
        idx_ok = bm.startswith(want_bm) and bm.endswith("[%s]" % tm.show(b))
        chk.check(idx_ok, key + "/bitmap-index", "bitmap byte read is %s; documented banks[active].bitmap[block]" % bm)
        attr_idx = tm.binop("add", tm.binop("and", b, K(31, 64)), tm.binop("shl", tm.binop("lshr", b, K(8, 64)), K(5, 64)))
        bmt = tm.sym(bm, 8)
        ok = True
        first_attr = None
        for p in range(8):
            x, y, col, br = sc[p].args[1], sc[p].args[2], sc[p].args[3], sc[p].args[4]
            wx = tm.binop("add", tm.binop("shl", tm.binop("and", b, K(31, 64)), K(3, 64)), K(p, 64))
            wy = tm.binop("lshr", b, K(5, 64))
            if not (isinstance(x, T) and isinstance(y, T) and tm.equiv(x, wx) is True and tm.equiv(y, wy) is True):
                chk.fail(key + "/position", "pixel %d of a block lands at (%s, %s); documented ((b%%32)*8+p, b/32)" % (p, x, y))
                ok = False
                break
            cname = getattr(col, "name", None) or ""
            if not (cname.endswith(".ink") or cname.endswith(".paper")):
                chk.fail(key + "/colour", "pixel colour is not the attribute's ink or paper: %r" % (col,))
                ok = False
                break
            an = cname.rsplit(".", 1)[0]
            first_attr = first_attr or an
            want_attr = "scr.banks[%d].attributes" % bk
            if not (an.startswith(want_attr) and an.endswith("[%s]" % tm.show(attr_idx)) and an == first_attr):
                chk.fail(key + "/attribute-index", "attribute used is %s; documented banks[active].attributes[(b/256)*32 + b%%32]" % an)
                ok = False
                break
            if getattr(br, "name", "") != an + ".brightness":
                chk.fail(key + "/brightness", "brightness is not taken from the same attribute")
                ok = False
                break
            # ink iff bit(7-p) xor (attr.flash and phase)
            state = tm.cmp("ne", tm.binop("and", bmt, K(0x80 >> p, 8)), K(0, 8))
            e = tm.binop("xor", state, tm.binop("and", tm.sym(an + ".flash", 1), tm.sym("scr.flash", 1)))
            d = decide_bool(r, e)
            if d is None or (d != cname.endswith(".ink")):
                chk.fail(key + "/ink-paper", "pixel %d shows %s although bit(7-p) xor (flash&&phase) is %s" % (p, cname.rsplit(".", 1)[1], d))
                ok = False
                break
        if ok:
            chk.ok()
    chk.count("render-paths", n)
    chk.floor("render-paths", 512)
    chk.sample({"render_loop": {"block": tm.show(b), "paths": n}})


def decide_bool(path, e):
    """truth of a boolean term under path facts: enumerate the (few) free bits compatible with the recorded facts"""
    import itertools
    syms = sorted(tm.deps(e))
    if len(syms) > 12:
        return None
    vals = set()
    facts = [(t, v.val) for t, v in path.facts.items() if tm.syms(t) and tm.deps(t) <= set(syms)]
    for bits in itertools.product((0, 1), repeat=len(syms)):
        env = {}
        for (s, j), v in zip(syms, bits):
            env[s] = env.get(s, 0) | (v << j)
        for s in tm.syms(e):
            env.setdefault(s, 0)
        okf = True
        for t, v in facts:
            try:
                for s in tm.syms(t):
                    env.setdefault(s, 0)
                if tm.evaluate(t, env) != v:
                    okf = False
                    break
            except Exception:
                continue
        if okf:
            vals.add(int(tm.evaluate(e, env)))
    if len(vals) == 1:
        return bool(vals.pop())
    return None


BANK_TABLE = {"Sinclair48K": {0: 0}, "Sinclair128K": {5: 0, 7: 1}}


def update_fn(chk, prog, names):
    """ZXScreen::update(rel, bank, data) for every machine and every RAM bank 0..7 (concrete), symbolic address and byte:
    the shadow copy written is the one documented for that bank (48K: bank 0 -> copy 0; 128K: 5 -> 0, 7 -> 1), no other
    bank touches a copy, and the cell index / value are the documented ones.  Whatever helper maps the bank (a method,
    an associated function of another type, a table) is inlined by the walker."""
    import re
    import numpy as np
    SCR = prog.adt_path("rustzx_core", "ZXScreen")
    FB = ("param", "FB", 0)
    fn = prog.fn(prog.fn_path("rustzx_core", "ZXScreen::<FB>::update"))
    addr, data = tm.sym("rel", 16), tm.sym("data", 8)
    rng = np.arange(65536, dtype=np.uint64)
    for m, table in BANK_TABLE.items():
        got_table = {}
        for bank in range(8):
            w = Walker(prog, max_paths=5000)
            w.opaque_paths |= {prog.fn_path("rustzx_core", "ZXAttribute::from_byte")}
            w.effect_hook = lambda w_, st_, path, a_, d_, wh_: EffectResult(None, havoc=False)
            st = w.new_state()
            scr = w.materialise(SymObj("scr", ("adt", SCR, (FB,))), st)
            scr = scr.with_field(prog.field_index(SCR, "machine"), cc.machine_value(prog, names, m))
            st.store[("h", "scr")] = scr
            rs = w.run(fn, [Ref(("h", "scr"), (), True), addr, K(bank, 64), data], genv={"FB": FB}, state=st)
            key = "T-BITS/ZXScreen::update"
            if not rs or any(r.outcome not in ("return",) for r in rs):
                chk.fail(key + "/paths", "%s bank %d: %s" % (m, bank, [(r.outcome, r.detail) for r in rs if r.outcome != "return"][:3]))
                continue
            kinds = np.zeros(65536, dtype=np.int8)
            for r in rs:
                mask = np.ones(65536, dtype=bool)
                for c in r.pc:
                    if c[0] in ("eq", "ne") and isinstance(c[1], T) and tm.syms(c[1]) == {"rel"}:
                        v = tm.evaluate(c[1], {"rel": rng})
                        if c[0] == "eq":
                            mask &= (v == c[2])
                        else:
                            for x in c[2]:
                                mask &= (v != x)
                writes = []
                for oid, val in r.store.items():
                    if isinstance(oid, tuple) and oid[0] == "h" and oid[1].startswith("scr.banks") and hasattr(val, "writes") and val.writes:
                        writes.append((oid[1], val.writes))
                if bank not in table:
                    chk.check(not writes, key + "/foreign-bank", "%s: update for bank %d, which the screen does not show, still writes %s" % (m, bank, writes))
                    chk.count("update-paths")
                    continue
                if not writes:
                    kinds[mask] = np.where(kinds[mask] == 0, 3, kinds[mask])
                    continue
                if len(writes) != 1 or len(writes[0][1]) != 1:
                    chk.fail(key + "/writes", "update performs several stores: %s" % (writes,))
                    continue
                name, ((idx, val),) = writes[0][0], writes[0][1]
                mo = re.match(r"scr\.banks\[(\d+)\]", name)
                if mo:
                    got_table.setdefault(bank, set()).add(int(mo.group(1)))
                else:
                    chk.undecided_(key + "/copy", "cannot tell which shadow copy %s is" % name)
                if ".bitmap." in name:
                    kinds[mask] = 1
                    chk.check(val is data, key + "/bitmap-data", "bitmap shadow stores %s, not the byte written" % (val,))
                    wl = tm.zext(tm.binop("or", tm.binop("or", tm.binop("and", tm.binop("lshr", addr, K(5, 16)), K(0xC0, 16)),
                                                         tm.binop("and", tm.binop("lshr", addr, K(8, 16)), K(7, 16))),
                                          tm.binop("and", tm.binop("lshr", addr, K(2, 16)), K(0x38, 16))), 64)
                    wi = tm.binop("add", tm.binop("shl", wl, K(5, 64)), tm.zext(tm.binop("and", addr, K(0x1F, 16)), 64))
                    chk.check(isinstance(idx, T) and tm.equiv(idx, wi) is True, key + "/bitmap-index",
                              "bitmap shadow index is %s; documented line*32+col" % (idx,))
                elif ".attributes." in name:
                    kinds[mask] = 2
                    fb = [e for e in r.trace if e.path.endswith("ZXAttribute::from_byte")]
                    chk.check(len(fb) == 1 and fb[0].args[0] is data, key + "/attr-data", "attribute shadow is not decoded from the byte written")
                    off = tm.binop("sub", addr, K(0x1800, 16))
                    wi = tm.zext(off, 64)
                    chk.check(isinstance(idx, T) and tm.equiv(idx, wi) is True, key + "/attr-index",
                              "attribute shadow index is %s; documented row*32+col = rel-0x1800" % (idx,))
                chk.count("update-paths")
            if bank in table:
                # address classes: 0..0x17FF bitmap, 0x1800..0x1AFF attributes, rest nothing
                want = np.where(rng <= 0x17FF, 1, np.where(rng <= 0x1AFF, 2, 3))
                bad = np.nonzero((kinds != want) & (kinds != 0) | (kinds == 0))[0]
                chk.check(len(bad) == 0, key + "/ranges", "%s bank %d: update treats %d relative addresses wrongly, e.g. 0x%04X (class %d, documented %d)" % (
                    m, bank, len(bad), bad[0] if len(bad) else 0, kinds[bad[0]] if len(bad) else 0, want[bad[0]] if len(bad) else 0))
        got = dict((k, sorted(v)[0]) for k, v in got_table.items() if len(v) == 1)
        chk.check(got == table and all(len(v) == 1 for v in got_table.values()), "T-TABLE/ZXScreen::local_bank/%s" % m,
                  "screen banks of %s are kept in shadow copies %s; documented %s" % (m, dict((k, sorted(v)) for k, v in got_table.items()), table))
    chk.floor("update-paths", 16)


def new_frame(chk, prog):
    SCR = prog.adt_path("rustzx_core", "ZXScreen")
    FB = ("param", "FB", 0)
    w = Walker(prog)
    st = w.new_state()
    scr0 = w.materialise(SymObj("scr", ("adt", SCR, (FB,))), st)
    st.store[("h", "scr")] = scr0
    fn = prog.fn(prog.fn_path("rustzx_core", "ZXScreen::<FB>::new_frame"))
    rs = w.run(fn, [Ref(("h", "scr"), (), True)], genv={"FB": FB}, state=st)
    key = "T-TABLE/ZXScreen::new_frame"
    fi = lambda n: prog.field_index(SCR, n)
    if not rs or any(r.outcome != "return" for r in rs):
        chk.fail(key + "/paths", "paths: %s" % [(r.outcome, r.detail) for r in rs][:3])
        return
    fc = tm.sym("scr.frame_counter", 64)
    fl = tm.sym("scr.flash", 1)
    seen = set()
    for r in rs:
        s = r.store[("h", "scr")]
        t16 = c04.cc_decide(r, tm.cmp("eq", tm.binop("and", fc, K(15, 64)), K(0, 64)))
        if t16 is None:
            chk.undecided_(key + "/classify", "path does not decide frame_counter % 16 == 0: %s" % ([c[:3] for c in r.pc],))
            continue
        seen.add(t16)
        f2 = s.fields[fi("flash")]
        want = tm.unop("not", fl) if t16 else fl
        chk.check(isinstance(f2, T) and tm.equiv(f2, want) is True, key + "/flash", "flash phase after new_frame (counter%%16==0: %s) is %s" % (t16, f2))
        chk.check(tm.equiv(s.fields[fi("frame_counter")], tm.binop("add", fc, K(1, 64))) is True, key + "/counter", "frame counter not incremented")
        b1, b2 = s.fields[fi("buffer")], s.fields[fi("back_buffer")]
        chk.check(getattr(b1, "name", None) == "scr.back_buffer" and getattr(b2, "name", None) == "scr.buffer", key + "/swap",
                  "front/back buffers are not swapped: %r %r" % (b1, b2))
        chk.count("new-frame-paths")
    chk.check(seen == {True, False}, key + "/cases", "flash toggle cases: %s" % seen)


def shadow_coherence(chk, prog, names):
    cg, fa = cc.scans(prog)
    MUT = {prog.fn_path("rustzx_core", "ZXMemory::write"), prog.fn_path("rustzx_core", "ZXMemory::force_write"),
           prog.fn_path("rustzx_core", "ZXMemory::ram_page_data_mut")}
    UPDATE = prog.fn_path("rustzx_core", "ZXScreen::<FB>::update")
    REFRESH = names.ctl("refresh_memory_dependent_devices")
    SYNC = {UPDATE, REFRESH}
    WRITE_INTERNAL = names.bus("write_internal")
    # the shadow itself: who writes the banks
    wr = set(p.split("::")[-1] for p in fa.writers(prog.adt_path("rustzx_core", "ZXScreen"), "banks"))
    chk.check(wr <= {"update"}, "T-WRITERS/ZXScreen.banks", "the decoded screen copy is written by %s (only update may)" % sorted(wr))
    sites = 0
    roots = [p for p, f in prog.fns.items() if f.local and f.reachable and f.crate == "rustzx_core"]
    reach = cg.reachable(roots)
    for fpath in sorted(reach):
        fn = prog.fns.get(fpath)
        if fn is None or not fn.local or fpath in MUT:
            continue
        for body, bi, term in scan.call_sites(prog, fn, lambda cs: any(c in MUT for c in cs)):
            sites += 1
            short = fpath.split("::")[-1] if "<" not in fpath.split("::")[-1] else fpath
            key = "T-PAIR/%s/%s" % (fpath.replace("rustzx_core::", ""), [c for c in scan.call_targets(prog, fn, term) if c in MUT][0].split("::")[-1])
            if fpath == WRITE_INTERNAL:
                write_internal_paired(chk, prog, names, key)
                continue
            leaks = scan.exits_avoiding(prog, fn, body, bi, lambda cs: any(c in SYNC for c in cs))
            if not leaks:
                chk.ok()
                continue
            # the mutation may also be paired by the caller: every caller must pair after the call returns
            ok_up = callers_pair(prog, cg, fn, SYNC, depth=2)
            chk.check(ok_up, key, "%s mutates RAM (%s at %s) but %d exit(s) are reached without ZXScreen::update / refresh_memory_dependent_devices; the display copy goes stale" % (
                fpath, scan.call_targets(prog, fn, term)[0].split("::")[-1], fn.loc(term.get("span")), len(leaks)),
                {"exits": [fn.loc(body["blocks"][b]["t"].get("span")) for b in leaks]})
    chk.count("ram-mutation-sites", sites)
    chk.floor("ram-mutation-sites", 6)


def refresh_covers_banks(chk, prog, names):
    """T-PAIR: the resynchronisation routine that SYNC relies on really feeds EVERY screen bank of the machine
    (48K: page 0; 128K: pages 5 and 7, the two ULA screens) byte for byte from RAM: update(i, bank, ram_page(bank)[i])
    for consecutive i from 0 until the page is exhausted.  The loops are unrolled a few iterations over an opaque page."""
    UPDATE = prog.fn_path("rustzx_core", "ZXScreen::<FB>::update")
    RPD = prog.fn_path("rustzx_core", "ZXMemory::ram_page_data")
    want = {"Sinclair48K": {0}, "Sinclair128K": {5, 7}}
    key = "T-PAIR/ZXController::refresh_memory_dependent_devices"
    for m in names.machine_variants():
        w = Walker(prog, max_steps=4000000)
        w.opaque_paths.add(UPDATE)
        w.opaque_paths.add(RPD)
        w.max_branches = 14
        w.max_block_visits = 20000     # a loop over a page prefix of known length (6912 screen bytes) is run to its end

        def hook(w_, st, path, a, d, wh):
            if path == UPDATE:
                return EffectResult(None, havoc=False)
            return None
        w.effect_hook = hook
        st = cc.controller_state(w, prog, names, m)
        rs = w.run(prog.fn(names.ctl("refresh_memory_dependent_devices")), [Ref(cc.CTL, (), True)], genv=cc.GENV, state=st)
        rets = [r for r in rs if r.outcome == "return"]
        bad = [r for r in rs if r.outcome not in ("return", "cut")]
        if bad or not rets:
            chk.undecided_(key + "/%s/paths" % m, "exploration of the refresh routine failed: %s" % [(r.outcome, r.detail) for r in (bad or rs)][:2])
            continue
        for r in rets:
            pages = {}     # handle number of the returned slice -> bank constant
            banks_read = []
            pending = None
            order_ok = True
            nxt = {}
            for e in r.trace:
                if e.path == RPD:
                    b = e.args[1]
                    pending = b.val if isinstance(b, T) and b.is_const() else None
                    banks_read.append(pending)
                elif e.path == UPDATE:
                    rel, bank, data = e.args[1], e.args[2], e.args[3]
                    name = tm.show(data) if isinstance(data, T) else str(data)
                    mm = re.match(r"ret(\d+):ram_page_data\*\[(0x[0-9A-Fa-f]+|\d+)\]$", name)
                    if not mm or not (isinstance(rel, T) and rel.is_const() and isinstance(bank, T) and bank.is_const()):
                        order_ok = False
                        continue
                    h, i = int(mm.group(1)), int(mm.group(2), 0)
                    if h not in pages:
                        pages[h] = pending
                    if rel.val != i or nxt.get(h, 0) != i or pages.get(h) != bank.val:
                        order_ok = False
                    nxt[h] = i + 1
            got = set(banks_read)
            chk.check(got == want.get(m), key + "/%s/banks" % m,
                      "%s: the refresh routine re-reads RAM pages %s; the screen of this machine shows pages %s — a page that is not refreshed keeps a stale picture after a snapshot load or poke" % (
                          m, sorted(x if x is not None else "<runtime value>" for x in got) if None not in got else ["<runtime value>"], sorted(want.get(m))))
            chk.check(order_ok, key + "/%s/bytes" % m, "%s: refresh does not feed update(i, bank, page[bank][i]) for consecutive i from 0" % m)
            # a loop that ran to its end must have covered the bitmap and the attributes (0x1B00 bytes of the page)
            # (only where the loop bound is known: with an opaque page the walk leaves the loop on the hypothesis that
            # the page ends there, which the path condition then says)
            hyp = any(isinstance(c[1], T) and any("ram_page_data" in x and "len" in x for x in tm.syms(c[1])) for c in r.pc if c[0] in ("eq", "ne"))
            short = [] if hyp else [h for h, n_ in nxt.items() if n_ < 0x1B00]
            chk.check(not short, key + "/%s/length" % m, "%s: refresh stops after %s bytes of a screen page; bitmap and attributes take 0x1B00" % (
                m, [nxt[h] for h in short]))
        chk.count("refresh-paths", len(rets))
    chk.floor("refresh-paths", 2)


def beam_relative(chk, prog, names):
    """A byte changed clearly before (after) the beam reaches its cell shows in the current (next) frame.
    (1) BlocksCount::from_clocks, extracted per machine as a closed form of the frame clock and tabulated for every T:
        it is monotone, counts cells in raster order (32 per line, 192 lines), and cell (line, col) becomes 'passed' at
        a clock within [-16, +4] T of the documented display time first_pixel + line*clocks_line + 4*col.
    (2) process_clocks renders exactly the cells [last, now) in increasing order and then records now; with nothing
        passed it renders nothing and keeps the record; new_frame resets the record (C08 new-frame rule).
    (3) passed_from == difference of the linear cell indices whenever the clock did not go backwards.
    With C05 (the frame clock only grows within a frame and every bus wait reaches process_clocks) every cell is
    rendered once per frame, when the beam gets there, from the screen copy that CPU writes update immediately."""
    import numpy as np
    SCR = prog.adt_path("rustzx_core", "ZXScreen")
    BC = prog.adt_path("rustzx_core", "BlocksCount")
    FB = ("param", "FB", 0)
    FCN = prog.fn_path("rustzx_core", "BlocksCount::from_clocks")
    PF = prog.fn_path("rustzx_core", "BlocksCount::passed_from")
    li, ci = prog.field_index(BC, "lines"), prog.field_index(BC, "columns")
    for m in names.machine_variants():
        key = "T-TABLE/BlocksCount::from_clocks/%s" % m
        spec = cc.specs_of(prog, names, m)
        first, line, frame = spec.get("clocks_first_pixel"), spec.get("clocks_line"), spec.get("clocks_frame")
        if None in (first, line, frame):
            chk.undecided_(key + "/specs", "machine constants not folded: %s" % spec)
            continue
        w = Walker(prog)
        T_ = tm.sym("FC", 64)
        rs = w.run(prog.fn(FCN), [T_, cc.machine_value(prog, names, m)], genv={}, state=w.new_state())
        if not rs or any(r.outcome != "return" for r in rs):
            chk.undecided_(key + "/paths", "from_clocks exploration: %s" % [(r.outcome, r.detail) for r in rs if r.outcome != "return"][:2])
            continue
        ts = np.arange(frame, dtype=np.uint64)
        env = {"FC": ts}
        idx = np.full(frame, -1, dtype=np.int64)
        okp = True
        for r in rs:
            try:
                mk = cc.path_mask(r, env, frame)
            except Exception as e:
                chk.undecided_(key + "/conditions", "path condition not a function of the clock: %s" % e)
                okp = False
                break
            if not mk.any():
                continue
            bc = r.ret
            if not (isinstance(bc, Agg) and isinstance(bc.fields[li], T) and isinstance(bc.fields[ci], T)):
                chk.undecided_(key + "/value", "from_clocks result %s" % (bc,))
                okp = False
                break
            ln = np.asarray(tm.evaluate(bc.fields[li], env)).astype(np.int64) if not bc.fields[li].is_const() else np.full(frame, bc.fields[li].val)
            cl = np.asarray(tm.evaluate(bc.fields[ci], env)).astype(np.int64) if not bc.fields[ci].is_const() else np.full(frame, bc.fields[ci].val)
            idx[mk] = (ln * 32 + cl)[mk]
        if not okp:
            continue
        if (idx < 0).any():
            chk.undecided_(key + "/coverage", "%d clocks covered by no path" % int((idx < 0).sum()))
            continue
        chk.check(bool((np.diff(idx) >= 0).all()), key + "/monotone", "the number of passed cells decreases while the clock grows (at T=%s)" % (
            int(ts[1:][np.diff(idx) < 0][0]) if (np.diff(idx) < 0).any() else "-"))
        chk.check(int(idx[0]) == 0 and int(idx[-1]) == 192 * 32, key + "/total", "cells passed at the start / end of the frame: %d / %d; documented 0 / 6144" % (int(idx[0]), int(idx[-1])))
        # the clock at which each cell becomes passed
        cells = np.arange(192 * 32)
        t_pass = np.searchsorted(idx, cells, side="right")      # first T with idx > cell
        doc = first + (cells // 32) * line + (cells % 32) * 4
        dev = t_pass.astype(np.int64) - doc
        badc = (dev < -16) | (dev > 4)
        chk.check(not badc.any(), key + "/beam", "cell %s is rendered %d T from the time the beam displays it (documented first_pixel + line*%d + 4*col, tolerance -16..+4); %d cells out of tolerance" % (
            int(cells[badc][0]) if badc.any() else "-", int(dev[badc][0]) if badc.any() else 0, line, int(badc.sum())))
        chk.count("beam-cells", len(cells))
    # (3) passed_from
    w = Walker(prog)
    st = w.new_state()
    mk_bc = lambda nm: Agg(("adt", BC), 0, [tm.sym(nm + ".lines", 64), tm.sym(nm + ".columns", 64)]) if li == 0 else Agg(("adt", BC), 0, [tm.sym(nm + ".columns", 64), tm.sym(nm + ".lines", 64)])
    st.store[("h", "now")] = mk_bc("now")
    st.store[("h", "prev")] = mk_bc("prev")
    rs = w.run(prog.fn(PF), [Ref(("h", "now"), (), False), Ref(("h", "prev"), (), False)], genv={}, state=st)
    key = "T-TABLE/BlocksCount::passed_from"
    from zx import lia
    nl, ncs, pl, pcs = tm.sym("now.lines", 64), tm.sym("now.columns", 64), tm.sym("prev.lines", 64), tm.sym("prev.columns", 64)
    npf = 0
    for r in rs:
        if r.outcome != "return" or not isinstance(r.ret, T):
            continue
        back = c04.cc_decide(r, tm.cmp("ult", nl, pl))
        if back is True:
            continue        # clock went backwards: not reachable within a frame (C05)
        bound = [(lia.Lin({ncs: 1}, -32), "<="), (lia.Lin({pcs: 1}, -32), "<="), (lia.Lin({nl: 1}, -192), "<="), (lia.Lin({pl: 1}, -192), "<=")]
        want = lambda ctx: lia.lin(r.ret, ctx) - (lia.Lin({nl: 32, ncs: 1}) - lia.Lin({pl: 32, pcs: 1}))
        ok = lia.prove(dict(r.facts), bound, [(want, "==")], [r.ret])
        chk.check(ok, key, "passed_from is %s; documented (now.lines*32 + now.columns) - (prev.lines*32 + prev.columns)" % tm.show(r.ret))
        npf += 1
    chk.check(npf >= 2, key + "/cases", "forward cases of passed_from explored: %d" % npf)
    chk.floor("beam-cells", 2 * 6144)


def callers_pair(prog, cg, fn, SYNC, depth):
    """every call site of fn is itself followed on all exits by a sync call (or, recursively, its callers are)"""
    callers = [s for s in cg.callers_of(fn.path) if s.kind == "call"]
    if not callers:
        return False
    for s in callers:
        cf = s.fn
        found = False
        for body, bi, term in scan.call_sites(prog, cf, lambda cs: fn.path in cs):
            leaks = scan.exits_avoiding(prog, cf, body, bi, lambda cs: any(c in SYNC for c in cs))
            found = True
            if leaks:
                if depth <= 0 or not callers_pair(prog, cg, cf, SYNC, depth - 1):
                    return False
        if not found:
            return False
    return True


def write_internal_paired(chk, prog, names, key):
    """path-sensitive: a store into the RAM vector happens iff ZXScreen::update(addr%16384, bank, data) follows"""
    UPDATE = prog.fn_path("rustzx_core", "ZXScreen::<FB>::update")
    w = Walker(prog)
    w.opaque_paths.add(UPDATE)
    for p in prog.fns:
        if "Vec<T, A> as core::ops::index::IndexMut" in p or "Vec<T, A> as core::ops::index::Index" in p:
            w.opaque_paths.add(p)

    def hook(w_, st, path, a, d, wh):
        return EffectResult(None, havoc=False)
    w.effect_hook = hook
    for m in names.machine_variants():
        st = cc.controller_state(w, prog, names, m)
        addr, data = tm.sym("addr", 16), tm.sym("data", 8)
        rs = w.run(prog.fn(names.bus("write_internal")), [Ref(cc.CTL, (), True), addr, data], genv=cc.GENV, state=st)
        if not rs or any(r.outcome != "return" for r in rs):
            chk.fail(key, "write_internal paths: %s" % [(r.outcome, r.detail) for r in rs if r.outcome != "return"][:2])
            return
        for r in rs:
            stores = [e for e in r.trace if "IndexMut" in e.path]
            ups = [e for e in r.trace if e.path == UPDATE]
            var = [c for c in r.pc if c[0] == "variant" and ".map[" in c[1]]
            is_ram = any(c[2] == "Ram" for c in var)
            chk.check(bool(stores) == is_ram and len(ups) == (1 if is_ram else 0), key + "/%s" % m,
                      "write_internal: RAM store %s / shadow update %s (page kind %s)" % (len(stores), len(ups), [c[2] for c in var]))
            if ups:
                u = ups[0]
                j = [c[2] for c in r.pc if c[0] == "index"][0]
                page = tm.sym("ctl.memory.map[%d].Ram.0" % j, 8)
                ok = tm.equiv(u.args[1], tm.binop("and", addr, K(0x3FFF, 16))) is True and tm.equiv(u.args[2], tm.zext(page, 64)) is True and u.args[3] is data
                chk.check(ok, key + "/%s/args" % m, "shadow update arguments (%s, %s, %s); documented (addr%%16384, bank, data)" % (u.args[1], u.args[2], u.args[3]))
            chk.count("write-internal-paths")
