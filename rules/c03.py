"""C03 — each instruction takes the documented T-states in the documented bus cycles (T-TRACE)."""
from . import z80common as zc
from oracle import z80 as oz
from zx import term as tm
from zx import cpu
from zx.walk import Walker

LEVEL = "proof"

EXPL = (
    "Decided: for each of the 1792 encodings (256 x {none,CB,ED,DD,FD,DDCB,FDCB}) Z80::emulate is specialised by "
    "constant propagation on the opcode bytes (operands, registers, memory stay symbolic) and the complete set of "
    "primitive bus traces (wait_mreq+read/write_internal, single no-MREQ T-states with their address, port cycles) is "
    "compared with the M-cycle table generated from the documentation over the x/y/z/p/q decomposition: kind, clocks, "
    "and the address term (PC+k, IR, HL/DE/BC, SP+-k, nn, nn+1, ii+d, BC after the B decrement for OTxR).  Variants "
    "(taken/not taken, repeat/stop) must exist in both sets and the path condition selecting each variant must decide the "
    "documented predicate (cc on the right flag bit, B-1!=0, BC-1!=0, BC-1!=0 && A!=(HL)).  Interrupt entry: totals 13/19/11 T.  "
    "Not decided here: what the machine adds per cycle (C04).  Prefix bytes (CB/DD/ED/FD as an encoding of the previous page) "
    "are judged through the page they select; DD/FD followed by DD/ED/FD is judged as 'two fetches, nothing else'."
)


def run(chk):
    prog = zc.program("A")
    chk.rule("T-TRACE", "set of bus traces of emulate specialised to one encoding == documented M-cycle sequence(s)")
    chk.rule("T-VARIANT", "the branch that selects a timing variant decides the documented predicate")
    traces(chk, prog)
    interrupt_totals(chk, prog)
    return chk.finish(EXPL, extra={"exhaustive": True})


def traces(chk, prog):
    """the per-encoding bus-trace rule (also run by C04: what the ULA delays is the address and the length of every cycle)"""
    bad = oz.self_check()
    chk.check(not bad, "oracle/self-check", "timing oracle disagrees with its own documented totals: %r" % (bad,))
    n_enc = 0
    n_paths = 0
    n_variants = 0
    for group, opc in oz.all_encodings():
        exp = oz.timing(group, opc)
        name = zc.enc_name(group, opc)
        if exp is None:
            chk.count("prefix-encodings")
            continue
        n_enc += 1
        paths = zc.explore(prog, group, opc)
        key = "T-TRACE/Z80::emulate/%s" % name.replace(" ", "_")
        bad_outcome = [p for p in paths if p.outcome != "return"]
        if bad_outcome or not paths:
            chk.fail(key, "encoding %s: %d path(s) do not return normally (%s)" % (
                name, len(bad_outcome), [(p.outcome, p.detail) for p in bad_outcome[:2]]))
            continue
        seen = set()
        ok = True
        for p in paths:
            n_paths += 1
            ev, side = zc.events_of(p)
            # the trailing pc_callback etc. are not timing events
            matched = [i for i, (vn, pred, e) in enumerate(exp) if zc.trace_matches(e, ev)]
            if not matched:
                ok = False
                best = min(exp, key=lambda v: abs(len(v[2]) - len(ev)))
                chk.fail(key, "encoding %s: bus trace not in the documented set: got [%s] (%d T); documented e.g. [%s] (%d T)" % (
                    name, ", ".join(zc.show_event(e) for e in ev), oz.tstates(ev),
                    ", ".join(zc.show_event(e) for e in best[2]), oz.tstates(best[2])),
                    {"pc": [repr(x[:3]) for x in p.pc]})
                break
            # variant predicate
            reads = [e[3] for e in ev if e[0] == "R"]
            env = {"reads": reads}
            for i, (vn, pred, e) in enumerate(exp):
                if pred is None:
                    continue
                d = zc.decide(p, pred(env))
                if i in matched:
                    if d is not True and len(matched) == 1:
                        ok = False
                        chk.fail("T-VARIANT/Z80::emulate/%s/%s" % (name.replace(" ", "_"), vn),
                                 "encoding %s: path with the '%s' trace does not decide the documented predicate %s (got %s); path condition %s" % (
                                     name, vn, tm.show(pred(env)), d, [repr(x[:3]) for x in p.pc]))
                elif d is True:
                    ok = False
                    chk.fail("T-VARIANT/Z80::emulate/%s/%s" % (name.replace(" ", "_"), vn),
                             "encoding %s: documented predicate of variant '%s' holds on a path with another trace" % (name, vn))
            seen.update(matched)
        if not ok:
            continue
        missing = [exp[i][0] for i in range(len(exp)) if i not in seen]
        if missing:
            chk.fail(key, "encoding %s: documented variant(s) %s have no path" % (name, missing))
            continue
        n_variants += len(exp)
        chk.ok(len(exp))
        if (opc * 7 + len(group) + chk.seed) % 257 == 0 or (group, opc) in (("ddcb", 0x46), ("ed", 0xB0)):
            chk.sample({"enc": name, "variants": [
                {"variant": vn, "T": oz.tstates(e), "trace": [zc.show_event(x) for x in e]} for (vn, _, e) in exp]})
    chk.count("encodings", n_enc)
    chk.count("paths", n_paths)
    chk.count("variants", n_variants)
    chk.floor("encodings", 1792 - 10)


def interrupt_totals(chk, prog):
    """IM0/1: 13, IM2: 19, NMI: 11 T-states from acceptance to the first fetch of the handler."""
    IM = prog.adt_path("rustzx_z80", "IntMode")
    from zx.walk import Agg
    from zx.term import K, T
    cases = [("NMI", dict(nmi=True, intr=False), None, 11)]
    for i, nm in enumerate(prog.variant_names(IM)):
        cases.append(("INT/" + nm, dict(nmi=False, intr=True), Agg(("adt", IM), i, ()), 19 if nm == "Im2" else 13))
    for name, kw, mode, total in cases:
        w = Walker(prog, max_paths=200)

        def extra(w_, st, path, args, dest_ty, where):
            return None
        hook = cpu.make_fetch_hook([0x00], extra=extra, **kw)

        def hook2(w_, st, path, args, dest_ty, where, hook=hook):
            # the opcode fetched at the vector is irrelevant: make it a NOP so that the step ends
            if path == cpu.BUS + "read_internal" and st.trace and st.trace[-1].path == cpu.BUS + "wait_mreq":
                c = st.trace[-1].args[2]
                if isinstance(c, T) and c.is_const() and c.val == 4:
                    return K(0, 8)
            return hook(w_, st, path, args, dest_ty, where)
        w.effect_hook = hook2
        ov = {}
        if mode is not None:
            ov["int_mode"] = mode
        st = cpu.cpu_state(w, prog, skip_interrupt=False, pending_prefix="None", overrides=ov)
        # IFF1 set (otherwise INT is not accepted)
        fn = prog.fn(cpu.EMULATE)
        from zx.walk import Ref
        regs_i = prog.field_index(cpu.Z80, "regs")
        roles = cpu.bind_roles(prog)
        cpuv = st.store[cpu.CPU]
        regs = cpuv.fields[regs_i].with_field(roles["IFF1"], tm.TRUE)
        st.store[cpu.CPU] = cpuv.with_field(regs_i, regs)
        rs = w.run(fn, [Ref(cpu.CPU, (), True), Ref(cpu.BUSOBJ, (), True)], genv={}, state=st)
        key = "T-TRACE/Z80::handle_interrupt/%s" % name
        if not rs or any(r.outcome != "return" for r in rs):
            chk.fail(key, "interrupt entry %s: paths do not return: %s" % (name, [(r.outcome, r.detail) for r in rs][:3]))
            continue
        for r in rs:
            ev, side = zc.events_of(r)
            # cut at the handler's first opcode fetch (last R ..:4)
            idx = max(i for i, e in enumerate(ev) if e[0] == "R" and e[2] == 4)
            t = 0
            for e in ev[:idx]:
                if e[0] in ("R", "W"):
                    t += e[2]
                elif e[0] == "I":
                    t += 1
                elif e[0] == "X":
                    t += e[1] if e[1] is not None else 10 ** 6
                elif e[0] in ("IOR", "IOW"):
                    t += 4
                elif e[0] == "INTACK":
                    pass
                else:
                    t += 10 ** 6
            chk.check(t == total, key, "interrupt entry %s takes %d T-states, documented %d: [%s]" % (
                name, t, total, ", ".join(zc.show_event(e) for e in ev[:idx])))
            chk.count("interrupt-paths")
        chk.sample({"interrupt": name, "T": total, "trace": [zc.show_event(e) for e in zc.events_of(rs[0])[0]]})
    chk.floor("interrupt-paths", 4)
