"""Cut-point combinational equivalence of extracted closed-form terms (both sides are terms, never rustzx code).

tm.equiv decides  a == b  by tabulating both over the input bits each output bit may depend on; it gives up
when one output bit depends on more than max_bits inputs (a 16-bit carry depends on 32).  This module adds the two
classical hardware-CEC devices on top of it:

 1. ripple():  every add/sub/uaddo/usubo wider than 8 bits is rewritten — an identity, validated on every use by
    concrete evaluation on random inputs — into 8-bit segments chained by explicit 1-bit carry terms.  Because
    terms are hash-consed, the emulator's `(a as u32 + b as u32) > 0xFFFF` and the reference's `uaddo16(a, b)`
    end up holding the *same* carry node.
 2. cuts:  carry nodes (innermost level first), and then maximal sub-terms shared by both sides, are replaced on
    both sides by one fresh input symbol.  Replacing a common sub-term by a free input generalises both sides in
    the same way, so  a' == b'  for all values of the fresh input implies  a == b.  The converse does not hold:
    a mismatch found under cuts is reported as undecided (None), never as a difference.

Result: True (proved equal), False (only without cuts; tm.equiv.witness holds a real distinguishing input), None.
"""
import random
from . import term as tm
from .term import T, K

SEG = 8


class _Ctx(object):
    def __init__(self):
        self.memo = {}
        self.segs = {}      # rippled node -> [segment terms]
        self.carries = {}   # carry node -> level


def _slice(ctx, x, s):
    """bits [8s, 8s+8) of x as an 8-bit term, structurally (x.bits is a multiple of 8 or x is narrower than 8s+8)"""
    lo = SEG * s
    if lo >= x.bits:
        return K(0, SEG)
    sg = ctx.segs.get(x)
    if sg is not None and s < len(sg):
        return sg[s]
    op = x.op
    if op == "k":
        return K((x.args[0] >> lo) & 0xFF, SEG)
    if op == "zext":
        y = x.args[0]
        if lo >= y.bits:
            return K(0, SEG)
        if y.bits - lo < SEG:
            return tm.zext(_generic(y, lo, y.bits - lo), SEG)
        return _slice(ctx, y, s)
    if op == "trunc":
        y = x.args[0]
        if lo + SEG <= x.bits:
            return _slice(ctx, y, s)
    if op in ("lshr", "shl") and x.args[1].op == "k" and x.args[1].args[0] % SEG == 0:
        m = x.args[1].args[0] // SEG
        y = x.args[0]
        if op == "lshr":
            return _slice(ctx, y, s + m) if SEG * (s + m) < y.bits else K(0, SEG)
        return K(0, SEG) if s < m else _slice(ctx, y, s - m)
    if op in ("and", "or", "xor"):
        return tm.binop(op, _slice(ctx, x.args[0], s), _slice(ctx, x.args[1], s))
    if op == "not":
        return tm.unop("not", _slice(ctx, x.args[0], s))
    if op == "ite":
        return tm.ite(x.args[0], _slice(ctx, x.args[1], s), _slice(ctx, x.args[2], s))
    w = min(SEG, x.bits - lo)
    r = _generic(x, lo, w)
    return r if w == SEG else tm.zext(r, SEG)


def _generic(x, lo, w):
    y = tm.binop("lshr", x, K(lo, x.bits)) if lo else x
    return tm.trunc(y, w) if w < y.bits else y


def _chain(ctx, x, y, cin, nseg, invert_y):
    """segments and carry-out of x + y + cin (y complemented when invert_y)"""
    segs = []
    c = cin
    for s in range(nseg):
        xs = _slice(ctx, x, s)
        ys = _slice(ctx, y, s)
        if invert_y:
            ys = tm.unop("not", ys)
        if ys.op == "k" and ys.args[0] == 0 and c.op == "k" and c.args[0] == 0:
            segs.append(xs)
            c = tm.FALSE
            continue
        if xs.op == "k" and xs.args[0] == 0 and c.op == "k" and c.args[0] == 0:
            segs.append(ys)
            c = tm.FALSE
            continue
        s9 = tm.binop("add", tm.binop("add", tm.zext(xs, SEG + 1), tm.zext(ys, SEG + 1)), tm.zext(c, SEG + 1))
        segs.append(tm.trunc(s9, SEG))
        c = tm.trunc(tm.binop("lshr", s9, K(SEG, SEG + 1)), 1)
        if c.op != "k":
            inner = [lv for (cn, lv) in ctx.carries.items() if cn is not c and _contains(c, cn)]
            ctx.carries[c] = 1 + (max(inner) if inner else 0)
    return segs, c


_contains_memo = {}


def _contains(t, node):
    key = (t, node)
    r = _contains_memo.get(key)
    if r is None:
        r = node in subterms(t)
        _contains_memo[key] = r
    return r


_sub_memo = {}


def subterms(t):
    r = _sub_memo.get(t)
    if r is None:
        acc = set()
        stack = [t]
        while stack:
            x = stack.pop()
            if x in acc:
                continue
            acc.add(x)
            for a in x.args:
                if isinstance(a, T):
                    stack.append(a)
        r = frozenset(acc)
        _sub_memo[t] = r
    return r


def _join(ctx, segs, bits):
    r = None
    for s, sg in enumerate(segs):
        if SEG * s >= bits:
            break
        part = tm.zext(sg, bits) if bits > SEG else tm.trunc(sg, bits)
        if s:
            part = tm.binop("shl", part, K(SEG * s, bits))
        r = part if r is None else tm.binop("or", r, part)
    ctx.segs[r] = segs
    return r


def _is_bit(x):
    """x is a zero-extended 1-bit term: returns that bit"""
    if x.op == "zext" and x.args[0].bits == 1:
        return x.args[0]
    return None


def _three_operand(ctx, t):
    """(x + y) + carry  and  (x - y) - borrow  as ONE adder chain with a carry-in: the two carries of the two-stage
    form exclude each other, which independent cuts would forget"""
    op = t.op
    a, b = t.args
    if op == "add":
        for inner, c in ((a, b), (b, a)):
            bit = _is_bit(c)
            if bit is not None and inner.op == "add" and inner.bits == t.bits:
                return ripple(ctx, inner.args[0]), ripple(ctx, inner.args[1]), ripple(ctx, bit), False
    else:
        bit = _is_bit(b)
        if bit is not None and a.op == "sub" and a.bits == t.bits:
            return ripple(ctx, a.args[0]), ripple(ctx, a.args[1]), tm.unop("not", ripple(ctx, bit)), True
    return None


def _pow2(v):
    return v > 0 and (v & (v - 1)) == 0


def ripple(ctx, t):
    r = ctx.memo.get(t)
    if r is not None:
        return r
    if t.op in ("k", "sym"):
        ctx.memo[t] = t
        return t
    na = tuple(ripple(ctx, a) if isinstance(a, T) else a for a in t.args)
    op = t.op
    r = None
    if op in ("add", "sub") and t.bits > SEG and t.bits % SEG == 0:
        n = t.bits // SEG
        three = _three_operand(ctx, t)
        if three is not None:
            x, y, cin, inv = three
            segs, _ = _chain(ctx, x, y, cin, n, inv)
        else:
            segs, _ = _chain(ctx, na[0], na[1], tm.TRUE if op == "sub" else tm.FALSE, n, op == "sub")
        r = _join(ctx, segs, t.bits)
    elif op in ("uaddo", "usubo") and na[0].bits > SEG and na[0].bits % SEG == 0:
        n = na[0].bits // SEG
        _, c = _chain(ctx, na[0], na[1], tm.TRUE if op == "usubo" else tm.FALSE, n, op == "usubo")
        r = tm.unop("not", c) if op == "usubo" else c
    elif op in ("uaddo", "usubo") and na[0].bits == SEG:
        # the 8-bit carry / borrow in the same spelling the segment chain uses (one shared carry node)
        _, c = _chain(ctx, na[0], na[1], tm.TRUE if op == "usubo" else tm.FALSE, 1, op == "usubo")
        r = tm.unop("not", c) if op == "usubo" else c
    elif op == "ult" and na[0].op == "k" and _pow2(na[0].args[0] + 1) and na[1].bits > SEG:
        # 2^k - 1 < x   <=>   (x >> k) != 0
        k = (na[0].args[0] + 1).bit_length() - 1
        if k < na[1].bits:
            r = tm.cmp("ne", tm.binop("lshr", na[1], K(k, na[1].bits)), K(0, na[1].bits))
    elif op == "ult" and na[1].op == "k" and _pow2(na[1].args[0]) and na[0].bits > SEG:
        k = na[1].args[0].bit_length() - 1
        r = tm.cmp("eq", tm.binop("lshr", na[0], K(k, na[0].bits)), K(0, na[0].bits))
    elif op in ("eq", "ne") and na[1].op == "k" and na[1].args[0] == 0 and na[0].op == "and" \
            and na[0].args[1].op == "k" and _pow2(na[0].args[1].args[0]):
        # (x & 2^j) != 0  <=>  bit j of x   (one canonical spelling of a flag test)
        j = na[0].args[1].args[0].bit_length() - 1
        x = na[0].args[0]
        bit = tm.trunc(tm.binop("lshr", x, K(j, x.bits)) if j else x, 1)
        r = bit if op == "ne" else tm.unop("not", bit)
    if r is None:
        if all(x is y for x, y in zip(na, t.args)):
            r = t
        else:
            r = tm.rebuild(op, na, t.bits)
    ctx.memo[t] = r
    return r


def _validate(t, r, n=24):
    """translation validation of ripple(): both terms agree on random inputs (raises on a rewriting bug)"""
    names = sorted(tm.syms(t) | tm.syms(r))
    rnd = random.Random(12345)
    for i in range(n):
        env = {}
        for s in names:
            b = tm._sym_bits.get(s, 64)
            v = rnd.getrandbits(b)
            if i % 4 == 1:
                v = tm.mask(b)
            elif i % 4 == 2:
                v = rnd.choice([0, 1, tm.mask(b) >> 1, 1 << (b - 1)])
            env[s] = v
        try:
            x, y = tm.evaluate(t, env), tm.evaluate(r, env)
        except tm.NotEvaluable:
            return
        if x != y:
            raise AssertionError("cec.ripple changed the value of %s under %s: 0x%X vs 0x%X" % (tm.show(t), env, x, y))


_cut_id = [0]
stats = {"plain": 0, "carry-cut": 0, "shared-cut": 0, "undecided": 0, "refuted-under-cuts": 0}


def _fresh_for(node, table):
    s = table.get(node)
    if s is None:
        _cut_id[0] += 1
        s = tm.Sym("$cut%d" % _cut_id[0], node.bits)
        table[node] = s
    return s


def _shared_maximal(a, b, min_support):
    sa, sb = subterms(a), subterms(b)
    shared = [x for x in (sa & sb) if x.op not in ("k", "sym") and len(tm.deps(x)) >= min_support]
    # keep nodes not contained in another shared node
    shared.sort(key=lambda x: -len(subterms(x)))
    keep = []
    for x in shared:
        if not any(_contains(y, x) for y in keep):
            keep.append(x)
    return keep


_bit_memo = {}


def bit_of(t, i):
    """bit i of t as a 1-bit term, descending structurally so that only the sub-terms feeding that bit remain"""
    key = (t, i)
    r = _bit_memo.get(key)
    if r is not None:
        return r
    op = t.op
    if i >= t.bits:
        r = tm.FALSE
    elif op == "k":
        r = K((t.args[0] >> i) & 1, 1)
    elif op in ("and", "or", "xor"):
        r = tm.binop(op, bit_of(t.args[0], i), bit_of(t.args[1], i))
    elif op == "not":
        r = tm.unop("not", bit_of(t.args[0], i))
    elif op == "zext":
        r = bit_of(t.args[0], i) if i < t.args[0].bits else tm.FALSE
    elif op == "sext":
        r = bit_of(t.args[0], min(i, t.args[0].bits - 1))
    elif op == "trunc":
        r = bit_of(t.args[0], i)
    elif op == "shl" and t.args[1].op == "k":
        k = t.args[1].args[0]
        r = tm.FALSE if i < k else bit_of(t.args[0], i - k)
    elif op == "lshr" and t.args[1].op == "k":
        k = t.args[1].args[0]
        r = bit_of(t.args[0], i + k) if i + k < t.args[0].bits else tm.FALSE
    elif op == "ite":
        r = tm.ite(t.args[0], bit_of(t.args[1], i), bit_of(t.args[2], i))
    elif op == "select":
        tab = tuple((v >> i) & 1 for v in t.args[0])
        if all(v == tab[0] for v in tab):
            r = K(tab[0], 1)
        else:
            r = tm.select(tab, 1, t.args[1])
            if r is None:
                r = tm._mk("select", (tab, t.args[1]), 1)
    elif op == "mul" and (t.args[0].op == "k" or t.args[1].op == "k"):
        kx, x = (t.args[1], t.args[0]) if t.args[1].op == "k" else (t.args[0], t.args[1])
        xb = tm.bv(x)
        if all(b == 0 for b in xb[1:]):
            r = bit_of(x, 0) if (kx.args[0] >> i) & 1 else tm.FALSE
    if r is None:
        if t.bits == 1:
            r = t
        else:
            r = tm.trunc(tm.binop("lshr", t, K(i, t.bits)) if i else t, 1)
    _bit_memo[key] = r
    return r


def _decide_pair(x, y, cons, max_bits, table):
    """True / False / None for two terms, trying plain tabulation and then one round of maximal shared cuts"""
    if x is y:
        return True, False
    r = tm.equiv(x, y, max_bits=max_bits, constraints=cons or None)
    if r is not None:
        return r, False
    sh = _shared_maximal(x, y, 3)
    if sh:
        env2 = dict((n, _fresh_for(n, table)) for n in sh)
        x3, y3 = tm.subst(x, env2), tm.subst(y, env2)
        c3 = [(tm.subst(t, env2), v) for (t, v) in cons]
        r = tm.equiv(x3, y3, max_bits=max_bits, constraints=c3 or None)
        if r is True:
            return True, True
    return None, True


def equiv_cut(a, b, max_bits=tm.EQUIV_MAX_BITS, constraints=None):
    tm.equiv.witness = None
    if a is b:
        return True
    if a.bits != b.bits:
        return False
    ctx = _Ctx()
    a1, b1 = ripple(ctx, a), ripple(ctx, b)
    _validate(a, a1)
    _validate(b, b1)
    cons = [(ripple(ctx, t), v) for (t, v) in (constraints or [])]
    r = tm.equiv(a1, b1, max_bits=max_bits, constraints=cons or None)
    if r is not None:
        stats["plain"] += 1
        return r
    table = {}
    levels = [0] + sorted(set(ctx.carries.values()))
    variants = []
    for L in levels:
        env = dict((c, _fresh_for(c, table)) for c, lv in ctx.carries.items() if lv <= L)
        variants.append((L,
                         tm.subst(a1, env) if env else a1,
                         tm.subst(b1, env) if env else b1,
                         [(tm.subst(t, env) if env else t, v) for (t, v) in cons]))
    used_cut = False
    for i in range(a.bits):
        ok = False
        for (L, a2, b2, c2) in variants:
            x, y = bit_of(a2, i), bit_of(b2, i)
            r, cut = _decide_pair(x, y, c2, max_bits, table)
            if r is True:
                ok = True
                used_cut = used_cut or cut or L > 0
                break
            if r is False and L == 0 and not cut:
                # no generalisation involved: a real difference in bit i
                w = tm.equiv.witness
                if w is not None:
                    w["_bit"] = i
                stats["plain"] += 1
                return False
        if not ok:
            tm.equiv.witness = None
            stats["undecided"] += 1
            return None
    stats["carry-cut" if used_cut else "plain"] += 1
    return True


def refute(a, b, constraints=None, rows_log2=20, seed=1):
    """Search a concrete input on which the two TERMS differ (and every constraint holds).  Used only after the
    tabulation and the cut points left the comparison open: a hit is a definitive difference with a real witness
    (tm.equiv.witness); a miss proves nothing.  Inputs are drawn from a mixture of uniform values and corner
    values (0, 1, all-ones, sign bit, ...) so that off-by-one comparisons are reachable."""
    np = tm._np
    if np is None:
        return None
    names = set(tm.syms(a) | tm.syms(b))
    for (t, _) in (constraints or []):
        names |= set(tm.syms(t))
    names = sorted(names)
    if any(n.startswith("?") for n in names):
        return None
    rng = np.random.default_rng(seed)
    chunk = 1 << 18
    total = 1 << rows_log2
    done = 0
    while done < total:
        env = {}
        for n in names:
            bits = tm._sym_bits.get(n, 64)
            m = np.uint64(tm.mask(bits))
            u = rng.integers(0, 1 << min(bits, 63), size=chunk, dtype=np.uint64) & m
            corners = np.array([0, 1, 2, tm.mask(bits), tm.mask(bits) - 1, 1 << (bits - 1), (1 << (bits - 1)) - 1,
                                0xFF & tm.mask(bits), 0xFF00 & tm.mask(bits), 0x0F & tm.mask(bits), 0xF0 & tm.mask(bits),
                                0x0FFF & tm.mask(bits), 0xF000 & tm.mask(bits)], dtype=np.uint64)
            c = corners[rng.integers(0, len(corners), size=chunk)]
            # corner +- small delta
            d = rng.integers(0, 3, size=chunk, dtype=np.uint64)
            c2 = (c + d - np.uint64(1)) & m
            sel = rng.integers(0, 4, size=chunk)
            v = np.where(sel < 2, u, np.where(sel == 2, c, c2))
            env[n] = v
        try:
            memo = {}
            ok = np.ones(chunk, dtype=bool)
            for (t, val) in (constraints or []):
                r = tm._ev(t, env, memo)
                ok &= (np.asarray(r) == val) if isinstance(r, np.ndarray) else np.full(chunk, r == val)
            ra, rb = tm._ev(a, env, memo), tm._ev(b, env, memo)
        except tm.NotEvaluable:
            return None
        ra = ra if isinstance(ra, np.ndarray) else np.full(chunk, ra, dtype=np.uint64)
        rb = rb if isinstance(rb, np.ndarray) else np.full(chunk, rb, dtype=np.uint64)
        ne = np.nonzero(ok & (ra != rb))[0]
        if len(ne):
            k = int(ne[0])
            w = dict((n, int(env[n][k])) for n in names)
            w["_got"], w["_want"] = int(ra[k]), int(rb[k])
            tm.equiv.witness = w
            stats["refuted-by-search"] = stats.get("refuted-by-search", 0) + 1
            return False
        done += chunk
    return None
