"""Flow-insensitive scans over the MIR facts: call graph, field write-sets, borrows (mod-ref / who-may-call)."""
from .facts import subst_ty


class Site(object):
    __slots__ = ("fn", "kind", "target", "span", "extra")

    def __init__(self, fn, kind, target, span, extra=None):
        self.fn = fn
        self.kind = kind
        self.target = target
        self.span = span
        self.extra = extra

    def loc(self):
        return self.fn.loc(self.span)

    def __repr__(self):
        return "<%s %s in %s at %s>" % (self.kind, self.target, self.fn.path, self.loc())


def iter_bodies(fn):
    yield fn.body
    for p in fn.promoted:
        yield p


def callees_of_term(prog, fn, t):
    """possible callee paths of a call terminator (resolved if possible, else trait item + all impls)"""
    f = t["f"]
    if "indirect" in f:
        return [("<indirect>", None)]
    out = []
    res = f.get("resolved")
    path = f["path"]
    if res and res.get("path"):
        out.append((res["path"], res["kind"]))
        if f.get("trait") and res["path"] == path:
            # default method resolved to itself: impls may override
            for im, item in prog.impl_candidates(path):
                out.append((item, "impl"))
        return out
    out.append((path, "unresolved"))
    if f.get("trait"):
        self_ty = None
        if f.get("args") and not isinstance(f["args"][0], dict):
            self_ty = fn.T[f["args"][0]]
        for im, item in prog.impl_candidates(path):
            if self_ty is not None and self_ty[0] in ("adt", "int", "bool", "float", "tuple", "array", "slice", "ref", "closure"):
                from .facts import unify
                if not unify(im["self_ty"], self_ty, {}):
                    continue
            out.append((item, "impl"))
    return out


class CallGraph(object):
    def __init__(self, prog):
        self.prog = prog
        self.calls = {}      # caller path -> list of (callee path, Site)
        self.callers = {}    # callee path -> list of Site
        for fn in prog.fns.values():
            lst = []
            for body in iter_bodies(fn):
                for b in body["blocks"]:
                    if b["cleanup"]:
                        continue
                    t = b["t"]
                    if t["k"] != "call":
                        # closures / fn items taken as values
                        continue
                    for cp, kind in callees_of_term(prog, fn, t):
                        s = Site(fn, "call", cp, t.get("span"), kind)
                        lst.append((cp, s))
                        self.callers.setdefault(cp, []).append(s)
                # function values mentioned in constants (closures passed to combinators, fn pointers)
                for b in body["blocks"]:
                    if b["cleanup"]:
                        continue
                    for st in b["s"]:
                        if st[0] != "=":
                            continue
                        for cp in _fn_consts(st[2]):
                            s = Site(fn, "fnref", cp, st[3], "value")
                            lst.append((cp, s))
                            self.callers.setdefault(cp, []).append(s)
                        rv = st[2]
                        if rv[0] == "agg" and rv[1].get("k") == "closure":
                            cp = rv[1]["path"]
                            s = Site(fn, "closure", cp, st[3], "value")
                            lst.append((cp, s))
                            self.callers.setdefault(cp, []).append(s)
                    t = b["t"]
                    if t["k"] == "call":
                        for a in t["args"]:
                            if a[0] == "c" and "fn" in a[1]:
                                cp = a[1]["fn"]["path"]
                                r = a[1]["fn"].get("resolved")
                                if r and r.get("path"):
                                    cp = r["path"]
                                s = Site(fn, "fnref", cp, t.get("span"), "value")
                                lst.append((cp, s))
                                self.callers.setdefault(cp, []).append(s)
            self.calls[fn.path] = lst

    def reachable(self, roots, stop=None):
        seen = set()
        work = list(roots)
        while work:
            p = work.pop()
            if p in seen:
                continue
            seen.add(p)
            if stop and stop(p):
                continue
            for cp, s in self.calls.get(p, ()):
                if cp not in seen:
                    work.append(cp)
        return seen

    def callers_of(self, path):
        return self.callers.get(path, [])

    def path_to(self, roots, target):
        """one call chain from any root to target (for reports)"""
        prev = {}
        work = list(roots)
        seen = set(work)
        while work:
            p = work.pop(0)
            if p == target:
                chain = [p]
                while chain[-1] in prev:
                    chain.append(prev[chain[-1]])
                return list(reversed(chain))
            for cp, s in self.calls.get(p, ()):
                if cp not in seen:
                    seen.add(cp)
                    prev[cp] = p
                    work.append(cp)
        return None


def _fn_consts(rv):
    out = []

    def op(o):
        if o[0] == "c" and "fn" in o[1]:
            f = o[1]["fn"]
            r = f.get("resolved")
            out.append(r["path"] if r and r.get("path") else f["path"])
    k = rv[0]
    if k in ("use", "cast", "un"):
        op(rv[1] if k == "use" else rv[2])
    elif k == "bin":
        op(rv[2])
        op(rv[3])
    elif k == "agg":
        for o in rv[2]:
            op(o)
    elif k == "repeat":
        op(rv[1])
    return out


def place_field_chain(prog, fn, body, place):
    """[(adt_path, field_index, field_name)] along the projection of a place, with the ADT the field belongs to"""
    t = fn.T[body["locals"][place["l"]]]
    chain = []
    variant = 0
    for e in place["p"]:
        k = e[0]
        if k == "d":
            if t[0] in ("ref", "ptr"):
                t = t[2]
            elif t[0] == "adt" and t[1].endswith("::Box"):
                t = t[2][0] if t[2] else ("other", "")
            else:
                t = ("other", "deref")
        elif k == "dc":
            variant = e[1]
        elif k == "f":
            if t[0] == "adt":
                chain.append((t[1], e[1], prog.field_name(t[1], e[1], variant), variant))
            elif t[0] == "tuple":
                chain.append(("(tuple)", e[1], str(e[1]), 0))
            elif t[0] == "closure":
                chain.append((t[1], e[1], "upvar%d" % e[1], 0))
            else:
                chain.append(("?", e[1], str(e[1]), 0))
            t = fn.T[e[2]]
            variant = 0
        elif k in ("i", "ci"):
            if t[0] in ("array", "slice"):
                chain.append(("[]", None, "[]", 0))
                t = t[1]
            else:
                t = ("other", "index")
        elif k == "ss":
            pass
    return chain


class FieldAccess(object):
    """All stores and mutable borrows per (adt, field name)."""

    def __init__(self, prog):
        self.prog = prog
        self.stores = {}    # (adt, field) -> [Site]
        self.mutrefs = {}   # (adt, field) -> [Site]
        self.reads = {}
        for fn in prog.fns.values():
            if not fn.local:
                continue
            for body in iter_bodies(fn):
                for b in body["blocks"]:
                    if b["cleanup"]:
                        continue
                    for st in b["s"]:
                        if st[0] == "=":
                            self._store(fn, body, st[1], st[3], st[2])
                            self._rvalue(fn, body, st[2], st[3])
                        elif st[0] == "setdiscr":
                            self._store(fn, body, st[1], st[3], None)
                    t = b["t"]
                    if t["k"] == "call":
                        self._store(fn, body, t["dest"], t.get("span"), ("call", t))
                        for a in t["args"]:
                            self._operand(fn, body, a, t.get("span"))
                    elif t["k"] == "switch":
                        self._operand(fn, body, t["discr"], t.get("span"))

    def _store(self, fn, body, place, span, rv):
        ch = place_field_chain(self.prog, fn, body, place)
        # a store to a.b.c writes field c of its owner and (partially) b of a
        for i, (adt, idx, name, variant) in enumerate(ch):
            if adt in ("[]", "?", "(tuple)"):
                continue
            exact = all(c[0] == "[]" for c in ch[i + 1:])  # last named field in the chain (array elements allowed)
            self.stores.setdefault((adt, name), []).append(Site(fn, "store" if exact else "store-into", (adt, name), span, rv))

    def _rvalue(self, fn, body, rv, span):
        k = rv[0]
        if k in ("ref", "addr"):
            mut = rv[2] if k == "ref" else True
            ch = place_field_chain(self.prog, fn, body, rv[1])
            for (adt, idx, name, variant) in ch:
                if adt in ("[]", "?", "(tuple)"):
                    continue
                d = self.mutrefs if mut else self.reads
                d.setdefault((adt, name), []).append(Site(fn, "mutref" if mut else "ref", (adt, name), span))
        elif k in ("use", "cast", "un"):
            self._operand(fn, body, rv[1] if k == "use" else rv[2], span)
        elif k == "bin":
            self._operand(fn, body, rv[2], span)
            self._operand(fn, body, rv[3], span)
        elif k == "agg":
            for o in rv[2]:
                self._operand(fn, body, o, span)
        elif k == "repeat":
            self._operand(fn, body, rv[1], span)
        elif k == "discr":
            self._read(fn, body, rv[1], span)

    def _operand(self, fn, body, o, span):
        if o[0] in ("cp", "mv"):
            self._read(fn, body, o[1], span)

    def _read(self, fn, body, place, span):
        ch = place_field_chain(self.prog, fn, body, place)
        for (adt, idx, name, variant) in ch:
            if adt in ("[]", "?", "(tuple)"):
                continue
            self.reads.setdefault((adt, name), []).append(Site(fn, "read", (adt, name), span))

    def writers(self, adt, field):
        """functions that store to the field directly or take a mutable borrow of it"""
        out = {}
        for s in self.stores.get((adt, field), []):
            out.setdefault(s.fn.path, []).append(s)
        for s in self.mutrefs.get((adt, field), []):
            out.setdefault(s.fn.path, []).append(s)
        return out

    def overwriters(self, adt, field):
        """functions that replace the whole value of the field: a direct assignment to it, or a mutable borrow of it
        handed to core::mem::replace / swap / take or ptr::write"""
        out = {}
        for s in self.stores.get((adt, field), []):
            if s.kind == "store":
                out.setdefault(s.fn.path, []).append(s)
        for s in self.mutrefs.get((adt, field), []):
            fn = s.fn
            for body in iter_bodies(fn):
                refs = set()
                for b in body["blocks"]:
                    for st in b["s"]:
                        if st[0] == "=" and st[2][0] == "ref" and len(st[2]) > 2 and st[2][2] and not st[1]["p"]:
                            ch = place_field_chain(self.prog, fn, body, st[2][1])
                            if ch and ch[-1][0] == adt and ch[-1][2] == field:
                                refs.add(st[1]["l"])
                # copies of the reference (reborrows / moves)
                changed = True
                while changed:
                    changed = False
                    for b in body["blocks"]:
                        for st in b["s"]:
                            if st[0] == "=" and not st[1]["p"] and st[1]["l"] not in refs:
                                rv = st[2]
                                src = None
                                if rv[0] == "use" and rv[1][0] in ("cp", "mv") and not rv[1][1]["p"]:
                                    src = rv[1][1]["l"]
                                elif rv[0] == "ref" and rv[1]["p"] == [["d"]]:
                                    src = rv[1]["l"]
                                if src in refs:
                                    refs.add(st[1]["l"])
                                    changed = True
                for b in body["blocks"]:
                    t = b["t"]
                    if t["k"] == "call" and any(x.startswith(("core::mem::replace", "core::mem::swap", "core::mem::take", "core::ptr::write"))
                                                for x in call_targets(self.prog, fn, t)):
                        if any(a[0] in ("cp", "mv") and not a[1]["p"] and a[1]["l"] in refs for a in t["args"]):
                            out.setdefault(fn.path, []).append(s)
        return out

    def readers(self, adt, field):
        out = {}
        for s in self.reads.get((adt, field), []):
            out.setdefault(s.fn.path, []).append(s)
        return out


# ---------------------------------------------------------------- intraprocedural CFG rules

def successors(term):
    k = term["k"]
    if k == "goto":
        return [term["t"]]
    if k == "switch":
        return [t for (_, t) in term["arms"]] + [term["otherwise"]]
    if k in ("call", "drop", "assert"):
        return [term["t"]] if term.get("t") is not None else []
    return []


def call_targets(prog, fn, term):
    if term["k"] != "call":
        return []
    return [cp for cp, _ in callees_of_term(prog, fn, term)]


def exits_avoiding(prog, fn, body, start_block, is_sync, after_call=True):
    """Return-blocks reachable from the successor(s) of start_block without passing a block whose call satisfies
    is_sync(callee paths).  (must-pass-through rule: result empty == every path to an exit is paired.)"""
    blocks = body["blocks"]
    work = list(successors(blocks[start_block]["t"])) if after_call else [start_block]
    seen = set()
    out = []
    while work:
        b = work.pop()
        if b in seen:
            continue
        seen.add(b)
        blk = blocks[b]
        if blk["cleanup"]:
            continue
        t = blk["t"]
        if t["k"] == "call" and is_sync(call_targets(prog, fn, t)):
            continue
        if t["k"] == "return":
            out.append(b)
            continue
        work.extend(successors(t))
    return out


def call_sites(prog, fn, pred):
    """[(body, block index, term)] of calls in fn whose callee paths satisfy pred"""
    out = []
    for body in iter_bodies(fn):
        for i, b in enumerate(body["blocks"]):
            if b["cleanup"]:
                continue
            t = b["t"]
            if t["k"] == "call" and pred(call_targets(prog, fn, t)):
                out.append((body, i, t))
    return out
