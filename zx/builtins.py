"""Models of core library functions and intrinsics for the walker."""
from . import term as tm
from .term import T, K
from .walk import (builtin, NOT_HANDLED, Agg, Ref, Opaque, SymObj, SymArr, FnVal, UNIT, Diverge, ForkValues,
                   WalkError, int_ty_of_path, UNINIT)
from .facts import ty_bits

OPTION = "core::option::Option"


def some(v):
    return Agg(("adt", OPTION), 1, [v])


NONE = Agg(("adt", OPTION), 0, ())


def _ity(path, targs):
    t = int_ty_of_path(path)
    if t is None and targs and targs[0][0] == "int":
        t = targs[0]
    return t


def _terms(args):
    return all(isinstance(a, T) for a in args)


def _binmodel(op):
    def f(w, st, fr, path, targs, args, dty):
        if not _terms(args):
            return NOT_HANDLED
        return tm.binop(op, args[0], args[1])
    return f


for _n, _op in (("wrapping_add", "add"), ("wrapping_sub", "sub"), ("wrapping_mul", "mul"),
                ("unchecked_add", "add"), ("unchecked_sub", "sub"), ("unchecked_mul", "mul")):
    builtin("int::" + _n, "core::intrinsics::" + _n)(_binmodel(_op))


@builtin("int::wrapping_neg")
def _wneg(w, st, fr, path, targs, args, dty):
    return tm.unop("neg", args[0])


def _ovmodel(base):
    def f(w, st, fr, path, targs, args, dty):
        if not _terms(args):
            return NOT_HANDLED
        t = _ity(path, targs)
        signed = bool(t and t[2])
        r = tm.binop(base, args[0], args[1])
        o = tm.ovf(("s" if signed else "u") + base + "o", args[0], args[1])
        return Agg(("tuple",), 0, [r, o])
    return f


for _n, _op in (("overflowing_add", "add"), ("overflowing_sub", "sub"), ("overflowing_mul", "mul"),
                ("add_with_overflow", "add"), ("sub_with_overflow", "sub"), ("mul_with_overflow", "mul")):
    builtin("int::" + _n, "core::intrinsics::" + _n)(_ovmodel(_op))


def _checked(base):
    def f(w, st, fr, path, targs, args, dty):
        if not _terms(args):
            return NOT_HANDLED
        t = _ity(path, targs)
        signed = bool(t and t[2])
        r = tm.binop(base, args[0], args[1])
        o = tm.ovf(("s" if signed else "u") + base + "o", args[0], args[1])
        if o.is_const():
            return NONE if o.val else some(r)
        return ForkValues([(o, 0, some(r)), (o, 1, NONE)])
    return f


for _n, _op in (("checked_add", "add"), ("checked_sub", "sub"), ("checked_mul", "mul")):
    builtin("int::" + _n)(_checked(_op))


@builtin("int::saturating_sub", "core::intrinsics::saturating_sub")
def _satsub(w, st, fr, path, targs, args, dty):
    t = _ity(path, targs)
    if not _terms(args) or (t and t[2]):
        return NOT_HANDLED
    a, b = args
    return tm.ite(tm.cmp("ult", a, b), K(0, a.bits), tm.binop("sub", a, b))


@builtin("int::saturating_add", "core::intrinsics::saturating_add")
def _satadd(w, st, fr, path, targs, args, dty):
    t = _ity(path, targs)
    if not _terms(args) or (t and t[2]):
        return NOT_HANDLED
    a, b = args
    return tm.ite(tm.ovf("uaddo", a, b), K(tm.mask(a.bits), a.bits), tm.binop("add", a, b))


def _bytes_of(x, order):
    n = x.bits // 8
    bs = [tm.trunc(tm.binop("lshr", x, K(8 * i, x.bits)), 8) for i in range(n)]
    if order == "be":
        bs.reverse()
    return Agg(("array",), 0, bs)


@builtin("int::to_le_bytes", "int::to_ne_bytes")
def _to_le(w, st, fr, path, targs, args, dty):
    return _bytes_of(args[0], "le")


@builtin("int::to_be_bytes")
def _to_be(w, st, fr, path, targs, args, dty):
    return _bytes_of(args[0], "be")


def _from_bytes(arr, order, bits):
    if isinstance(arr, SymObj) and arr.ty[0] == "array" and arr.ty[2] is not None and arr.ty[2] <= 16:
        arr = Agg(("array",), 0, [tm.sym("%s[%d]" % (arr.name, i), 8) for i in range(arr.ty[2])])
    if not isinstance(arr, Agg) or not all(isinstance(b, T) for b in arr.fields):
        return NOT_HANDLED
    bs = list(arr.fields)
    if order == "be":
        bs.reverse()
    r = K(0, bits)
    for i, b in enumerate(bs):
        r = tm.binop("or", r, tm.binop("shl", tm.zext(b, bits), K(8 * i, bits)))
    return r


@builtin("int::from_le_bytes", "int::from_ne_bytes")
def _from_le(w, st, fr, path, targs, args, dty):
    return _from_bytes(args[0], "le", ty_bits(dty))


@builtin("int::from_be_bytes")
def _from_be(w, st, fr, path, targs, args, dty):
    return _from_bytes(args[0], "be", ty_bits(dty))


def _countmodel(fn, name):
    def f(w, st, fr, path, targs, args, dty):
        a = args[0]
        if not isinstance(a, T):
            return NOT_HANDLED
        bits = ty_bits(dty) or 32
        if a.is_const():
            return K(fn(a.val, a.bits), bits)
        return tm.app(name, [a], bits)
    return f


def _cttz(v, bits):
    if v == 0:
        return bits
    n = 0
    while not (v >> n) & 1:
        n += 1
    return n


def _ctlz(v, bits):
    return bits - v.bit_length()


builtin("int::trailing_zeros", "core::intrinsics::cttz")(_countmodel(_cttz, "cttz"))
builtin("int::leading_zeros", "core::intrinsics::ctlz")(_countmodel(_ctlz, "ctlz"))
builtin("int::count_ones", "core::intrinsics::ctpop")(_countmodel(lambda v, b: bin(v).count("1"), "ctpop"))


def _rot(left):
    def f(w, st, fr, path, targs, args, dty):
        a, n = args[0], args[1]
        if not _terms(args) or not n.is_const():
            return NOT_HANDLED
        k = n.val % a.bits
        if k == 0:
            return a
        if not left:
            k = a.bits - k
        return tm.binop("or", tm.binop("shl", a, K(k, a.bits)), tm.binop("lshr", a, K(a.bits - k, a.bits)))
    return f


builtin("int::rotate_left", "core::intrinsics::rotate_left")(_rot(True))
builtin("int::rotate_right", "core::intrinsics::rotate_right")(_rot(False))


@builtin("int::min", "int::max", "core::cmp::min", "core::cmp::max", "core::cmp::Ord::min", "core::cmp::Ord::max")
def _minmax(w, st, fr, path, targs, args, dty):
    if not _terms(args):
        return NOT_HANDLED
    t = _ity(path, targs)
    signed = bool(t and t[2])
    a, b = args
    lt = tm.cmp("slt" if signed else "ult", b, a)
    if path.endswith("min"):
        return tm.ite(lt, b, a)
    return tm.ite(lt, a, b)


@builtin("int::abs", "int::wrapping_abs")
def _abs(w, st, fr, path, targs, args, dty):
    a = args[0]
    return tm.ite(tm.cmp("slt", a, K(0, a.bits)), tm.unop("neg", a), a)


@builtin("int::pow")
def _pow(w, st, fr, path, targs, args, dty):
    a, n = args
    if a.is_const() and n.is_const():
        return K(pow(a.val, n.val), a.bits)
    return NOT_HANDLED


@builtin("int::is_power_of_two")
def _ispow2(w, st, fr, path, targs, args, dty):
    a = args[0]
    if a.is_const():
        return tm.TRUE if a.val and not (a.val & (a.val - 1)) else tm.FALSE
    return NOT_HANDLED


# --------------------------------------------------------------- intrinsics

@builtin("core::intrinsics::likely", "core::intrinsics::unlikely", "core::hint::black_box",
         "core::hint::likely", "core::hint::unlikely", "core::intrinsics::black_box")
def _ident(w, st, fr, path, targs, args, dty):
    return args[0]


@builtin("core::intrinsics::cold_path", "core::intrinsics::assume", "core::hint::assert_unchecked",
         "core::hint::cold_path", "core::intrinsics::assert_inhabited",
         "core::intrinsics::assert_zero_valid", "core::intrinsics::assert_mem_uninitialized_valid",
         "core::mem::forget", "core::intrinsics::forget")
def _nop(w, st, fr, path, targs, args, dty):
    return UNIT


@builtin("core::intrinsics::ub_checks", "core::intrinsics::overflow_checks", "core::intrinsics::contract_checks",
         "core::ub_checks::check_language_ub", "core::ub_checks::check_library_ub")
def _false(w, st, fr, path, targs, args, dty):
    return tm.FALSE


@builtin("core::intrinsics::abort", "core::intrinsics::unreachable", "core::hint::unreachable_unchecked")
def _abort(w, st, fr, path, targs, args, dty):
    return Diverge(path)


@builtin("core::intrinsics::discriminant_value")
def _discr(w, st, fr, path, targs, args, dty):
    r = args[0]
    if not isinstance(r, Ref):
        return NOT_HANDLED
    v = w.load(st, r.obj, r.proj)
    bits = ty_bits(dty) or 64
    if isinstance(v, Agg) and v.kind[0] == "adt":
        adt = w.prog.adt(v.kind[1])
        return K(adt["variants"][v.variant]["discr"], bits)
    if isinstance(v, SymObj):
        from .walk import SplitEnum
        raise SplitEnum(r.obj, r.proj, v)
    return NOT_HANDLED


@builtin("core::intrinsics::transmute")
def _transmute(w, st, fr, path, targs, args, dty):
    a = args[0]
    if isinstance(a, T) and ty_bits(dty) == a.bits:
        return a
    return NOT_HANDLED


@builtin("core::mem::swap", "core::intrinsics::typed_swap_nonoverlapping", "core::ptr::swap",
         "core::ptr::swap_nonoverlapping")
def _swap(w, st, fr, path, targs, args, dty):
    a, b = args[0], args[1]
    if not isinstance(a, Ref) or not isinstance(b, Ref):
        return NOT_HANDLED
    va = w.load(st, a.obj, a.proj)
    vb = w.load(st, b.obj, b.proj)
    w.store_to(st, a.obj, a.proj, vb)
    w.store_to(st, b.obj, b.proj, va)
    return UNIT


@builtin("core::slice::<impl core::default::Default for &mut [T]>::default", "core::slice::<impl core::default::Default for &[T]>::default")
def _empty_slice_default(w, st, fr, path, targs, args, dty):
    oid = ("empty", len(st.trace), len(st.store))
    ety = targs[0] if targs else ("int", 8, False, False)
    st.store[oid] = SymArr("empty", ety, K(0, 64))
    return Ref(oid, (), "mut" in path, K(0, 64))


@builtin("core::mem::replace")
def _replace(w, st, fr, path, targs, args, dty):
    a = args[0]
    if not isinstance(a, Ref):
        return NOT_HANDLED
    old = w.load(st, a.obj, a.proj)
    w.store_to(st, a.obj, a.proj, args[1])
    return old


@builtin("core::ptr::read", "core::intrinsics::read_via_copy", "core::ptr::read_volatile")
def _ptrread(w, st, fr, path, targs, args, dty):
    a = args[0]
    if not isinstance(a, Ref):
        return NOT_HANDLED
    return w.load(st, a.obj, a.proj)


@builtin("core::ptr::write", "core::intrinsics::write_via_move")
def _ptrwrite(w, st, fr, path, targs, args, dty):
    a = args[0]
    if not isinstance(a, Ref):
        return NOT_HANDLED
    w.store_to(st, a.obj, a.proj, args[1])
    return UNIT


# --------------------------------------------------------------- comparison traits on primitives

def _deref_term(w, st, a):
    if isinstance(a, Ref):
        a = w.load(st, a.obj, a.proj)
    return a


def _cmp_trait(opname):
    def f(w, st, fr, path, targs, args, dty):
        if not targs or targs[0][0] not in ("int", "bool", "char"):
            return NOT_HANDLED
        a = _deref_term(w, st, args[0])
        b = _deref_term(w, st, args[1])
        # reference-to-reference comparisons (&&T)
        a = _deref_term(w, st, a)
        b = _deref_term(w, st, b)
        if not (isinstance(a, T) and isinstance(b, T)):
            return NOT_HANDLED
        signed = targs[0][0] == "int" and targs[0][2]
        if opname in ("eq", "ne"):
            return tm.cmp(opname, a, b)
        return tm.cmp(("s" if signed else "u") + opname, a, b)
    return f


for _n in ("eq", "ne"):
    builtin("core::cmp::PartialEq::" + _n)(_cmp_trait(_n))
for _n in ("lt", "le", "gt", "ge"):
    builtin("core::cmp::PartialOrd::" + _n)(_cmp_trait(_n))


def _float_assign(op):
    """<f32/f64 as OpAssign>::op_assign(&mut a, b) reached through a generic parameter: a = a op b (IEEE, no panic)"""
    def f(w, st, fr, path, targs, args, dty):
        if not targs or targs[0][0] != "float" or not isinstance(args[0], Ref):
            return NOT_HANDLED
        a = w.load(st, args[0].obj, args[0].proj)
        b = _deref_term(w, st, args[1])
        if not (isinstance(a, T) and isinstance(b, T)):
            return NOT_HANDLED
        w.store_to(st, args[0].obj, args[0].proj, tm.app("f" + op, [a, b], targs[0][1]))
        return UNIT
    return f


for _t, _n, _op in (("AddAssign", "add_assign", "Add"), ("SubAssign", "sub_assign", "Sub"), ("MulAssign", "mul_assign", "Mul"), ("DivAssign", "div_assign", "Div")):
    builtin("core::ops::%s::%s" % (_t, _n))(_float_assign(_op))


@builtin("core::clone::Clone::clone")
def _clone(w, st, fr, path, targs, args, dty):
    if not targs or targs[0][0] not in ("int", "bool", "char", "float"):
        return NOT_HANDLED
    return _deref_term(w, st, args[0])


# --------------------------------------------------------------- Range<int> iteration

@builtin("core::iter::range::<impl core::iter::Iterator for core::ops::Range<A>>::next")
def _range_next(w, st, fr, path, targs, args, dty):
    r = args[0]
    if not isinstance(r, Ref):
        return NOT_HANDLED
    v = w.load(st, r.obj, r.proj)
    if isinstance(v, SymObj) and v.ty[0] == "adt" and v.ty[1].endswith("::Range"):
        v = w.materialise(v, st)
    if not (isinstance(v, Agg) and v.kind[0] == "adt" and v.kind[1].endswith("::Range")):
        return NOT_HANDLED
    start, end = v.fields
    if not (isinstance(start, T) and isinstance(end, T)):
        return NOT_HANDLED
    signed = bool(targs and targs[0][0] == "int" and targs[0][2])
    if targs and targs[0][0] == "adt":
        # Self = Range<A>
        a = targs[0][2][0] if targs[0][2] else None
        signed = bool(a and a[0] == "int" and a[2])
    arb = getattr(w, "arbitrary_iteration", None)
    if arb is not None and not signed and arb(st, fr, start, end):
        # loop summarisation by an arbitrary iteration: the counter is a fresh value with start <= i < end; the
        # iteration after it leaves the loop (the caller argues about the whole loop by induction on i)
        k = sum(1 for n in st.notes if n[0] == "arbitrary-iteration")
        i = tm.sym("ITER%d" % k, start.bits)
        st.notes.append(("arbitrary-iteration", i, start, end))

        def take_arb(s2):
            s2.pc.append(("eq", tm.cmp("ule", start, i), 1))
            w.assume(s2, tm.cmp("ule", start, i), 1)
            w.store_to(s2, r.obj, r.proj, Agg(v.kind, 0, [end, end]))
            return some(i)
        ci = tm.cmp("ult", i, end)
        return ForkValues([(ci, 1, take_arb)])
    c = tm.cmp("slt" if signed else "ult", start, end)
    c = w.simplify(st, c)
    nxt = tm.binop("add", start, K(1, start.bits))

    def take(s2):
        w.store_to(s2, r.obj, r.proj, Agg(v.kind, 0, [nxt, end]))
        return some(start)
    if c.is_const():
        if c.val:
            return take(st)
        return NONE
    return ForkValues([(c, 1, take), (c, 0, NONE)])


@builtin("core::iter::IntoIterator::into_iter", "<I as core::iter::IntoIterator>::into_iter")
def _into_iter(w, st, fr, path, targs, args, dty):
    a = args[0]
    if isinstance(a, Agg) and a.kind[0] == "adt" and a.kind[1].endswith("::Range"):
        return a
    return NOT_HANDLED


@builtin("core::slice::<impl [T]>::len")
def _slice_len(w, st, fr, path, targs, args, dty):
    a = args[0]
    if isinstance(a, Ref):
        if a.meta is not None:
            return a.meta
        tgt = w.load(st, a.obj, a.proj)
        if isinstance(tgt, Agg) and tgt.kind == ("array",):
            return K(len(tgt.fields), 64)
        if isinstance(tgt, SymArr):
            return tgt.length
    return NOT_HANDLED


# --------------------------------------------------------------- slices / arrays / Vec as arrays

def _arr_len(w, st, r):
    if r.meta is not None:
        return r.meta
    tgt = w.load(st, r.obj, r.proj)
    if isinstance(tgt, SymObj):
        tgt = w.materialise(tgt, st)
        w.store_to(st, r.obj, r.proj, tgt)
    if isinstance(tgt, Agg) and tgt.kind == ("array",):
        return K(len(tgt.fields), 64)
    if isinstance(tgt, SymArr):
        return tgt.length
    return None


@builtin("core::slice::<impl [T]>::iter", "core::slice::iter::<impl core::iter::IntoIterator for &'a [T]>::into_iter",
         "core::array::<impl core::iter::IntoIterator for &'a [T; N]>::into_iter")
def _slice_iter(w, st, fr, path, targs, args, dty):
    r = args[0]
    if not isinstance(r, Ref):
        return NOT_HANDLED
    n = _arr_len(w, st, r)
    if n is None:
        return NOT_HANDLED
    return Agg(("sliceiter",), 0, [r, K(0, 64), n])


@builtin("<core::slice::Iter<'a, T> as core::iter::Iterator>::next")
def _slice_iter_next(w, st, fr, path, targs, args, dty):
    r = args[0]
    if not isinstance(r, Ref):
        return NOT_HANDLED
    it = w.load(st, r.obj, r.proj)
    if not (isinstance(it, Agg) and it.kind == ("sliceiter",)):
        return NOT_HANDLED
    base, i, n = it.fields
    c = w.simplify(st, tm.cmp("ult", i, n))

    def take(s2):
        w.store_to(s2, r.obj, r.proj, Agg(("sliceiter",), 0, [base, tm.binop("add", i, K(1, 64)), n]))
        proj = base.proj + ((("i", i.val),) if i.is_const() else (("ix", i),))
        return some(Ref(base.obj, proj, False))
    if c.is_const():
        return take(st) if c.val else NONE
    return ForkValues([(c, 1, take), (c, 0, NONE)])


@builtin("core::array::iter::<impl core::iter::traits::collect::IntoIterator for [T; N]>::into_iter",
         "core::array::iter::<impl core::iter::IntoIterator for [T; N]>::into_iter")
def _array_into_iter(w, st, fr, path, targs, args, dty):
    a = args[0]
    if not (isinstance(a, Agg) and a.kind == ("array",)):
        return NOT_HANDLED
    return Agg(("arrayiter",), 0, [a, K(0, 64)])


@builtin("<core::array::IntoIter<T, N> as core::iter::Iterator>::next")
def _array_iter_next(w, st, fr, path, targs, args, dty):
    r = args[0]
    if not isinstance(r, Ref):
        return NOT_HANDLED
    it = w.load(st, r.obj, r.proj)
    if not (isinstance(it, Agg) and it.kind == ("arrayiter",)):
        return NOT_HANDLED
    arr, i = it.fields
    if not (isinstance(i, T) and i.is_const()):
        return NOT_HANDLED
    if i.val >= len(arr.fields):
        return NONE
    w.store_to(st, r.obj, r.proj, Agg(("arrayiter",), 0, [arr, K(i.val + 1, 64)]))
    return some(arr.fields[i.val])


@builtin("<core::slice::Iter<'a, T> as core::iter::Iterator>::any")
def _slice_iter_any(w, st, fr, path, targs, args, dty):
    r = args[0]
    clo = args[1]
    it = w.load(st, r.obj, r.proj) if isinstance(r, Ref) else r
    if not (isinstance(it, Agg) and it.kind == ("sliceiter",)) or not isinstance(clo, Agg) or clo.kind[0] != "closure":
        return NOT_HANDLED
    base, i, n = it.fields
    if not (i.is_const() and n.is_const()) or n.val > 64:
        return NOT_HANDLED
    cfn = w.prog.fns.get(clo.kind[1])
    if cfn is None:
        return NOT_HANDLED
    acc = tm.FALSE
    oid = ("tmp", "anyclo", st.nfid)
    st.store[oid] = clo
    for k in range(i.val, n.val):
        elem = Ref(base.obj, base.proj + (("i", k),), False)
        ret, _ = w.call_pure(st, cfn, dict(fr.genv), [Ref(oid, (), True), elem])
        if not isinstance(ret, T):
            return NOT_HANDLED
        acc = tm.binop("or", acc, ret)
    return acc


@builtin("<core::slice::Iter<'a, T> as core::iter::Iterator>::find")
def _slice_iter_find(w, st, fr, path, targs, args, dty):
    """iter.find(pred) over a slice of known length (what Filter::next calls): the first element whose predicate term
    holds; the predicate must be a pure closure.  One outcome per element plus 'none', with exclusive conditions."""
    r, clo = args[0], args[1]
    if not isinstance(r, Ref):
        return NOT_HANDLED
    it = w.load(st, r.obj, r.proj)
    if not (isinstance(it, Agg) and it.kind == ("sliceiter",)):
        return NOT_HANDLED
    base, i, n = it.fields
    if not (i.is_const() and n.is_const()) or n.val - i.val > 32:
        return NOT_HANDLED
    cref = clo
    cval = w.load(st, clo.obj, clo.proj) if isinstance(clo, Ref) else clo
    hops = 0
    while isinstance(cval, Ref) and hops < 3:          # &mut &mut F
        cref, cval = cval, w.load(st, cval.obj, cval.proj)
        hops += 1
    if not (isinstance(cval, Agg) and cval.kind[0] == "closure"):
        return NOT_HANDLED
    cfn = w.prog.fns.get(cval.kind[1])
    if cfn is None:
        return NOT_HANDLED
    if not isinstance(cref, Ref):
        oid = ("tmp", "findclo", st.nfid)
        st.store[oid] = cval
        cref = Ref(oid, (), True)
    preds = []
    for k in range(i.val, n.val):
        elem = Ref(base.obj, base.proj + (("i", k),), False)
        eoid = ("tmp", "findelem", st.nfid, k)
        st.store[eoid] = elem
        try:
            ret, _ = w.call_pure(st, cfn, dict(fr.genv), [cref, Ref(eoid, (), False)])
        except Exception:
            return NOT_HANDLED
        if not isinstance(ret, T):
            return NOT_HANDLED
        preds.append((k, elem, w.simplify(st, ret)))
    alts = []
    none_before = tm.TRUE
    for k, elem, p_ in preds:
        cond = w.simplify(st, tm.binop("and", none_before, p_))

        def take(s2, k=k, elem=elem):
            w.store_to(s2, r.obj, r.proj, Agg(("sliceiter",), 0, [base, K(k + 1, 64), n]))
            return some(elem)
        if cond.is_const():
            if cond.val:
                alts.append((None, None, take))
                none_before = tm.FALSE
                break
        else:
            alts.append((cond, 1, take))
        none_before = w.simplify(st, tm.binop("and", none_before, tm.unop("not", p_)))

    def none_(s2):
        w.store_to(s2, r.obj, r.proj, Agg(("sliceiter",), 0, [base, n, n]))
        return NONE
    if not (none_before.is_const() and none_before.val == 0):
        alts.append((None, None, none_) if none_before.is_const() else (none_before, 1, none_))
    if len(alts) == 1 and alts[0][0] is None:
        return alts[0][2](st)
    return ForkValues(alts)


@builtin("core::ops::RangeInclusive::<Idx>::contains", "core::ops::Range::<Idx>::contains")
def _range_contains(w, st, fr, path, targs, args, dty):
    r, item = args[0], args[1]
    if not isinstance(r, Ref) or not isinstance(item, Ref):
        return NOT_HANDLED
    rv = w.load(st, r.obj, r.proj)
    if isinstance(rv, SymObj):
        rv = w.materialise(rv, st)
    x = _deref_term(w, st, item)
    if not (isinstance(rv, Agg) and isinstance(x, T)):
        return NOT_HANDLED
    start, end = rv.fields[0], rv.fields[1]
    if not (isinstance(start, T) and isinstance(end, T)):
        return NOT_HANDLED
    signed = bool(targs and targs[0][0] == "int" and targs[0][2])
    lo = tm.cmp("sle" if signed else "ule", start, x)
    if "RangeInclusive" in path:
        hi = tm.cmp("sle" if signed else "ule", x, end)
        if len(rv.fields) > 2 and isinstance(rv.fields[2], T):
            hi = tm.binop("and", hi, tm.unop("not", rv.fields[2]))
    else:
        hi = tm.cmp("slt" if signed else "ult", x, end)
    return tm.binop("and", lo, hi)


@builtin("core::slice::iter::<impl core::iter::IntoIterator for &'a mut [T]>::into_iter", "core::slice::<impl [T]>::iter_mut")
def _slice_iter_mut(w, st, fr, path, targs, args, dty):
    r = args[0]
    if not isinstance(r, Ref):
        return NOT_HANDLED
    n = _arr_len(w, st, r)
    if n is None:
        return NOT_HANDLED
    return Agg(("sliceiter",), 0, [r, K(0, 64), n])


builtin("<core::slice::IterMut<'a, T> as core::iter::Iterator>::next")(_slice_iter_next)


@builtin("core::slice::<impl [T]>::chunks_exact_mut", "core::slice::<impl [T]>::chunks_exact")
def _chunks_exact(w, st, fr, path, targs, args, dty):
    r, n = args[0], args[1]
    if isinstance(n, T):
        # documented panic: chunk size 0
        c = w.simplify(st, tm.cmp("ne", n, K(0, n.bits)))
        if c.is_const():
            if c.val == 0:
                return Diverge("chunk size must be non-zero")
        else:
            st.sites.append({"kind": "slice:chunk-size-nonzero", "fn": fr.fn.path, "loc": "?", "cond": c, "expected": 1, "nfacts_before": len(st.facts),
                             "stack": [f.fn.path for f in st.frames]})
            w.assume(st, c, 1)
    if not isinstance(r, Ref) or not isinstance(n, T) or not n.is_const():
        return NOT_HANDLED
    ln = _arr_len(w, st, r)
    if ln is None:
        return NOT_HANDLED
    return Agg(("chunksiter",), 0, [r, K(0, 64), ln, n])


@builtin("<core::slice::ChunksExactMut<'a, T> as core::iter::Iterator>::next",
         "<core::slice::ChunksExact<'a, T> as core::iter::Iterator>::next")
def _chunks_next(w, st, fr, path, targs, args, dty):
    r = args[0]
    if not isinstance(r, Ref):
        return NOT_HANDLED
    it = w.load(st, r.obj, r.proj)
    if not (isinstance(it, Agg) and it.kind == ("chunksiter",)):
        return NOT_HANDLED
    base, i, ln, n = it.fields
    c = w.simplify(st, tm.cmp("ule", tm.binop("add", i, n), ln))

    def take(s2):
        w.store_to(s2, r.obj, r.proj, Agg(("chunksiter",), 0, [base, tm.binop("add", i, n), ln, n]))
        oid = ("chunk", len(s2.trace), tm.show(i))
        s2.store[oid] = Agg(("array",), 0, [Opaque("chunk[%d]" % k) for k in range(n.val)])
        return some(Ref(oid, (), True, n))
    if c.is_const():
        return take(st) if c.val else NONE
    return ForkValues([(c, 1, take), (c, 0, NONE)])


@builtin("core::str::traits::<impl core::cmp::PartialEq for str>::eq", "core::str::<impl str>::eq")
def _str_eq(w, st, fr, path, targs, args, dty):
    """string comparison against a literal: an uninterpreted predicate of (left, literal)"""
    def lit(a):
        if isinstance(a, Ref):
            v = w.load(st, a.obj, a.proj)
            if isinstance(v, Agg) and v.kind == ("array",) and all(isinstance(x, T) and x.is_const() for x in v.fields):
                return bytes(x.val for x in v.fields).decode("latin-1")
        return None
    l0, l1 = lit(args[0]), lit(args[1])
    if l0 is not None and l1 is not None:
        return tm.TRUE if l0 == l1 else tm.FALSE
    other = args[1] if l0 is not None else args[0]
    name = getattr(other, "name", None) or (repr(other.obj) if isinstance(other, Ref) else repr(other))
    return tm.sym("streq(%s,%r)" % (name, l0 if l0 is not None else l1), 1)


@builtin("alloc::vec::from_elem")
def _from_elem(w, st, fr, path, targs, args, dty):
    elem, n = args[0], args[1]
    if not isinstance(n, T):
        return NOT_HANDLED
    name = "vec%d" % len(st.trace)
    ety = targs[0] if targs else ("int", 8, False, False)
    from .walk import Effect
    st.trace.append(Effect(path, tuple(args), None, None, fr.fn.path, len(st.frames)))
    return SymArr(name, ety, n)


@builtin("alloc::vec::Vec::<T>::new")
def _vec_new(w, st, fr, path, targs, args, dty):
    ety = targs[0] if targs else ("int", 8, False, False)
    return SymArr("vec%d" % len(st.trace), ety, K(0, 64))


@builtin("alloc::vec::Vec::<T, A>::clear")
def _vec_clear(w, st, fr, path, targs, args, dty):
    a = args[0]
    if not isinstance(a, Ref):
        return NOT_HANDLED
    v = w.load(st, a.obj, a.proj)
    ety = v.ety if isinstance(v, SymArr) else (targs[0] if targs else ("int", 8, False, False))
    w.store_to(st, a.obj, a.proj, SymArr("vec%d" % len(st.trace), ety, K(0, 64)))
    return UNIT


@builtin("alloc::vec::Vec::<T, A>::resize")
def _vec_resize(w, st, fr, path, targs, args, dty):
    """v.resize(n, x): the vector has n elements afterwards (an allocation of n elements, recorded like vec![x; n] so that
    the allocation rules see it); when it was empty before, every element is x — the contents are not tracked, as for
    from_elem"""
    a, n = args[0], args[1]
    if not (isinstance(a, Ref) and isinstance(n, T)):
        return NOT_HANDLED
    v = w.load(st, a.obj, a.proj)
    ety = v.ety if isinstance(v, SymArr) else (targs[0] if targs else ("int", 8, False, False))
    from .walk import Effect
    st.trace.append(Effect("alloc::vec::from_elem", (args[2] if len(args) > 2 else None, n), None, None, fr.fn.path, len(st.frames)))
    w.store_to(st, a.obj, a.proj, SymArr("vec%d" % len(st.trace), ety, n))
    return UNIT


@builtin("alloc::vec::Vec::<T, A>::len", "alloc::vec::Vec::<T>::len")
def _vec_len(w, st, fr, path, targs, args, dty):
    a = args[0]
    if isinstance(a, Ref):
        v = w.load(st, a.obj, a.proj)
        if isinstance(v, SymObj):
            v = w.materialise(v, st)
            w.store_to(st, a.obj, a.proj, v)
        if isinstance(v, SymArr):
            return v.length
    return NOT_HANDLED


@builtin("<alloc::vec::Vec<T, A> as core::ops::Deref>::deref", "<alloc::vec::Vec<T, A> as core::ops::DerefMut>::deref_mut",
         "alloc::vec::Vec::<T, A>::as_slice", "alloc::vec::Vec::<T, A>::as_mut_slice")
def _vec_deref(w, st, fr, path, targs, args, dty):
    a = args[0]
    if isinstance(a, Ref):
        v = w.load(st, a.obj, a.proj)
        if isinstance(v, SymObj):
            v = w.materialise(v, st)
            w.store_to(st, a.obj, a.proj, v)
        if isinstance(v, SymArr):
            return Ref(a.obj, a.proj, a.mut, v.length)
    return NOT_HANDLED


@builtin("alloc::string::String::as_str", "<alloc::string::String as core::ops::Deref>::deref")
def _string_as_str(w, st, fr, path, targs, args, dty):
    a = args[0]
    if isinstance(a, Ref):
        v = w.load(st, a.obj, a.proj)
        nm = getattr(v, "name", None) or repr(a.obj)
        return Opaque("str(%s)" % nm)
    return NOT_HANDLED


def _index_common(w, st, fr, path, targs, args, dty, mut):
    base, idx = args[0], args[1]
    if not isinstance(base, Ref):
        return NOT_HANDLED
    tgt = w.load(st, base.obj, base.proj)
    if isinstance(tgt, SymObj):
        tgt = w.materialise(tgt, st)
        w.store_to(st, base.obj, base.proj, tgt)
    ln = base.meta
    if ln is None:
        if isinstance(tgt, Agg) and tgt.kind == ("array",):
            ln = K(len(tgt.fields), 64)
        elif isinstance(tgt, SymArr):
            ln = tgt.length
    if ln is None:
        return NOT_HANDLED

    def site(kind, cond):
        c = w.simplify(st, cond)
        if c.is_const():
            if c.val == 0:
                return False
            return True
        st.sites.append({"kind": "slice:" + kind, "fn": fr.fn.path, "loc": "?", "cond": c, "expected": 1, "nfacts_before": len(st.facts),
                         "stack": [f.fn.path for f in st.frames], "len": ln})
        w.assume(st, c, 1)
        return True
    if isinstance(idx, T):
        if not site("index", tm.cmp("ult", idx, ln)):
            return Diverge("index out of bounds")
        i = w.simplify(st, idx)
        return Ref(base.obj, base.proj + ((("i", i.val),) if i.is_const() else (("ix", i),)), mut)
    if isinstance(idx, Agg) and idx.kind[0] == "adt":
        k = idx.kind[1].split("::")[-1]
        z = K(0, 64)
        if k == "RangeFull":
            s, e = z, ln
        elif k == "RangeTo":
            s, e = z, idx.fields[0]
        elif k == "RangeFrom":
            s, e = idx.fields[0], ln
        elif k == "Range":
            s, e = idx.fields[0], idx.fields[1]
        else:
            return NOT_HANDLED
        if not (isinstance(s, T) and isinstance(e, T)):
            return NOT_HANDLED
        if not site("range-end", tm.cmp("ule", e, ln)):
            return Diverge("range end out of bounds")
        if not site("range-order", tm.cmp("ule", s, e)):
            return Diverge("range start > end")
        n = tm.binop("sub", e, s)
        if s.is_const() and s.val == 0 and isinstance(tgt, (Agg, SymArr)):
            # prefix view of the same object
            return Ref(base.obj, base.proj, mut, n)
        if mut and isinstance(tgt, Agg) and tgt.kind == ("array",) and s.is_const() and e.is_const() and e.val <= len(tgt.fields):
            # mutable window of a known array with constant bounds: stores through it land in the array
            return Ref(base.obj, base.proj + (("view", s.val, e.val - s.val),), True, n)
        oid = ("sub", len(st.trace), tm.show(s))
        if not mut and isinstance(tgt, Agg) and tgt.kind == ("array",) and s.is_const() and e.is_const() and e.val <= len(tgt.fields):
            # shared view of a known array with constant bounds: the elements themselves (nothing can be written through
            # it, and the array cannot change while it is borrowed)
            st.store[oid] = Agg(("array",), 0, list(tgt.fields[s.val:e.val]))
            return Ref(oid, (), False, n)
        name = getattr(tgt, "name", "slice")
        ety = tgt.ety if isinstance(tgt, SymArr) else ("int", 8, False, False)
        st.store[oid] = SymArr("%s[%s..]" % (name, tm.show(s)), ety, n)
        return Ref(oid, (), mut, n)
    return NOT_HANDLED


@builtin("<alloc::vec::Vec<T, A> as core::ops::Index<I>>::index", "core::slice::index::<impl core::ops::Index<I> for [T]>::index",
         "core::array::<impl core::ops::Index<I> for [T; N]>::index")
def _index(w, st, fr, path, targs, args, dty):
    return _index_common(w, st, fr, path, targs, args, dty, False)


@builtin("<alloc::vec::Vec<T, A> as core::ops::IndexMut<I>>::index_mut", "core::slice::index::<impl core::ops::IndexMut<I> for [T]>::index_mut",
         "core::array::<impl core::ops::IndexMut<I> for [T; N]>::index_mut")
def _index_mut(w, st, fr, path, targs, args, dty):
    return _index_common(w, st, fr, path, targs, args, dty, True)


def _elems(w, st, r):
    """elements of a slice / array reference with a known constant number of elements, or None"""
    if not isinstance(r, Ref):
        return None
    tgt = w.load(st, r.obj, r.proj)
    if isinstance(tgt, SymObj):
        tgt = w.materialise(tgt, st)
        w.store_to(st, r.obj, r.proj, tgt)
    if not (isinstance(tgt, Agg) and tgt.kind == ("array",)):
        return None
    n = len(tgt.fields)
    if r.meta is not None:
        if not (isinstance(r.meta, T) and r.meta.is_const()) or r.meta.val > n:
            return None
        n = r.meta.val
    return list(tgt.fields[:n])


@builtin("core::slice::<impl [T]>::contains")
def _slice_contains(w, st, fr, path, targs, args, dty):
    es = _elems(w, st, args[0])
    x = args[1]
    if isinstance(x, Ref):
        x = w.load(st, x.obj, x.proj)
    if es is None or not isinstance(x, T) or not all(isinstance(e, T) for e in es):
        return NOT_HANDLED
    r = tm.FALSE
    for e in es:
        r = tm.binop("or", r, tm.cmp("eq", e, x))
    return r


@builtin("core::slice::<impl [T]>::split_at")
def _split_at(w, st, fr, path, targs, args, dty):
    es = _elems(w, st, args[0])
    mid = args[1]
    if es is None or not (isinstance(mid, T) and mid.is_const()):
        return NOT_HANDLED
    if mid.val > len(es):
        return Diverge("split_at: mid > len")
    a, b = ("split", len(st.trace), 0), ("split", len(st.trace), 1)
    st.store[a] = Agg(("array",), 0, es[:mid.val])
    st.store[b] = Agg(("array",), 0, es[mid.val:])
    return Agg(("tuple",), 0, [Ref(a, (), False, K(mid.val, 64)), Ref(b, (), False, K(len(es) - mid.val, 64))])


@builtin("<T as core::convert::TryInto<U>>::try_into", "core::array::<impl core::convert::TryFrom<&'a [T]> for [T; N]>::try_from")
def _slice_try_into_array(w, st, fr, path, targs, args, dty):
    """&[T] -> Result<[T; N], _>: Ok with the elements when the slice has exactly N of them"""
    if not (isinstance(dty, tuple) and dty[0] == "adt" and dty[1].endswith("result::Result") and dty[2] and isinstance(dty[2][0], tuple) and dty[2][0][0] == "array"):
        return NOT_HANDLED
    n = dty[2][0][2]
    es = _elems(w, st, args[0])
    if es is None or n is None:
        return NOT_HANDLED
    if len(es) == n:
        return Agg(("adt", dty[1]), 0, [Agg(("array",), 0, es)])
    return Agg(("adt", dty[1]), 1, [Opaque("TryFromSliceError")])


@builtin("core::slice::<impl [T]>::copy_from_slice")
def _copy_from_slice(w, st, fr, path, targs, args, dty):
    dst, src = args[0], args[1]
    if not (isinstance(dst, Ref) and isinstance(src, Ref)):
        return NOT_HANDLED
    ld_, ls = _arr_len(w, st, dst), _arr_len(w, st, src)
    if ld_ is None or ls is None:
        return NOT_HANDLED
    c = w.simplify(st, tm.cmp("eq", ld_, ls))
    if c.is_const() and c.val == 0:
        return Diverge("copy_from_slice length mismatch")
    if not c.is_const():
        st.sites.append({"kind": "slice:copy-length", "fn": fr.fn.path, "loc": "?", "cond": c, "expected": 1, "nfacts_before": len(st.facts),
                         "stack": [f.fn.path for f in st.frames]})
        w.assume(st, c, 1)
    from .walk import Effect
    st.trace.append(Effect(path, (dst, src), None, None, fr.fn.path, len(st.frames)))
    sv = w.load(st, src.obj, src.proj)
    dv = w.load(st, dst.obj, dst.proj)
    if isinstance(dv, Agg) and isinstance(sv, Agg) and len(dv.fields) == len(sv.fields):
        w.store_to(st, dst.obj, dst.proj, sv)
    elif isinstance(dv, SymArr):
        w.store_to(st, dst.obj, dst.proj, SymArr("copy(%s)" % getattr(sv, "name", "src"), dv.ety, dv.length))
    elif isinstance(dv, Agg):
        nm = getattr(sv, "name", "src")
        w.store_to(st, dst.obj, dst.proj, Agg(dv.kind, dv.variant, [tm.sym("%s[%d]" % (nm, i), 8) for i in range(len(dv.fields))]))
    return UNIT


@builtin("alloc::slice::<impl [T]>::to_vec")
def _to_vec(w, st, fr, path, targs, args, dty):
    a = args[0]
    if not isinstance(a, Ref):
        return NOT_HANDLED
    n = _arr_len(w, st, a)
    v = w.load(st, a.obj, a.proj)
    if n is None:
        return NOT_HANDLED
    return SymArr("vec(%s)" % getattr(v, "name", "slice"), ("int", 8, False, False), n)


@builtin("<core::slice::Iter<'a, T> as core::iter::Iterator>::position")
def _slice_iter_position(w, st, fr, path, targs, args, dty):
    r = args[0]
    it = w.load(st, r.obj, r.proj) if isinstance(r, Ref) else r
    if not (isinstance(it, Agg) and it.kind == ("sliceiter",)):
        return NOT_HANDLED
    base, i, n = it.fields
    found = tm.fresh_sym("position.found", 1)
    pos = tm.fresh_sym("position", 64)

    def hit(s2):
        # the result indexes the remaining part of the slice
        w.assume(s2, tm.cmp("ult", pos, tm.binop("sub", n, i)), 1)
        return some(pos)
    return ForkValues([(found, 1, hit), (found, 0, NONE)])


def _slice_eq_model(negate):
    def f(w, st, fr, path, targs, args, dty):
        """element-wise comparison of two arrays / slices whose elements are known terms"""
        vals = []
        for a in args[:2]:
            if not isinstance(a, Ref):
                return NOT_HANDLED
            v = w.load(st, a.obj, a.proj)
            if not (isinstance(v, Agg) and v.kind == ("array",) and all(isinstance(x, T) for x in v.fields)):
                return NOT_HANDLED
            fields = list(v.fields)
            if a.meta is not None:
                # a prefix view of the array (`a[..n]`)
                if not (isinstance(a.meta, T) and a.meta.is_const() and a.meta.val <= len(fields)):
                    return NOT_HANDLED
                fields = fields[:a.meta.val]
            vals.append(fields)
        x, y = vals
        if len(x) != len(y):
            r = tm.FALSE
        else:
            r = tm.TRUE
            for p, q in zip(x, y):
                if p.bits != q.bits:
                    return NOT_HANDLED
                r = tm.binop("and", r, tm.cmp("eq", p, q))
        return tm.unop("not", r) if negate else r
    return f


from .walk import _builtin_key as _bk   # noqa: E402
for _m, _neg in (("eq", False), ("ne", True)):
    _paths = ["core::array::equality::<impl core::cmp::PartialEq<[U; N]> for [T]>::" + _m,
              "core::array::equality::<impl core::cmp::PartialEq<[U]> for [T; N]>::" + _m,
              "core::array::equality::<impl core::cmp::PartialEq<[U; N]> for [T; N]>::" + _m,
              "core::array::equality::<impl core::cmp::PartialEq<[U; N]> for &[T]>::" + _m,
              "core::slice::cmp::<impl core::cmp::PartialEq<[U]> for [T]>::" + _m]
    builtin(*(_paths + [_bk(p) for p in _paths]))(_slice_eq_model(_neg))


# ---- Zip: std specialises Zip over slice iterators through TrustedRandomAccess (unsafe index arithmetic); the model
# below is the documented semantics: both sides advance together, the first exhausted side ends the zip.
def _zip_new(w, st, fr, path, targs, args, dty):
    a, b = args[0], args[1]
    # second operand is `IntoIterator`: a reference to an array / slice becomes its iterator
    if isinstance(b, Ref):
        n = _arr_len(w, st, b)
        if n is None:
            return NOT_HANDLED
        b = Agg(("sliceiter",), 0, [b, K(0, 64), n])
    # `(k..)`: an unbounded counter (RangeFrom over an integer)
    if isinstance(a, Agg) and a.kind[0] == "adt" and a.kind[1].endswith("::RangeFrom") and len(a.fields) == 1 and isinstance(a.fields[0], T):
        a = Agg(("countiter",), 0, [a.fields[0]])
    ok_kinds = (("sliceiter",), ("zipmodel",), ("countiter",))
    if not (isinstance(a, Agg) and a.kind in ok_kinds and isinstance(b, Agg) and b.kind in ok_kinds):
        return NOT_HANDLED
    return Agg(("zipmodel",), 0, [a, b])


builtin("core::iter::Iterator::zip", "core::iter::traits::iterator::Iterator::zip", "core::iter::adapters::zip::zip",
        "core::iter::adapters::zip::Zip::<A, B>::new")(_zip_new)


def _model_next(it):
    """(condition term that an element exists, element value, advanced iterator) for sliceiter / zipmodel"""
    if it.kind == ("sliceiter",):
        base, i, n = it.fields
        proj = base.proj + ((("i", i.val),) if i.is_const() else (("ix", i),))
        return tm.cmp("ult", i, n), Ref(base.obj, proj, False), Agg(("sliceiter",), 0, [base, tm.binop("add", i, K(1, 64)), n])
    if it.kind == ("countiter",):
        cur = it.fields[0]
        # RangeFrom::next computes the successor when it hands out an element (overflow check in debug builds): only
        # a concrete counter below the type's maximum is modelled, anything else fails closed
        if not (cur.is_const() and cur.val < (1 << cur.bits) - 1):
            raise WalkError("unbounded counter %s may overflow" % (cur,))
        return tm.TRUE, cur, Agg(("countiter",), 0, [K(cur.val + 1, cur.bits)])
    if it.kind == ("zipmodel",):
        ca, ea, na = _model_next(it.fields[0])
        cb, eb, nb = _model_next(it.fields[1])
        return tm.binop("and", ca, cb), Agg(("tuple",), 0, [ea, eb]), Agg(("zipmodel",), 0, [na, nb])
    raise WalkError("iterator model %r" % (it.kind,))


@builtin("<core::iter::adapters::zip::Zip<A, B> as core::iter::Iterator>::next",
         "<core::iter::adapters::zip::Zip<A, B> as core::iter::traits::iterator::Iterator>::next",
         "<core::iter::Zip<A, B> as core::iter::Iterator>::next")
def _zip_next(w, st, fr, path, targs, args, dty):
    r = args[0]
    if not isinstance(r, Ref):
        return NOT_HANDLED
    it = w.load(st, r.obj, r.proj)
    if not (isinstance(it, Agg) and it.kind == ("zipmodel",)):
        return NOT_HANDLED
    c, elem, nxt = _model_next(it)
    c = w.simplify(st, c)

    def take(s2):
        w.store_to(s2, r.obj, r.proj, nxt)
        return some(elem)
    if c.is_const():
        return take(st) if c.val else NONE
    return ForkValues([(c, 1, take), (c, 0, NONE)])
