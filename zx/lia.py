"""Linear integer arithmetic entailment for path facts (a small relational domain, Fourier-Motzkin over Q).

Used where a rule has to relate two *symbolic* quantities (buffer offset vs block size, bytes fetched vs bytes
consumed): the walker's own facts are comparisons between terms, intervals relate a term to constants only.

  lin(t)            term -> {atom: coeff} + const, over the mathematical integers.  add/sub/mul-by-constant are
                    followed only when the node provably does not wrap (a recorded no-overflow fact of the checked
                    MIR operation, or unsigned ranges); anything else becomes an opaque atom (sound: relations lost).
  hypotheses(...)   facts / not-equal facts of a path -> list of constraints  e <= 0  /  e == 0
  entails(H, goal)  True when H and not(goal) has no rational solution (hence no integer one).  A False answer
                    means "not proved", never "refuted".

Every atom x carries its type bounds 0 <= x <= 2^bits - 1.
"""
from fractions import Fraction
from . import term as tm
from .term import T


class Lin(object):
    __slots__ = ("c", "k")

    def __init__(self, c=None, k=0):
        self.c = dict((a, Fraction(v)) for a, v in (c or {}).items() if v != 0)
        self.k = Fraction(k)

    def __add__(self, o):
        c = dict(self.c)
        for a, v in o.c.items():
            c[a] = c.get(a, 0) + v
        return Lin(c, self.k + o.k)

    def __sub__(self, o):
        return self + o.scale(-1)

    def scale(self, f):
        f = Fraction(f)
        return Lin(dict((a, v * f) for a, v in self.c.items()), self.k * f)

    def is_const(self):
        return not self.c

    def __repr__(self):
        parts = ["%s*%s" % (v, tm.show(a) if isinstance(a, T) else a) for a, v in self.c.items()]
        return " + ".join(parts + [str(self.k)])


def const(v):
    return Lin({}, v)


class Ctx(object):
    """no-overflow knowledge: set of (op, a, b) nodes known not to wrap"""

    def __init__(self, facts=None):
        self.nowrap = set()
        self.facts = facts or {}
        for t, v in self.facts.items():
            # a recorded comparison b <= a makes a - b exact
            if t.op == "ult" and v.val == 0:
                self.nowrap.add(("sub", t.args[0], t.args[1]))
            elif t.op == "ult" and v.val == 1:
                self.nowrap.add(("sub", t.args[1], t.args[0]))
            elif t.op == "ule" and v.val == 1:
                self.nowrap.add(("sub", t.args[1], t.args[0]))
            elif t.op == "ule" and v.val == 0:
                self.nowrap.add(("sub", t.args[0], t.args[1]))
            if t.op in ("uaddo", "usubo", "umulo") and v.val == 0:
                self.nowrap.add(({"uaddo": "add", "usubo": "sub", "umulo": "mul"}[t.op], t.args[0], t.args[1]))
                if t.op in ("uaddo", "umulo"):
                    self.nowrap.add(({"uaddo": "add", "umulo": "mul"}[t.op], t.args[1], t.args[0]))

    def ok(self, t):
        op, a, b = t.op, t.args[0], t.args[1]
        if (op, a, b) in self.nowrap:
            return True
        la, ha = tm.urange(a)
        lb, hb = tm.urange(b)
        m = tm.mask(t.bits)
        if op == "add":
            return ha + hb <= m
        if op == "sub":
            return la >= hb
        if op == "mul":
            return ha * hb <= m
        return False


def lin(t, ctx=None):
    ctx = ctx or Ctx()
    f = ctx.facts.get(t)
    if f is not None:
        return const(f.val)
    op = t.op
    if op == "k":
        return const(t.args[0])
    if op == "zext":
        return lin(t.args[0], ctx)
    if op == "trunc":
        lo, hi = tm.urange(t.args[0])
        if hi <= tm.mask(t.bits):
            return lin(t.args[0], ctx)
    if op in ("add", "sub") and ctx.ok(t):
        a, b = lin(t.args[0], ctx), lin(t.args[1], ctx)
        return a + b if op == "add" else a - b
    if op == "add" and t.args[1].op == "k" and t.args[1].args[0] > tm.mask(t.bits) // 2:
        # x + (2^n - c)  is  x - c  when x >= c is known through a usubo fact on (x, c)
        c = tm.mask(t.bits) + 1 - t.args[1].args[0]
        if ("sub", t.args[0], tm.K(c, t.bits)) in ctx.nowrap or tm.urange(t.args[0])[0] >= c:
            return lin(t.args[0], ctx) - const(c)
    if op == "mul" and ctx.ok(t):
        for x, y in ((t.args[0], t.args[1]), (t.args[1], t.args[0])):
            if y.op == "k":
                return lin(x, ctx).scale(y.args[0])
    if op == "shl" and t.args[1].op == "k":
        k = t.args[1].args[0]
        lo, hi = tm.urange(t.args[0])
        if (hi << k) <= tm.mask(t.bits) or ("mul", t.args[0], tm.K(1 << k, t.bits)) in ctx.nowrap:
            # (a checked multiplication by 2^k is printed as a shift)
            return lin(t.args[0], ctx).scale(1 << k)
    if op == "ite" and t.bits > 1:
        cv = ctx.facts.get(t.args[0])
        if cv is not None:
            return lin(t.args[1] if cv.val else t.args[2], ctx)
        # undecided: an atom (its min/max relation to the arms is added by hypotheses())
    return Lin({t: 1}, 0)


def atoms_of(cons):
    s = set()
    for (e, _) in cons:
        s |= set(e.c)
    return s


def hypotheses(facts, nfacts=None, extra=()):
    """constraints (Lin, kind) with kind '<=' (e <= 0) or '==' (e == 0)"""
    ctx = Ctx(facts)
    cons = []

    def cmp_fact(t, v):
        op = t.op
        if op in ("ult", "ule", "eq", "ne"):
            a, b = lin(t.args[0], ctx), lin(t.args[1], ctx)
            if op == "ult":
                cons.append((a - b + const(1), "<=") if v else (b - a, "<="))
            elif op == "ule":
                cons.append((a - b, "<=") if v else (b - a + const(1), "<="))
            elif (op == "eq") == bool(v):
                cons.append((a - b, "=="))
        elif op == "not" and t.bits == 1:
            cmp_fact(t.args[0], 1 - v)
        elif op == "and" and t.bits == 1 and v == 1:
            cmp_fact(t.args[0], 1)
            cmp_fact(t.args[1], 1)
        elif op == "or" and t.bits == 1 and v == 0:
            cmp_fact(t.args[0], 0)
            cmp_fact(t.args[1], 0)
        elif op == "uaddo":
            e = lin(t.args[0], ctx) + lin(t.args[1], ctx) - const(tm.mask(t.args[0].bits))
            cons.append((e, "<=") if v == 0 else (e.scale(-1) + const(1), "<="))
        elif op == "usubo":
            a, b = lin(t.args[0], ctx), lin(t.args[1], ctx)
            cons.append((b - a, "<=") if v == 0 else (a - b + const(1), "<="))
        elif t.bits > 1:
            cons.append((lin_nofact(t, ctx) - const(v), "=="))

    def lin_nofact(t, ctx_):
        saved = ctx_.facts.pop(t, None)
        try:
            return lin(t, ctx_)
        finally:
            if saved is not None:
                ctx_.facts[t] = saved

    for t, v in list(facts.items()):
        cmp_fact(t, v.val)
    for (t, v) in extra:
        cmp_fact(t, v)
    # x >> k and x / c atoms: floor relations  c*t <= x <= c*t + c - 1
    done = set()
    changed = True
    while changed:
        changed = False
        for a in list(atoms_of(cons)):
            if a in done or not isinstance(a, T):
                continue
            done.add(a)
            c_ = None
            if a.op == "lshr" and a.args[1].op == "k" and a.args[1].args[0] < a.bits:
                c_ = 1 << a.args[1].args[0]
            elif a.op == "udiv" and a.args[1].op == "k" and a.args[1].args[0] > 0:
                c_ = a.args[1].args[0]
            if c_ is not None:
                x = lin(a.args[0], ctx)
                cons.append((Lin({a: c_}) - x, "<="))
                cons.append((x - Lin({a: c_}, c_ - 1), "<="))
                changed = True
    # ite atoms: relate to their arms under the recorded condition, and min/max shape
    for a in list(atoms_of(cons)):
        if isinstance(a, T) and a.op == "ite" and a.bits > 1:
            c, x, y = a.args
            cv = facts.get(c)
            if cv is not None:
                cons.append((Lin({a: 1}) - lin(x if cv.val else y, ctx), "=="))
            else:
                # ite(x < y, x, y) = min: result <= both; ite(x < y, y, x) = max: result >= both
                if c.op in ("ult", "ule") and set(c.args) == set((x, y)):
                    is_min = c.args[0] is x
                    for z in (x, y):
                        e = Lin({a: 1}) - lin(z, ctx)
                        cons.append((e, "<=") if is_min else (e.scale(-1), "<="))
    return cons, ctx


def _bounds(cons):
    out = []
    for a in atoms_of(cons):
        if isinstance(a, T):
            lo, hi = tm.urange(a)
            out.append((Lin({a: -1}, lo), "<="))
            out.append((Lin({a: 1}, -hi), "<="))
    return out


def infeasible(cons, max_rows=4000):
    """Fourier-Motzkin over the rationals: True when the constraint set has no solution"""
    rows = []
    eqs = []
    for (e, kind) in cons + _bounds(cons):
        if kind == "==":
            eqs.append(e)
        else:
            rows.append(e)
    # eliminate equalities by substitution
    while eqs:
        e = eqs.pop()
        if e.is_const():
            if e.k != 0:
                return True
            continue
        a, v = next(iter(e.c.items()))
        # a = -(rest)/v
        rest = Lin(dict((x, c) for x, c in e.c.items() if x is not a), e.k).scale(Fraction(-1) / v)

        def sub(r):
            c = r.c.get(a)
            if not c:
                return r
            return Lin(dict((x, cc) for x, cc in r.c.items() if x is not a), r.k) + rest.scale(c)
        eqs = [sub(r) for r in eqs]
        rows = [sub(r) for r in rows]
    while True:
        rows2 = []
        for r in rows:
            if r.is_const():
                if r.k > 0:
                    return True
            else:
                rows2.append(r)
        rows = rows2
        if not rows:
            return False
        # pick the variable with the fewest pos*neg products
        best = None
        for a in set().union(*[set(r.c) for r in rows]):
            p = sum(1 for r in rows if r.c.get(a, 0) > 0)
            n = sum(1 for r in rows if r.c.get(a, 0) < 0)
            cost = p * n - p - n
            if best is None or cost < best[0]:
                best = (cost, a)
        a = best[1]
        pos = [r for r in rows if r.c.get(a, 0) > 0]
        neg = [r for r in rows if r.c.get(a, 0) < 0]
        rest = [r for r in rows if not r.c.get(a)]
        new = []
        for p in pos:
            for n in neg:
                new.append(p.scale(Fraction(1) / p.c[a]) + n.scale(Fraction(-1) / n.c[a]))
        rows = rest + new
        if len(rows) > max_rows:
            return False    # give up: not proved
        # drop duplicates
        seen = set()
        uniq = []
        for r in rows:
            key = (tuple(sorted(((id(x), v) for x, v in r.c.items()))), r.k)
            if key not in seen:
                seen.add(key)
                uniq.append(r)
        rows = uniq


def entails(cons, goal_expr, kind):
    """goal: goal_expr <= 0  ('<='),  == 0 ('=='),  < 0 ('<')"""
    if kind == "<=":
        return infeasible(cons + [(goal_expr.scale(-1) + const(1), "<=")])      # e >= 1
    if kind == "<":
        return infeasible(cons + [(goal_expr.scale(-1), "<=")])                 # e >= 0
    if kind == "==":
        return entails(cons, goal_expr, "<=") and entails(cons, goal_expr.scale(-1), "<=")
    raise ValueError(kind)


def ite_atoms(terms, facts):
    """ite sub-terms (wider than 1 bit) with a condition the facts do not decide"""
    out = []
    seen = set()

    def walk(t):
        if t in seen or not isinstance(t, T):
            return
        seen.add(t)
        if t.op == "ite" and t.bits > 1 and t.args[0] not in facts and not t.args[0].is_const():
            out.append(t)
        for a in t.args:
            if isinstance(a, T):
                walk(a)
    for t in terms:
        walk(t)
    return out


def prove(facts, extra, goals, terms=(), max_split=4):
    """facts: dict term -> K (path facts); extra: [(Lin, kind)] assumed constraints; goals: [(Lin-builder, kind)]
    where a Lin-builder is a function ctx -> Lin (so that the no-overflow context of each case is used).
    Case-splits on undecided ite conditions occurring in `terms`.  True iff every goal holds in every case."""
    its = ite_atoms(terms, facts)[:max_split]
    n = len(its)
    for mask_ in range(1 << n):
        f2 = dict(facts)
        for i, it in enumerate(its):
            f2[it.args[0]] = tm.K((mask_ >> i) & 1, 1)
        cons, ctx = hypotheses(f2)
        cons = cons + list(extra)
        if infeasible(cons):
            continue
        for (build, kind) in goals:
            if not entails(cons, build(ctx), kind):
                return False
    return True
