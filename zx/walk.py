"""zxwalk: path-sensitive abstract interpreter over MIR facts.

Inputs are symbolic names; calls whose callee has no MIR (type-parameter methods, external crates)
become ordered *effects*.  Branches on constants follow one edge (SCCP); branches on terms fork.
"""
import sys

from . import term as tm
from .term import T, K
from .facts import subst_ty, unify, ty_bits, ty_str


class Agg(object):
    __slots__ = ("kind", "variant", "fields")

    def __init__(self, kind, variant, fields):
        self.kind = kind
        self.variant = variant
        self.fields = tuple(fields)

    def __repr__(self):
        return "Agg(%s,%s,%s)" % (self.kind, self.variant, list(self.fields))

    def with_field(self, i, v):
        f = list(self.fields)
        f[i] = v
        return Agg(self.kind, self.variant, f)


class SymObj(object):
    __slots__ = ("name", "ty")

    def __init__(self, name, ty):
        self.name = name
        self.ty = ty

    def __repr__(self):
        return "SymObj(%s:%s)" % (self.name, ty_str(self.ty))


class SymArr(object):
    """Large / unsized symbolic array: base name + ordered writes."""
    __slots__ = ("name", "ety", "length", "writes")

    def __init__(self, name, ety, length, writes=()):
        self.name = name
        self.ety = ety
        self.length = length
        self.writes = writes

    def __repr__(self):
        return "SymArr(%s,%d writes)" % (self.name, len(self.writes))


class Ref(object):
    __slots__ = ("obj", "proj", "mut", "meta")

    def __init__(self, obj, proj, mut=False, meta=None):
        self.obj = obj
        self.proj = tuple(proj)
        self.mut = mut
        self.meta = meta

    def __repr__(self):
        return "Ref(%s%s)" % (self.obj, "".join("." + str(p[1]) for p in self.proj))

    def key(self):
        return (self.obj, self.proj)


class FnVal(object):
    __slots__ = ("path", "args")

    def __init__(self, path, args=()):
        self.path = path
        self.args = tuple(args)

    def __repr__(self):
        return "FnVal(%s)" % self.path


class Opaque(object):
    __slots__ = ("name", "ty")

    def __init__(self, name, ty=None):
        self.name = name
        self.ty = ty

    def __repr__(self):
        return "Opaque(%s)" % self.name


class _Uninit(object):
    def __repr__(self):
        return "UNINIT"


UNINIT = _Uninit()
UNIT = Agg(("tuple",), 0, ())


class Frame(object):
    __slots__ = ("fn", "body", "block", "genv", "dest", "ret_block", "fid", "caller_span", "prom")

    def copy(self):
        f = Frame()
        f.fn = self.fn
        f.body = self.body
        f.block = self.block
        f.genv = self.genv
        f.dest = self.dest
        f.ret_block = self.ret_block
        f.fid = self.fid
        f.caller_span = self.caller_span
        f.prom = self.prom
        return f


class State(object):
    __slots__ = ("store", "frames", "trace", "facts", "nfacts", "pc", "sites", "visits", "nfid",
                 "steps", "notes", "choices")

    def copy(self):
        s = State()
        s.store = dict(self.store)
        s.frames = [f.copy() for f in self.frames]
        s.trace = list(self.trace)
        s.facts = dict(self.facts)
        s.nfacts = dict(self.nfacts)
        s.pc = list(self.pc)
        s.sites = list(self.sites)
        s.visits = dict(self.visits)
        s.nfid = self.nfid
        s.steps = self.steps
        s.notes = list(self.notes)
        s.choices = dict(self.choices)
        return s


class PathResult(object):
    __slots__ = ("outcome", "store", "trace", "pc", "sites", "ret", "detail", "notes", "facts", "nfacts", "stack")

    def __repr__(self):
        return "<Path %s %d effects>" % (self.outcome, len(self.trace))


class Effect(object):
    __slots__ = ("path", "args", "ret", "span", "fn", "depth")

    def __init__(self, path, args, ret, span, fn, depth=0):
        self.path = path
        self.args = args
        self.ret = ret
        self.span = span
        self.fn = fn
        self.depth = depth

    def __repr__(self):
        return "%s(%s)" % (self.path.split("::")[-1], ", ".join(repr(a) for a in self.args))


class WalkError(Exception):
    pass


class EffectResult(object):
    """returned by an effect hook to control havoc of &mut arguments"""
    __slots__ = ("ret", "havoc")

    def __init__(self, ret, havoc=False):
        self.ret = ret
        self.havoc = havoc


class Budget(Exception):
    pass


INTRINSIC_BIN = {
    "wrapping_add": "add", "wrapping_sub": "sub", "wrapping_mul": "mul",
    "unchecked_add": "add", "unchecked_sub": "sub", "unchecked_mul": "mul",
    "unchecked_shl": "shl", "unchecked_shr": "shr",
}


class Walker(object):
    def __init__(self, prog, max_paths=20000, max_steps=400000, loop_bound=16, max_depth=60):
        self.prog = prog
        self.max_paths = max_paths
        self.max_steps = max_steps
        self.loop_bound = loop_bound
        self.branch_loop_bound = None      # separate bound for forks on a symbolic branch (default: loop_bound)
        self.max_depth = max_depth
        self.effect_hook = None      # f(walker, state, path, args, dest_ty, span) -> value | None
        self.call_hook = None        # f(walker, state, path, args) -> 'effect' | None
        self.opaque_paths = set()    # fn paths forced to be effects even if a body exists
        self.stats = {"steps": 0, "paths": 0, "forks": 0}
        self.trace_calls = False     # record ('enter', path) markers
        self.read_index = {}
        self.call_site_bound = None  # max entries of a local function from the same caller block per path (loops whose
                                     # branching happens inside the callee are not seen by the (fn, block) loop guard)
        self.record_stores = None    # callable(state, frame, loc, value, span) for mod-ref rules
        self.unroll_bound = 64
        self.max_branches = 600
        self.max_block_visits = 3000

    # ------------------------------------------------------------ symbolic values
    def symval(self, name, ty):
        k = ty[0]
        if k in ("int", "bool", "char", "float"):
            return tm.sym(name, ty_bits(ty))
        if k == "tuple" and not ty[1]:
            return UNIT
        if k in ("param", "dyn", "alias", "other", "str", "fnptr", "never"):
            return Opaque(name, ty)
        return SymObj(name, ty)

    def materialise(self, so, state, variant=None):
        """Expand one level of a SymObj."""
        ty = so.ty
        k = ty[0]
        name = so.name
        if k == "adt" and (ty[1].endswith("vec::Vec") or ty[1].endswith("::VecDeque")) and ty[2]:
            return SymArr(name, ty[2][0], tm.sym(name + ".len", 64))
        if k == "adt":
            adt = self.prog.adt(ty[1])
            if adt is None:
                return Opaque(name, ty)
            genv = dict(zip(adt["generics"], [a for a in ty[2]]))
            if adt["kind"] == "enum":
                if variant is None:
                    raise WalkError("materialise enum %s without variant" % name)
                v = adt["variants"][variant]
                fields = [self.symval("%s.%s.%s" % (name, v["name"], f["name"]), subst_ty(f["ty"], genv))
                          for f in v["fields"]]
                return Agg(("adt", ty[1]), variant, fields)
            v = adt["variants"][0]
            fields = [self.symval("%s.%s" % (name, f["name"]), subst_ty(f["ty"], genv)) for f in v["fields"]]
            return Agg(("adt", ty[1]), 0, fields)
        if k == "tuple":
            return Agg(("tuple",), 0, [self.symval("%s.%d" % (name, i), t) for i, t in enumerate(ty[1])])
        if k == "array":
            # small arrays are expanded; arrays of aggregates beyond 16 elements stay symbolic (a read or write at a
            # symbolic index would otherwise fork once per element)
            scalar = ty[1][0] in ("int", "bool", "float", "char")
            if ty[2] is not None and ty[2] <= 64 and (scalar or ty[2] <= 16):
                return Agg(("array",), 0, [self.symval("%s[%d]" % (name, i), ty[1]) for i in range(ty[2])])
            return SymArr(name, ty[1], K(ty[2], 64) if ty[2] is not None else tm.sym(name + ".len", 64))
        if k == "slice":
            return SymArr(name, ty[1], tm.sym(name + ".len", 64))
        if k in ("ref", "ptr"):
            oid = ("h", name + "*")
            if oid not in state.store:
                state.store[oid] = self.symval(name + "*", ty[2])
            meta = None
            if ty[2][0] == "slice" or ty[2][0] == "str":
                meta = tm.sym(name + "*.len", 64)
            return Ref(oid, (), ty[1], meta)
        if k == "closure":
            return Agg(("closure", ty[1]), 0, [self.symval("%s.up%d" % (name, i), t) for i, t in enumerate(ty[2])])
        return Opaque(name, ty)

    # ------------------------------------------------------------ store access
    def load(self, state, obj, proj, _write_back=True):
        root = state.store.get(obj, UNINIT)
        v, changed, newroot = self._load(state, root, proj, 0)
        if changed and _write_back:
            state.store[obj] = newroot
        if isinstance(v, SymObj) and v.name in state.choices:
            v = self.materialise(v, state, state.choices[v.name])
        return v

    def _load(self, state, v, proj, i):
        """returns (value, changed, new_v) — new_v is v with lazily materialised parts"""
        if i == len(proj):
            return v, False, v
        p = proj[i]
        changed = False
        if isinstance(v, SymObj):
            if p[0] == "v":
                v = self.materialise(v, state, p[1])
            elif v.name in state.choices:
                v = self.materialise(v, state, state.choices[v.name])
            elif v.ty[0] == "adt" and self.prog.adt(v.ty[1]) and self.prog.adt(v.ty[1])["kind"] == "enum":
                raise WalkError("projection %r into unsplit enum %r" % (p, v))
            else:
                v = self.materialise(v, state)
            changed = True
        if p[0] == "f":
            if isinstance(v, Agg):
                if p[1] >= len(v.fields):
                    raise WalkError("field %d out of range in %r" % (p[1], v))
                sub, ch, nsub = self._load(state, v.fields[p[1]], proj, i + 1)
                if ch:
                    v = v.with_field(p[1], nsub)
                    changed = True
                return sub, changed, v
            if isinstance(v, Opaque):
                return Opaque("%s.%d" % (v.name, p[1])), changed, v
            if v is UNINIT:
                return UNINIT, changed, v
            raise WalkError("field projection on %r" % (v,))
        if p[0] == "v":
            if isinstance(v, Agg):
                if v.variant != p[1]:
                    raise WalkError("downcast to variant %d of %r" % (p[1], v))
                return self._load_cont(state, v, proj, i + 1, changed)
            if isinstance(v, Opaque) or v is UNINIT:
                return self._load_cont(state, v, proj, i + 1, changed)
            raise WalkError("downcast on %r" % (v,))
        if p[0] == "i":
            if isinstance(v, Agg):
                if p[1] >= len(v.fields):
                    raise WalkError("index %d out of range (%d)" % (p[1], len(v.fields)))
                sub, ch, nsub = self._load(state, v.fields[p[1]], proj, i + 1)
                if ch:
                    v = v.with_field(p[1], nsub)
                    changed = True
                return sub, changed, v
            if isinstance(v, SymArr):
                e = self.symarr_read(state, v, K(p[1], 64))
                sub, ch, nsub = self._load(state, e, proj, i + 1)
                return sub, changed, v
            if isinstance(v, Opaque) or v is UNINIT:
                return Opaque("%s[%d]" % (getattr(v, "name", "uninit"), p[1])), changed, v
            raise WalkError("const index on %r" % (v,))
        if p[0] == "ix":
            idx = p[1]
            if isinstance(idx, T) and not idx.is_const() and state.facts:
                # a reference created before the index was decided keeps the symbolic index: apply the facts now
                idx = self.simplify(state, idx)
            if isinstance(v, Agg):
                if idx.is_const():
                    return self._load(state, v, proj[:i] + (("i", idx.val),) + proj[i + 1:], i)[0], changed, v
                elems = v.fields
                if all(isinstance(e, T) and e.is_const() for e in elems) and elems:
                    r = tm.select(tuple(e.val for e in elems), elems[0].bits, idx)
                    return self._load(state, r, proj, i + 1)[0], changed, v
                if all(isinstance(e, T) for e in elems) and elems and i + 1 == len(proj):
                    r = elems[-1]
                    for j in range(len(elems) - 2, -1, -1):
                        r = tm.ite(tm.cmp("eq", idx, K(j, idx.bits)), elems[j], r)
                    return r, changed, v
                # aggregate elements under a symbolic index: the caller must fork
                raise SymIndex(idx, len(elems))
            if isinstance(v, SymArr):
                e = self.symarr_read(state, v, idx)
                sub, ch, nsub = self._load(state, e, proj, i + 1)
                return sub, changed, v
            if isinstance(v, Opaque) or v is UNINIT:
                return Opaque("%s[?]" % getattr(v, "name", "uninit")), changed, v
            raise WalkError("index on %r" % (v,))
        if p[0] == "view":
            # mutable window [s, s+n) of a known array (created by indexing with a constant range)
            if isinstance(v, Agg) and v.kind == ("array",) and p[1] + p[2] <= len(v.fields):
                sub = Agg(("array",), 0, list(v.fields[p[1]:p[1] + p[2]]))
                r, ch, nsub = self._load(state, sub, proj, i + 1)
                return r, changed, v
            raise WalkError("view on %r" % (v,))
        if p[0] == "ss":
            # subslice: keep as view object
            return Opaque("subslice"), changed, v
        raise WalkError("unknown projection %r" % (p,))

    def _load_cont(self, state, v, proj, i, changed):
        sub, ch, nv = self._load(state, v, proj, i)
        return sub, changed or ch, nv

    def symarr_read(self, state, arr, idx):
        for (wi, wv) in reversed(arr.writes):
            if wi is idx:
                return wv
            d = tm.cmp("eq", wi, idx)
            if d is tm.FALSE:
                continue
            # may alias: unknown
            return self.symval(tm.fresh_sym("%s[?]" % arr.name, 1).args[0], arr.ety)
        nm = "%s[%s]" % (arr.name, tm.show(idx))
        self.read_index[nm] = idx      # the index term behind the printed name (rules compare it semantically)
        return self.symval(nm, arr.ety)

    def store_to(self, state, obj, proj, value):
        root = state.store.get(obj, UNINIT)
        state.store[obj] = self._store(state, root, proj, 0, value)

    def _store(self, state, v, proj, i, value):
        if i == len(proj):
            return value
        p = proj[i]
        if isinstance(v, SymObj):
            if p[0] == "v":
                v = self.materialise(v, state, p[1])
            else:
                v = self.materialise(v, state)
        if p[0] == "f":
            if isinstance(v, Agg):
                return v.with_field(p[1], self._store(state, v.fields[p[1]], proj, i + 1, value))
            if isinstance(v, Opaque):
                return v
            if v is UNINIT:
                # building an aggregate field by field: remember sparse fields
                return PartialAgg({p[1]: self._store(state, UNINIT, proj, i + 1, value)})
            if isinstance(v, PartialAgg):
                d = dict(v.fields)
                d[p[1]] = self._store(state, d.get(p[1], UNINIT), proj, i + 1, value)
                return PartialAgg(d)
            raise WalkError("store field into %r" % (v,))
        if p[0] == "view":
            if isinstance(v, Agg) and v.kind == ("array",) and p[1] + p[2] <= len(v.fields):
                sub = Agg(("array",), 0, list(v.fields[p[1]:p[1] + p[2]]))
                nsub = self._store(state, sub, proj, i + 1, value)
                if isinstance(nsub, Agg) and len(nsub.fields) == p[2]:
                    fs = list(v.fields)
                    fs[p[1]:p[1] + p[2]] = list(nsub.fields)
                    return Agg(v.kind, v.variant, fs)
            raise WalkError("store through view into %r" % (v,))
        if p[0] == "v":
            if isinstance(v, Agg) and v.variant != p[1]:
                raise WalkError("store through downcast mismatch")
            return self._store(state, v, proj, i + 1, value)
        if p[0] == "i":
            if isinstance(v, Agg):
                return v.with_field(p[1], self._store(state, v.fields[p[1]], proj, i + 1, value))
            if isinstance(v, SymArr):
                if i + 1 != len(proj):
                    return v
                return SymArr(v.name, v.ety, v.length, v.writes + ((K(p[1], 64), value),))
            if isinstance(v, Opaque):
                return v
            raise WalkError("store index into %r" % (v,))
        if p[0] == "ix":
            idx = p[1]
            if isinstance(idx, T) and not idx.is_const() and state.facts:
                idx = self.simplify(state, idx)
            if isinstance(v, Agg):
                if idx.is_const():
                    return self._store(state, v, proj[:i] + (("i", idx.val),) + proj[i + 1:], i, value)
                if i + 1 == len(proj) and all(isinstance(e, T) for e in v.fields) and isinstance(value, T):
                    return Agg(v.kind, v.variant,
                               [tm.ite(tm.cmp("eq", idx, K(j, idx.bits)), value, e) for j, e in enumerate(v.fields)])
                raise SymIndex(idx, len(v.fields))
            if isinstance(v, SymArr):
                if i + 1 != len(proj):
                    return v
                return SymArr(v.name, v.ety, v.length, v.writes + ((idx, value),))
            if isinstance(v, Opaque):
                return v
            raise WalkError("store sym index into %r" % (v,))
        raise WalkError("unknown store projection %r" % (p,))

    # ------------------------------------------------------------ places / operands
    def resolve_place(self, state, frame, place):
        obj = (frame.fid, place["l"])
        proj = []
        for e in place["p"]:
            k = e[0]
            if k == "d":
                v = self.load(state, obj, tuple(proj))
                if isinstance(v, SymObj):
                    v = self.materialise(v, state)
                    self.store_to(state, obj, tuple(proj), v)
                if isinstance(v, Ref):
                    obj = v.obj
                    proj = list(v.proj)
                elif isinstance(v, Opaque):
                    oid = ("h", v.name + "*")
                    if oid not in state.store:
                        state.store[oid] = Opaque(v.name + "*")
                    obj = oid
                    proj = []
                else:
                    raise WalkError("deref of %r in %s" % (v, frame.fn.path))
            elif k == "f":
                proj.append(("f", e[1]))
            elif k == "dc":
                proj.append(("v", e[1]))
            elif k == "ci":
                if e[3]:
                    raise WalkError("from_end constant index")
                proj.append(("i", e[1]))
            elif k == "i":
                iv = self.load(state, (frame.fid, e[1]), ())
                if isinstance(iv, T) and not iv.is_const():
                    iv = self.simplify(state, iv)
                if isinstance(iv, T) and iv.is_const():
                    proj.append(("i", iv.val))
                elif isinstance(iv, T):
                    proj.append(("ix", iv))
                else:
                    raise WalkError("index local is %r" % (iv,))
            elif k == "ss":
                proj.append(("ss", e[1], e[2], e[3]))
            else:
                raise WalkError("projection %r" % (e,))
        return obj, tuple(proj)

    def place_ty(self, frame, place):
        t = frame.fn.T[frame.body["locals"][place["l"]]]
        variant = 0
        for e in place["p"]:
            k = e[0]
            if k == "d":
                t = subst_ty(t, frame.genv)
                if t[0] in ("ref", "ptr"):
                    t = t[2]
                elif t[0] == "adt" and t[1].endswith("Box"):
                    t = t[2][0]
                else:
                    return ("other", "deref")
            elif k == "f":
                t = frame.fn.T[e[2]]
            elif k in ("i", "ci"):
                t = subst_ty(t, frame.genv)
                if t[0] in ("array", "slice"):
                    t = t[1]
                else:
                    return ("other", "index")
            elif k == "ss":
                pass
        return subst_ty(t, frame.genv)

    def operand_ty(self, frame, op):
        if op[0] in ("cp", "mv"):
            return self.place_ty(frame, op[1])
        if op[0] == "c":
            return subst_ty(frame.fn.T[op[1]["ty"]], frame.genv)
        return ("other", "rt")

    def const_value(self, state, frame, c, ty):
        v = c.get("v")
        if "fn" in c:
            f = c["fn"]
            return FnVal(f["path"], tuple(self._targs(frame, f["args"])))
        return self.decode_const(state, v, ty, frame)

    def _targs(self, frame, args):
        out = []
        for a in args:
            if isinstance(a, dict):
                out.append(("const", a["const"]))
            else:
                out.append(subst_ty(frame.fn.T[a], frame.genv))
        return out

    def decode_const(self, state, v, ty, frame=None):
        if v is None:
            raise WalkError("const without value")
        if "int" in v:
            bits = ty_bits(ty)
            if bits is None:
                # scalar-layout ADT (fieldless enum): variant from discriminant
                if ty[0] == "adt":
                    adt = self.prog.adt(ty[1])
                    if adt and adt["kind"] == "enum":
                        for i, var in enumerate(adt["variants"]):
                            if (var["discr"] - v["int"]) % (1 << v["bits"]) == 0 and not var["fields"]:
                                return Agg(("adt", ty[1]), i, ())
                    if adt and adt["kind"] == "struct" and len(adt["variants"][0]["fields"]) == 1:
                        f = adt["variants"][0]["fields"][0]
                        genv = dict(zip(adt["generics"], ty[2]))
                        return Agg(("adt", ty[1]), 0, [self.decode_const(state, v, subst_ty(f["ty"], genv), frame)])
                return K(v["int"], v["bits"] or 8)
            return K(v["int"], bits)
        if "float" in v:
            return K(v["bits"], ty_bits(ty) or 64)
        if "zst" in v:
            if ty[0] == "tuple":
                return UNIT
            if ty[0] == "adt":
                adt = self.prog.adt(ty[1])
                if adt and adt["kind"] != "enum":
                    return Agg(("adt", ty[1]), 0, [UNIT] * len(adt["variants"][0]["fields"]))
                return Agg(("adt", ty[1]), 0, ())
            if ty[0] == "closure":
                return Agg(("closure", ty[1]), 0, ())
            if ty[0] == "fndef":
                return FnVal(ty[1], ty[2])
            if ty[0] == "array":
                return Agg(("array",), 0, ())
            return UNIT
        if "fields" in v:
            variant = v.get("variant", 0) or 0
            if ty[0] == "adt":
                adt = self.prog.adt(ty[1])
                genv = dict(zip(adt["generics"], ty[2])) if adt else {}
                ftys = [subst_ty(f["ty"], genv) for f in adt["variants"][variant]["fields"]] if adt else []
                fields = [self.decode_const(state, fv, ftys[i] if i < len(ftys) else ("other", ""), frame)
                          for i, fv in enumerate(v["fields"])]
                return Agg(("adt", ty[1]), variant, fields)
            if ty[0] == "tuple":
                if not v["fields"]:
                    return UNIT
                return Agg(("tuple",), 0, [self.decode_const(state, fv, ty[1][i], frame)
                                           for i, fv in enumerate(v["fields"])])
            if ty[0] == "array":
                return Agg(("array",), 0, [self.decode_const(state, fv, ty[1], frame) for fv in v["fields"]])
            if ty[0] == "closure":
                return Agg(("closure", ty[1]), 0, [self.decode_const(state, fv, ty[2][i], frame)
                                                   for i, fv in enumerate(v["fields"])])
            return Agg(("tuple",), 0, [])
        if "bytes" in v:
            b = bytes.fromhex(v["bytes"])
            ety = ty[1] if ty[0] == "array" else ("int", 8, False, False)
            bits = ty_bits(ety) or 8
            return Agg(("array",), 0, [K(x, bits) for x in b])
        if "ints" in v:
            ety = ty[1]
            bits = ty_bits(ety)
            return Agg(("array",), 0, [K(x, bits) for x in v["ints"]])
        if "ref" in v:
            inner_ty = ty[2] if ty[0] in ("ref", "ptr") else ("other", "")
            iv = v["ref"]
            length = None
            if inner_ty[0] == "slice":
                if "bytes" in iv:
                    n = len(iv["bytes"]) // 2
                    inner_ty = ("array", inner_ty[1], n)
                elif "ints" in iv:
                    inner_ty = ("array", inner_ty[1], len(iv["ints"]))
                elif "fields" in iv:
                    inner_ty = ("array", inner_ty[1], len(iv["fields"]))
            val = self.decode_const(state, iv, inner_ty, frame)
            if isinstance(val, Agg) and val.kind == ("array",):
                length = K(len(val.fields), 64)
            oid = ("k", id(v))
            state.store[oid] = val
            return Ref(oid, (), False, length)
        if "str" in v:
            s = v["str"].encode()
            oid = ("k", id(v))
            state.store[oid] = Agg(("array",), 0, [K(x, 8) for x in s])
            return Ref(oid, (), False, K(len(s), 64))
        if "fnptr" in v:
            return FnVal(v["fnptr"], ())
        if "fn" in v:
            f = v["fn"]
            return FnVal(f["path"], ())
        if "static" in v:
            return self.static_ref(state, v["static"])
        if "uneval" in v:
            raise WalkError("unevaluated constant %s" % v["uneval"])
        return Opaque("const:%s" % (list(v.keys()),))

    def static_ref(self, state, path):
        oid = ("static", path)
        if oid not in state.store:
            st = self.prog.statics.get(path)
            if st is None:
                state.store[oid] = Opaque("static:" + path)
            else:
                state.store[oid] = self.decode_const(state, st["v"], st["ty"])
        return Ref(oid, (), False)

    def eval_operand(self, state, frame, op):
        k = op[0]
        if k in ("cp", "mv"):
            obj, proj = self.resolve_place(state, frame, op[1])
            try:
                v = self.load(state, obj, proj)
            except SymIndex as si:
                raise
            if isinstance(v, SymObj) and v.ty[0] not in ("adt",):
                v2 = self.materialise(v, state)
                self.store_to(state, obj, proj, v2)
                v = v2
            return v
        if k == "c":
            c = op[1]
            ty = subst_ty(frame.fn.T[c["ty"]], frame.genv)
            return self.const_value(state, frame, c, ty)
        if k == "rt":
            # runtime checks (ub_checks / overflow_checks / contract_checks): treated as off
            return tm.FALSE
        raise WalkError("operand %r" % (op,))

    # ------------------------------------------------------------ rvalues
    def eval_rvalue(self, state, frame, rv, dest_ty):
        k = rv[0]
        if k == "use":
            return self.eval_operand(state, frame, rv[1])
        if k == "ref" or k == "addr":
            obj, proj = self.resolve_place(state, frame, rv[1])
            meta = None
            # reborrow of a slice keeps its length
            pl = rv[1]
            if pl["p"] and pl["p"][-1][0] == "d" and len(pl["p"]) == 1:
                src = self.load(state, (frame.fid, pl["l"]), ())
                if isinstance(src, Ref):
                    meta = src.meta
            return Ref(obj, proj, bool(rv[2]) if k == "ref" else True, meta)
        if k == "bin":
            return self.eval_bin(state, frame, rv[1], rv[2], rv[3], dest_ty)
        if k == "un":
            return self.eval_un(state, frame, rv[1], rv[2], dest_ty)
        if k == "cast":
            return self.eval_cast(state, frame, rv[1], rv[2], subst_ty(frame.fn.T[rv[3]], frame.genv))
        if k == "discr":
            obj, proj = self.resolve_place(state, frame, rv[1])
            v = self.load(state, obj, proj)
            bits = ty_bits(dest_ty) or 64
            if isinstance(v, Agg):
                if v.kind[0] == "adt":
                    adt = self.prog.adt(v.kind[1])
                    return K(adt["variants"][v.variant]["discr"], bits)
                return K(0, bits)
            if isinstance(v, EnumTerm):
                d = v.discr
                if d.bits == bits:
                    return d
                return tm.sext(d, bits) if d.bits < bits else tm.trunc(d, bits)
            if isinstance(v, SymObj):
                raise SplitEnum(obj, proj, v)
            if isinstance(v, Opaque):
                return tm.fresh_sym("discr(%s)" % v.name, bits)
            if v is UNINIT:
                # library MIR (inlined `?`) reads the discriminant of a moved-out residual only to `assume` it
                return tm.fresh_sym("discr(uninit)", bits)
            raise WalkError("discriminant of %r" % (v,))
        if k == "agg":
            kind = rv[1]
            ops = [self.eval_operand(state, frame, o) for o in rv[2]]
            kk = kind["k"]
            if kk == "tuple":
                return Agg(("tuple",), 0, ops) if ops else UNIT
            if kk == "array":
                return Agg(("array",), 0, ops)
            if kk == "adt":
                return Agg(("adt", kind["path"]), kind["variant"], ops)
            if kk == "closure":
                return Agg(("closure", kind["path"]), 0, ops)
            return Opaque("agg:%s" % kk)
        if k == "repeat":
            v = self.eval_operand(state, frame, rv[1])
            n = rv[2]
            if n is not None and n <= 4096 and not (n > 64 and not (isinstance(v, T) and v.is_const())):
                return Agg(("array",), 0, [v] * n)
            ety = dest_ty[1] if dest_ty[0] == "array" else ("other", "")
            name = tm.fresh_sym("rep", 1).args[0]
            return SymArr(name, ety, K(n or 0, 64), ())
        if k == "tls":
            return Opaque("tls")
        if k == "other":
            txt = rv[1]
            if "UbChecks" in txt or "RuntimeChecks" in txt or "ContractChecks" in txt or "OverflowChecks" in txt:
                return tm.FALSE
            raise WalkError("rvalue other: %s" % txt)
        raise WalkError("rvalue %s" % k)

    def _is_signed(self, ty):
        return ty[0] == "int" and ty[2]

    def eval_bin(self, state, frame, op, a_op, b_op, dest_ty):
        a = self.eval_operand(state, frame, a_op)
        b = self.eval_operand(state, frame, b_op)
        aty = self.operand_ty(frame, a_op)
        if aty[0] == "float":
            bits = ty_bits(dest_ty) or 64
            if op in ("Eq", "Ne", "Lt", "Le", "Gt", "Ge"):
                return tm.app("f" + op, [a, b], 1)
            return tm.app("f" + op, [a, b], aty[1])
        if not isinstance(a, T) or not isinstance(b, T):
            if op in ("Eq", "Ne") and isinstance(a, Agg) and isinstance(b, Agg) and not a.fields and not b.fields:
                r = a.variant == b.variant
                return tm.TRUE if (r == (op == "Eq")) else tm.FALSE
            if op == "Offset":
                return Opaque("ptr-offset")
            if op in ("Eq", "Ne", "Lt", "Le", "Gt", "Ge"):
                return tm.fresh_sym("cmp?", 1)
            raise WalkError("binary %s on %r, %r in %s" % (op, a, b, frame.fn.path))
        signed = self._is_signed(aty)
        return self.bin_terms(op, a, b, signed)

    def bin_terms(self, op, a, b, signed):
        if op in ("Add", "AddUnchecked"):
            return tm.binop("add", a, b)
        if op in ("Sub", "SubUnchecked"):
            return tm.binop("sub", a, b)
        if op in ("Mul", "MulUnchecked"):
            return tm.binop("mul", a, b)
        if op == "BitAnd":
            return tm.binop("and", a, b)
        if op == "BitOr":
            return tm.binop("or", a, b)
        if op == "BitXor":
            return tm.binop("xor", a, b)
        if op in ("Shl", "ShlUnchecked"):
            return tm.binop("shl", a, self._shamt(a, b))
        if op in ("Shr", "ShrUnchecked"):
            return tm.binop("ashr" if signed else "lshr", a, self._shamt(a, b))
        if op == "Div":
            return tm.binop("sdiv" if signed else "udiv", a, b)
        if op == "Rem":
            return tm.binop("srem" if signed else "urem", a, b)
        if op == "Eq":
            return tm.cmp("eq", a, b)
        if op == "Ne":
            return tm.cmp("ne", a, b)
        if op in ("Lt", "Le", "Gt", "Ge"):
            return tm.cmp(("s" if signed else "u") + op.lower(), a, b)
        if op in ("AddWithOverflow", "SubWithOverflow", "MulWithOverflow"):
            base = op[:3].lower()
            r = tm.binop(base, a, b)
            o = tm.ovf(("s" if signed else "u") + base + "o", a, b)
            return Agg(("tuple",), 0, [r, o])
        if op == "Cmp":
            lt = tm.cmp("slt" if signed else "ult", a, b)
            eq = tm.cmp("eq", a, b)
            d = tm.ite(lt, K(0xFF, 8), tm.ite(eq, K(0, 8), K(1, 8)))
            if d.is_const():
                idx = {0xFF: 0, 0: 1, 1: 2}[d.val]
                return Agg(("adt", "core::cmp::Ordering"), idx, ())
            # a fieldless enum value known only through its discriminant term (Less = -1, Equal = 0, Greater = 1)
            return EnumTerm("core::cmp::Ordering", d)
        raise WalkError("binop %s" % op)

    def _shamt(self, a, b):
        if b.bits != a.bits:
            if b.is_const():
                return K(b.val, a.bits)
            return tm.zext(b, a.bits) if b.bits < a.bits else tm.trunc(b, a.bits)
        return b

    def eval_un(self, state, frame, op, a_op, dest_ty):
        a = self.eval_operand(state, frame, a_op)
        if op == "PtrMetadata":
            if isinstance(a, Ref):
                if a.meta is not None:
                    return a.meta
                tgt = self.load(state, a.obj, a.proj)
                if isinstance(tgt, SymObj) and tgt.ty[0] == "array":
                    # a fixed-size array not touched yet (lazy object): its length is its type's
                    tgt = self.materialise(tgt, state)
                    self.store_to(state, a.obj, a.proj, tgt)
                if isinstance(tgt, Agg) and tgt.kind == ("array",):
                    return K(len(tgt.fields), 64)
                if isinstance(tgt, SymArr):
                    return tgt.length
            return tm.fresh_sym("len?", 64)
        if not isinstance(a, T):
            raise WalkError("unary %s on %r" % (op, a))
        aty = self.operand_ty(frame, a_op)
        if aty[0] == "float":
            return tm.app("f" + op, [a], aty[1])
        if op == "Not":
            return tm.unop("not", a)
        if op == "Neg":
            return tm.unop("neg", a)
        raise WalkError("unop %s" % op)

    def eval_cast(self, state, frame, kind, o, ty):
        v = self.eval_operand(state, frame, o)
        sty = self.operand_ty(frame, o)
        if kind == "IntToInt":
            if isinstance(v, Agg) and v.kind[0] == "adt":
                adt = self.prog.adt(v.kind[1])
                return K(adt["variants"][v.variant]["discr"], ty_bits(ty))
            if not isinstance(v, T):
                raise WalkError("IntToInt on %r" % (v,))
            bits = ty_bits(ty)
            if bits <= v.bits:
                return tm.trunc(v, bits)
            return tm.sext(v, bits) if self._is_signed(sty) else tm.zext(v, bits)
        if kind in ("FloatToInt", "IntToFloat", "FloatToFloat"):
            if isinstance(v, T) and v.is_const() and kind == "IntToFloat":
                import struct
                x = tm.to_signed(v.val, v.bits) if self._is_signed(sty) else v.val
                if ty[1] == 64:
                    return K(struct.unpack("<Q", struct.pack("<d", float(x)))[0], 64)
            return tm.app(kind, [v], ty_bits(ty))
        if kind.startswith("PointerCoercion"):
            if "Unsize" in kind and isinstance(v, Ref):
                if v.meta is None:
                    tgt = self.load(state, v.obj, v.proj)
                    if isinstance(tgt, Agg) and tgt.kind == ("array",):
                        return Ref(v.obj, v.proj, v.mut, K(len(tgt.fields), 64))
                    if isinstance(tgt, SymArr):
                        return Ref(v.obj, v.proj, v.mut, tgt.length)
                return v
            if "ReifyFnPointer" in kind or "ClosureFnPointer" in kind or "UnsafeFnPointer" in kind:
                return v
            return v
        if kind in ("PtrToPtr", "FnPtrToPtr", "Transmute", "PointerExposeProvenance",
                    "PointerWithExposedProvenance", "Subtype"):
            if kind == "Transmute" and isinstance(v, T) and ty_bits(ty) == v.bits:
                return v
            if kind == "Transmute" and ty[0] in ("ptr", "ref"):
                # NonNull<T> / Unique<T> -> *const T : unwrap single-field wrappers down to the pointer
                for _ in range(4):
                    if isinstance(v, SymObj):
                        v = self.materialise(v, state)
                    if isinstance(v, Agg) and len(v.fields) >= 1 and not isinstance(v.fields[0], T):
                        v = v.fields[0]
                    else:
                        break
            if isinstance(v, (Ref, Opaque, FnVal)):
                return v
            return Opaque("cast:%s" % kind)
        raise WalkError("cast kind %s" % kind)

    # ------------------------------------------------------------ assumptions
    def assume(self, state, t, value):
        """record that term t has constant value"""
        if t.is_const():
            return t.val == value
        cur = state.facts.get(t)
        if cur is not None:
            return cur.val == value
        ex = state.nfacts.get(t)
        if ex and value in ex:
            return False
        state.facts[t] = K(value, t.bits)
        op = t.op
        if op == "ult":
            for x in t.args:
                if not x.is_const():
                    self._collapse(state, x)
        if op == "eq" and value == 1 and t.args[1].is_const():
            return self.assume(state, t.args[0], t.args[1].val)
        if op == "ne" and value == 0 and t.args[1].is_const():
            return self.assume(state, t.args[0], t.args[1].val)
        if op == "eq" and value == 0 and t.args[1].is_const():
            return self.assume_not(state, t.args[0], t.args[1].val)
        if op == "ne" and value == 1 and t.args[1].is_const():
            return self.assume_not(state, t.args[0], t.args[1].val)
        if op == "not" and t.bits == 1:
            return self.assume(state, t.args[0], 1 - value)
        if op in ("ite", "sext", "zext") and t.bits > 1:
            inner = t
            if op in ("sext", "zext") and inner.args[0].op == "ite":
                # the value of the narrower ite that extends to `value`
                n = inner.args[0]
                cand = [v for v in _ite_values(n) or [] if (tm.to_signed(v, n.bits) & tm.mask(t.bits) if op == "sext" else v) == value]
                if len(cand) == 1:
                    return self.assume(state, n, cand[0])
            elif op == "ite":
                c, x, y = t.args
                vx, vy = _ite_values(x), _ite_values(y)
                if vx is not None and value not in vx:
                    return self.assume(state, c, 0) and self.assume(state, y, value)
                if vy is not None and value not in vy:
                    return self.assume(state, c, 1) and self.assume(state, x, value)
        if op == "zext" and value < (1 << t.args[0].bits):
            return self.assume(state, t.args[0], value)
        if op == "and" and t.bits == 1 and value == 1:
            return self.assume(state, t.args[0], 1) and self.assume(state, t.args[1], 1)
        if op == "or" and t.bits == 1 and value == 0:
            return self.assume(state, t.args[0], 0) and self.assume(state, t.args[1], 0)
        return True

    def _collapse(self, state, x):
        """when the recorded comparisons leave one possible value for x, record the equality"""
        if x.is_const() or x in state.facts or x.bits > 64:
            return
        lo, hi = self.range_under(state, x)
        if lo == hi:
            state.facts[x] = K(lo, x.bits)

    def assume_not(self, state, t, value):
        if t.is_const():
            return t.val != value
        cur = state.facts.get(t)
        if cur is not None:
            return cur.val != value
        if t.bits == 1:
            return self.assume(state, t, 1 - value)
        s = set(state.nfacts.get(t, ()))
        s.add(value)
        state.nfacts[t] = frozenset(s)
        self._collapse(state, t)
        return True

    def simplify(self, state, t):
        if not state.facts or t.is_const():
            return t
        r = state.facts.get(t)
        if r is not None:
            return r
        r = tm.subst(t, state.facts)
        if not r.is_const() and r.bits == 1:
            b = self.refine_bool(state, r)
            if b is not None:
                return b
        return r

    def range_under(self, state, x):
        """unsigned range of term x refined by the recorded comparisons of x with constants"""
        lo, hi = tm.urange(x)
        if x.op == "add" and x.args[1].is_const() and not x.args[0].is_const():
            # y + K without wrap-around
            k = x.args[1].val
            ylo, yhi = self.range_under(state, x.args[0])
            m = tm.mask(x.bits)
            if k <= m // 2 and yhi + k <= m:
                lo, hi = max(lo, ylo + k), min(hi, yhi + k)
            elif k > m // 2 and ylo >= (m + 1 - k):
                d = m + 1 - k
                lo, hi = max(lo, ylo - d), min(hi, yhi - d)
        elif x.op == "zext":
            ylo, yhi = self.range_under(state, x.args[0])
            lo, hi = max(lo, ylo), min(hi, yhi)
        for ft, fv in state.facts.items():
            if ft.op == "ult" and fv.is_const():
                a, b = ft.args
                if a is x and b.is_const():
                    if fv.val:
                        hi = min(hi, b.val - 1)
                    else:
                        lo = max(lo, b.val)
                elif b is x and a.is_const():
                    if fv.val:
                        lo = max(lo, a.val + 1)
                    else:
                        hi = min(hi, a.val)
        ex = state.nfacts.get(x, ())
        while lo in ex and lo < hi:
            lo += 1
        while hi in ex and hi > lo:
            hi -= 1
        return lo, hi

    def refine_bool(self, state, d):
        """decide a comparison with a constant from the interval its operand is known to lie in"""
        if d.op == "ult":
            a, b = d.args
            if b.is_const() and not a.is_const():
                lo, hi = self.range_under(state, a)
                if hi < b.val:
                    return tm.TRUE
                if lo >= b.val:
                    return tm.FALSE
            elif a.is_const() and not b.is_const():
                lo, hi = self.range_under(state, b)
                if lo > a.val:
                    return tm.TRUE
                if hi <= a.val:
                    return tm.FALSE
        elif d.op == "usubo" and d.args[1].is_const() and not d.args[0].is_const():
            lo, hi = self.range_under(state, d.args[0])
            if lo >= d.args[1].val:
                return tm.FALSE
            if hi < d.args[1].val:
                return tm.TRUE
        elif d.op == "uaddo" and d.args[1].is_const() and not d.args[0].is_const():
            lo, hi = self.range_under(state, d.args[0])
            if hi + d.args[1].val <= tm.mask(d.args[0].bits):
                return tm.FALSE
        elif d.op in ("eq", "ne") and d.args[1].is_const():
            lo, hi = self.range_under(state, d.args[0])
            k = d.args[1].val
            if k < lo or k > hi or k in state.nfacts.get(d.args[0], ()):
                return tm.FALSE if d.op == "eq" else tm.TRUE
            if lo == hi == k:
                return tm.TRUE if d.op == "eq" else tm.FALSE
        return None

    # ------------------------------------------------------------ calls
    def callee_of(self, state, frame, term):
        f = term["f"]
        if "indirect" in f:
            v = self.eval_operand(state, frame, f["indirect"])
            if isinstance(v, FnVal):
                return v.path, list(v.args), None, None
            return None, [], None, v
        args = self._targs(frame, f["args"])
        return f["path"], args, f, None

    def resolve(self, frame, path, targs, f):
        """Return (Fn or None, genv, final_path)."""
        prog = self.prog
        res = f.get("resolved") if f else None
        trait = f.get("trait") if f else None
        if res and trait and _prefer_default(res.get("path") or ""):
            res = None      # use the trait's provided method (it only calls next(), which is modelled)
        if res and res.get("path") and res["kind"] in ("item", "closureonce", "fnptrshim", "reify"):
            rpath = res["path"]
            rargs = self._targs(frame, res["args"])
            # a trait default method resolved to itself with concrete Self may still be overridden
            if not (trait and rpath == path):
                fn = prog.fns.get(rpath)
                if fn is not None:
                    return fn, self._bind(fn, rargs), rpath
                return None, {}, rpath
        if trait is None:
            fn = prog.fns.get(path)
            if fn is not None and fn.assoc and fn.assoc.get("container") == "trait":
                trait = fn.assoc["trait"]
        if trait:
            self_ty = targs[0] if targs else None
            if self_ty is not None and self_ty[0] not in ("param", "dyn", "alias", "other"):
                for im, item in prog.impl_candidates(path):
                    env = {}
                    if unify(im["self_ty"], self_ty, env):
                        ok = True
                        for pa, ca in zip(im["trait_args"][1:], targs[1:]):
                            if pa[0] == "const" or ca[0] == "const" or ca[0] == "alias":
                                continue      # an unevaluated associated-type projection: the Self type decides
                            if not unify(pa, ca, env):
                                ok = False
                                break
                        if not ok:
                            continue
                        if _prefer_default(item):
                            continue
                        fn = prog.fns.get(item)
                        if fn is not None:
                            genv = dict(env)
                            # method-level generics follow the trait's own params in targs
                            return fn, self._bind_extra(fn, genv, targs), item
            if self_ty is not None and self_ty[0] == "adt" and self_ty[1] == "core::iter::adapters::zip::Zip" \
                    and path.endswith("::Iterator::next"):
                return None, {}, _ZIP_ITER + "next"     # modelled (builtins), its std body is a specialised fast path
            fn = prog.fns.get(path)
            if fn is not None:
                return fn, self._bind(fn, targs), path
            return None, {}, path
        fn = prog.fns.get(path)
        if fn is not None:
            return fn, self._bind(fn, targs), path
        return None, {}, path

    def _bind(self, fn, targs):
        env = {}
        for name, a in zip(fn.generics, targs):
            if a[0] != "const":
                env[name] = a
        return env

    def _bind_extra(self, fn, env, targs):
        # bind method-level generic params (those not bound by the impl header) from the tail of targs
        missing = [g for g in fn.generics if g not in env]
        if missing:
            tail = [a for a in targs if a[0] != "const"][-len(missing):]
            for g, a in zip(missing, tail):
                env[g] = a
        return env

    # ------------------------------------------------------------ driver
    def new_state(self):
        s = State()
        s.store = {}
        s.frames = []
        s.trace = []
        s.facts = {}
        s.nfacts = {}
        s.pc = []
        s.sites = []
        s.visits = {}
        s.nfid = 0
        s.steps = 0
        s.notes = []
        s.choices = {}
        return s

    def push_frame(self, state, fn, genv, args, dest, ret_block, caller_span=None, body=None):
        fr = Frame()
        fr.fn = fn
        fr.body = body or fn.body
        fr.block = 0
        fr.genv = genv
        fr.dest = dest
        fr.ret_block = ret_block
        state.nfid += 1
        fr.fid = state.nfid
        fr.caller_span = caller_span
        fr.prom = None
        if len(state.frames) >= self.max_depth:
            raise WalkError("call depth exceeded at %s" % fn.path)
        for i, a in enumerate(args):
            state.store[(fr.fid, i + 1)] = a
        state.frames.append(fr)
        return fr

    def pop_frame(self, state):
        fr = state.frames.pop()
        n = len(fr.body["locals"])
        st = state.store
        fid = fr.fid
        rv = st.get((fid, 0), UNIT)
        for i in range(n):
            st.pop((fid, i), None)
        return fr, rv

    def run(self, fn, args, genv=None, state=None, start_block=None):
        """Explore all paths of fn(args) from state; returns list of PathResult.
        start_block: analyse the suffix of fn from that basic block with every local holding an arbitrary value of
        its type (an over-approximation of every state in which the block can be reached)."""
        if state is None:
            state = self.new_state()
        base_depth = len(state.frames)
        perm = getattr(self.prog, "arg_perm", {}).get(fn.path)
        if perm and len(perm) == len(args):
            # parameters reordered since the reference tree: the caller speaks the reference order
            cur = [None] * len(args)
            for r, c in enumerate(perm):
                cur[c] = args[r]
            args = cur
        fr0 = self.push_frame(state, fn, genv or {}, args, None, None)
        if start_block is not None:
            fr0.block = start_block
            for i, loc in enumerate(fn.body["locals"]):
                ty = subst_ty(fn.T[loc["ty"]] if isinstance(loc, dict) and "ty" in loc else fn.T[loc], fr0.genv)
                state.store[(fr0.fid, i)] = self.symval("cut.L%d" % i, ty)
        results = []
        work = [state]
        npaths = 0
        while work:
            st = work.pop()
            try:
                out = self.run_path(st, base_depth, work)
            except Budget as b:
                out = self.finish(st, "budget", detail=str(b))
            except WalkError as e:
                fr = st.frames[-1] if st.frames else None
                where = ""
                if fr is not None:
                    where = " in %s bb%d" % (fr.fn.path, fr.block)
                out = self.finish(st, "error", detail=str(e) + where)
            if out is not None and out is not FORKED:
                results.append(out)
                npaths += 1
                if npaths > self.max_paths:
                    r = self.finish(st, "budget", detail="max_paths")
                    results.append(r)
                    break
        self.stats["paths"] += npaths
        return results

    def finish(self, state, outcome, ret=None, detail=None):
        r = PathResult()
        r.outcome = outcome
        r.store = state.store
        r.trace = state.trace
        r.pc = state.pc
        r.sites = state.sites
        r.ret = ret
        r.detail = detail
        r.notes = state.notes
        r.facts = state.facts
        r.nfacts = state.nfacts
        r.stack = [f.fn.path for f in state.frames]
        return r

    def run_path(self, st, base_depth, work):
        while True:
            fr = st.frames[-1]
            blk = fr.body["blocks"][fr.block]
            st.steps += 1
            self.stats["steps"] += 1
            if st.steps > self.max_steps:
                raise Budget("max_steps")
            vk = ("v", fr.fid, fr.block)
            vc = st.visits.get(vk, 0) + 1
            st.visits[vk] = vc
            if vc > self.max_block_visits:
                return self.finish(st, "stuck", detail="block bb%d of %s executed %d times in one activation without leaving the loop (%s)" % (
                    fr.block, fr.fn.path, vc, fr.fn.loc(blk["t"].get("span"))))
            if len(st.pc) > self.max_branches:
                return self.finish(st, "cut", detail="more than %d branch decisions on one path (unbounded loop over opaque results?) at %s bb%d" % (
                    self.max_branches, fr.fn.path, fr.block))
            try:
                for s in blk["s"]:
                    self.exec_stmt(st, fr, s)
                nxt = self.exec_term(st, fr, blk["t"], base_depth, work)
            except SplitEnum as se:
                self.split_enum(st, se, work)
                return None
            except SymIndex as si:
                self.split_index(st, si, work)
                return None
            if nxt is not None:
                return nxt

    def split_enum(self, st, se, work):
        so = se.value
        adt = self.prog.adt(so.ty[1])
        if adt is None or adt["kind"] != "enum":
            raise WalkError("discriminant of non-enum %r" % (so,))
        n = len(adt["variants"])
        # an unsplit symbolic enum may have been copied to several places: the choice is recorded by name and
        # applied wherever a copy is loaded
        if so.name in st.choices:
            raise WalkError("enum %s already split" % so.name)
        self.stats["forks"] += 1
        for vi in range(n - 1, -1, -1):
            s2 = st.copy()
            s2.choices[so.name] = vi
            val = self.materialise(so, s2, vi)
            self.store_to(s2, se.obj, se.proj, val)
            s2.pc.append(("variant", so.name, adt["variants"][vi]["name"]))
            work.append(s2)

    def split_index(self, st, si, work):
        self.stats["forks"] += 1
        for j in range(si.n - 1, -1, -1):
            s2 = st.copy()
            if not self.assume(s2, si.idx, j):
                continue
            # replace by substitution: facts make idx constant on re-evaluation
            s2.pc.append(("index", si.idx, j))
            s2.notes.append(("split-index", si.idx, j))
            work.append(s2)
        # out-of-range remainder is covered by the bounds assert that precedes the access

    def exec_stmt(self, st, fr, s):
        k = s[0]
        if k == "=":
            place = s[1]
            dty = None
            rv = s[2]
            if rv[0] in ("discr", "bin", "un", "repeat"):
                dty = self.place_ty(fr, place)
            val = self.eval_rvalue(st, fr, rv, dty)
            if isinstance(val, T) and not val.is_const() and st.facts:
                val2 = st.facts.get(val)
                if val2 is not None:
                    val = val2
            obj, proj = self.resolve_place(st, fr, place)
            if self.record_stores is not None:
                self.record_stores(st, fr, obj, proj, val, s[3])
            self.store_to(st, obj, proj, val)
        elif k == "setdiscr":
            obj, proj = self.resolve_place(st, fr, s[1])
            cur = self.load(st, obj, proj)
            pty = self.place_ty(fr, s[1])
            if pty[0] == "adt":
                adt = self.prog.adt(pty[1])
                nf = len(adt["variants"][s[2]]["fields"])
                fields = list(cur.fields) if isinstance(cur, Agg) and len(cur.fields) == nf else [UNINIT] * nf
                self.store_to(st, obj, proj, Agg(("adt", pty[1]), s[2], fields))
        elif k == "intrinsic":
            pass

    def loop_guard(self, st, fr):
        key = (fr.fid, fr.block)
        c = st.visits.get(key, 0) + 1
        st.visits[key] = c
        return c

    def exec_term(self, st, fr, t, base_depth, work):
        k = t["k"]
        if k == "goto":
            fr.block = t["t"]
            return None
        if k == "switch":
            d = self.eval_operand(st, fr, t["discr"])
            if not isinstance(d, T):
                raise WalkError("switch on %r" % (d,))
            d = self.simplify(st, d)
            if d.is_const():
                v = d.val
                for (av, tgt) in t["arms"]:
                    if (av & tm.mask(d.bits)) == v:
                        fr.block = tgt
                        return None
                fr.block = t["otherwise"]
                return None
            # symbolic: fork
            c = self.loop_guard(st, fr)
            if c > (self.loop_bound if self.branch_loop_bound is None else self.branch_loop_bound):
                return self.finish(st, "cut", detail="loop bound at %s bb%d (%s)" % (fr.fn.path, fr.block, fr.fn.loc(t.get("span"))))
            self.stats["forks"] += 1
            succ = []
            lo, hi = tm.urange(d)
            arm_vals = []
            for (av, tgt) in t["arms"]:
                av &= tm.mask(d.bits)
                arm_vals.append(av)
                if av < lo or av > hi:
                    continue
                if tm.cmp("eq", d, K(av, d.bits)) is tm.FALSE:
                    continue
                s2 = st.copy()
                if not self.assume(s2, d, av):
                    continue
                s2.frames[-1].block = tgt
                s2.pc.append(("eq", d, av, (fr.fn.path, t.get("span"))))
                succ.append(s2)
            # otherwise
            feasible_other = True
            # a recorded bound `d < K` (e.g. a preceding assert!) may already exclude every remaining value
            for ft, fv in st.facts.items():
                if ft.op == "ult" and ft.args[0] is d and ft.args[1].is_const() and fv.val == 1:
                    hi = min(hi, ft.args[1].val - 1)
            lo2, hi2 = self.range_under(st, d)
            lo, hi = max(lo, lo2), min(hi, hi2)
            if hi - lo < 4096:
                ex = st.nfacts.get(d, ())
                if not [v for v in range(lo, hi + 1) if v not in ex and v not in arm_vals]:
                    feasible_other = False
            pv = _ite_values(d.args[0] if d.op in ("sext", "zext") else d)
            if pv is not None:
                # the scrutinee is a selection among constants (e.g. an Ordering built by a three-way compare)
                if d.op == "sext":
                    pv = set(tm.to_signed(v, d.args[0].bits) & tm.mask(d.bits) for v in pv)
                if pv <= set(a & tm.mask(d.bits) for a in arm_vals):
                    feasible_other = False
            if d.bits == 1 and len(set(arm_vals)) == 2:
                feasible_other = False
            elif hi - lo + 1 <= len(set(a for a in arm_vals if lo <= a <= hi)):
                feasible_other = False
            if feasible_other:
                s2 = st.copy()
                ok = True
                if d.bits == 1:
                    ok = self.assume(s2, d, 1 - arm_vals[0])
                else:
                    for av in arm_vals:
                        if not self.assume_not(s2, d, av):
                            ok = False
                            break
                if ok:
                    s2.frames[-1].block = t["otherwise"]
                    s2.pc.append(("ne", d, tuple(arm_vals), (fr.fn.path, t.get("span"))))
                    succ.append(s2)
            for s2 in reversed(succ):
                work.append(s2)
            return FORKED
        if k == "return":
            fr2, rv = self.pop_frame(st)
            if len(st.frames) == base_depth:
                return self.finish(st, "return", ret=rv)
            caller = st.frames[-1]
            if fr2.dest is not None:
                self.store_to(st, fr2.dest[0], fr2.dest[1], rv)
            caller.block = fr2.ret_block
            if fr2.ret_block is None:
                return self.finish(st, "diverge", detail="return into no-target call")
            return None
        if k == "call":
            return self.exec_call(st, fr, t, base_depth, work)
        if k == "assert":
            c = self.eval_operand(st, fr, t["cond"])
            if not isinstance(c, T):
                raise WalkError("assert on %r" % (c,))
            c = self.simplify(st, c)
            exp = 1 if t["expected"] else 0
            if c.is_const():
                if c.val == exp:
                    fr.block = t["t"]
                    return None
                return self.finish(st, "panic", detail=("assert", t["msg"]["k"], fr.fn.path, fr.fn.loc(t["span"])))
            site = {"kind": "assert:" + t["msg"]["k"], "fn": fr.fn.path, "loc": fr.fn.loc(t["span"]),
                    "cond": c, "expected": exp, "stack": [f.fn.path for f in st.frames]}
            msg = t["msg"]
            for key in ("len", "index", "a", "b"):
                if key in msg:
                    try:
                        site[key] = self.eval_operand(st, fr, msg[key])
                    except WalkError:
                        pass
            site["nfacts_before"] = len(st.facts)
            st.sites.append(site)
            self.assume(st, c, exp)
            fr.block = t["t"]
            return None
        if k == "drop":
            # user Drop impls run (RAII guards); drop glue of fields is not modelled
            pty = self.place_ty(fr, t["place"])
            if pty[0] == "adt":
                for im, item in self.prog.impl_candidates("core::ops::drop::Drop::drop"):
                    env = {}
                    if unify(im["self_ty"], pty, env):
                        dfn = self.prog.fns.get(item)
                        if dfn is not None and dfn.local:
                            obj, proj = self.resolve_place(st, fr, t["place"])
                            cur = self.load(st, obj, proj)
                            if cur is UNINIT or isinstance(cur, PartialAgg):
                                break
                            tmp = ("droptmp", st.nfid, fr.block)
                            st.store[tmp] = UNIT
                            self.push_frame(st, dfn, env, [Ref(obj, proj, True)], (tmp, ()), t["t"], t.get("span"))
                            return None
            fr.block = t["t"]
            return None
        if k == "unreachable":
            return self.finish(st, "unreachable", detail=(fr.fn.path, fr.fn.loc(t.get("span"))))
        if k in ("resume", "abort"):
            return self.finish(st, "unwind")
        raise WalkError("terminator %s" % k)

    # ------------------------------------------------------------ call execution
    def exec_call(self, st, fr, t, base_depth, work):
        path, targs, f, indirect_val = self.callee_of(st, fr, t)
        args = [self.eval_operand(st, fr, a) for a in t["args"]]
        dest_obj, dest_proj = self.resolve_place(st, fr, t["dest"])
        dest_ty = self.place_ty(fr, t["dest"])
        span = t.get("span")
        if path is None:
            return self.do_effect(st, fr, "<indirect>", args, t, dest_obj, dest_proj, dest_ty)
        # closure calls through Fn* traits: untuple
        if _builtin_key(path) in _FN_TRAIT_CALLS and args:
            clo = args[0]
            target = clo
            if isinstance(clo, Ref):
                target = self.load(st, clo.obj, clo.proj)
            # `&mut F` / `&F` is itself callable (core::ops::function::impls forwards): follow the reference
            hops = 0
            while isinstance(target, Ref) and hops < 4:
                clo = target
                target = self.load(st, clo.obj, clo.proj)
                hops += 1
            tup = args[1] if len(args) > 1 else UNIT
            spread = list(tup.fields) if isinstance(tup, Agg) else []
            if isinstance(target, Agg) and target.kind[0] == "closure":
                cfn = self.prog.fns.get(target.kind[1])
                if cfn is not None:
                    env_arg = clo
                    first_ty = cfn.T[cfn.body["locals"][1]] if cfn.body["argc"] >= 1 else None
                    if first_ty and first_ty[0] == "ref" and not isinstance(clo, Ref):
                        oid = ("tmp", st.nfid, id(t))
                        st.store[oid] = clo
                        env_arg = Ref(oid, (), True)
                    elif first_ty and first_ty[0] != "ref" and isinstance(clo, Ref):
                        env_arg = target
                    return self.enter(st, fr, cfn, dict(fr.genv), [env_arg] + spread, (dest_obj, dest_proj), t)
            if isinstance(target, FnVal):
                fn2, genv2, p2 = self.resolve(fr, target.path, list(target.args), None)
                if fn2 is not None:
                    return self.enter(st, fr, fn2, genv2, spread, (dest_obj, dest_proj), t)
                cv = self.ctor_value(target.path, spread, dest_ty)
                if cv is not None and target.path not in self.opaque_paths:
                    return self.finish_builtin(st, fr, cv, t, dest_obj, dest_proj, work)
                return self.do_effect(st, fr, target.path, spread, t, dest_obj, dest_proj, dest_ty)
        fn, genv, rpath = self.resolve(fr, path, targs, f)
        # builtin models take priority, unless the query asked for the call to be an opaque effect
        b = _BUILTINS.get(_builtin_key(rpath)) or _BUILTINS.get(_builtin_key(path))
        if rpath in self.opaque_paths or path in self.opaque_paths:
            b = None
        if b is not None:
            r = b(self, st, fr, rpath, targs, args, dest_ty)
            if r is not NOT_HANDLED:
                return self.finish_builtin(st, fr, r, t, dest_obj, dest_proj, work)
        if rpath in self.opaque_paths or path in self.opaque_paths:
            fn = None
        if self.call_hook is not None:
            h = self.call_hook(self, st, rpath, args)
            if h == "effect":
                fn = None
        if fn is None:
            cv = self.ctor_value(rpath, args, dest_ty)
            if cv is not None and rpath not in self.opaque_paths:
                return self.finish_builtin(st, fr, cv, t, dest_obj, dest_proj, work)
            return self.do_effect(st, fr, rpath, args, t, dest_obj, dest_proj, dest_ty)
        if rpath.endswith("::deref") and (rpath + "::__static_ref_initialize") in self.prog.fns:
            r = self.lazy_static(st, rpath)
            return self.finish_builtin(st, fr, r, t, dest_obj, dest_proj, work)
        return self.enter(st, fr, fn, genv, args, (dest_obj, dest_proj), t)

    def ctor_value(self, path, args, dest_ty):
        """a tuple-variant / tuple-struct constructor used as a function (`Some`, `BitOperand8::Reg` passed to map_or_else):
        the aggregate it builds"""
        base = path.split("::<")[0] if path.endswith(">") else path
        if "::" not in base:
            return None
        parent, last = base.rsplit("::", 1)
        a = self.prog.adts.get(parent)
        if a is not None:
            for vi, v in enumerate(a["variants"]):
                if v["name"] == last and len(v["fields"]) == len(args):
                    return Agg(("adt", parent), vi, list(args))
        a = self.prog.adts.get(base)
        if a is not None and a["kind"] == "struct" and len(a["variants"]) == 1 and len(a["variants"][0]["fields"]) == len(args) and \
                all(f["name"].isdigit() for f in a["variants"][0]["fields"]):
            return Agg(("adt", base), 0, list(args))
        return None

    def call_pure(self, st, fn, genv, args):
        """Evaluate fn(args) on a copy of the state; it must have exactly one returning, effect-free path."""
        s2 = st.copy()
        s2.frames = []
        s2.trace = []
        rs = self.run(fn, list(args), genv=genv, state=s2)
        good = [r for r in rs if r.outcome == "return"]
        if len(rs) != 1 or len(good) != 1 or good[0].trace:
            raise WalkError("call_pure(%s): %d paths, outcomes %s" % (fn.path, len(rs), [(r.outcome, r.detail) for r in rs][:3]))
        return good[0].ret, good[0]

    def lazy_static(self, st, deref_path):
        """lazy_static!: the value is the result of __static_ref_initialize, folded by constant propagation"""
        oid = ("lazy", deref_path)
        if oid not in st.store:
            cache = self.__dict__.setdefault("_lazy_cache", {})
            if deref_path not in cache:
                init = self.prog.fns.get(deref_path + "::__static_ref_initialize")
                s2 = self.new_state()
                rs = self.run(init, [], genv={}, state=s2)
                good = [r for r in rs if r.outcome == "return"]
                if len(rs) != 1 or len(good) != 1:
                    raise WalkError("lazy static %s does not fold to one value" % deref_path)
                cache[deref_path] = good[0].ret
            st.store[oid] = cache[deref_path]
        return Ref(oid, (), False)

    def enter(self, st, fr, fn, genv, args, dest, t):
        if self.call_site_bound is not None:
            ck = ("callsite", fr.fid, fr.block)
            n = st.visits.get(ck, 0) + 1
            st.visits[ck] = n
            if n > self.call_site_bound:
                return self.finish(st, "cut", detail="call-site bound at %s bb%d -> %s" % (fr.fn.path, fr.block, fn.path))
        if self.trace_calls:
            st.trace.append(Effect("enter:" + fn.path, tuple(args), None, t.get("span"), fr.fn.path, len(st.frames)))
        self.push_frame(st, fn, genv, args, dest, t["t"], t.get("span"))
        return None

    def finish_builtin(self, st, fr, r, t, dest_obj, dest_proj, work):
        if isinstance(r, Diverge):
            return self.finish(st, "panic", detail=("builtin", r.why, fr.fn.path, fr.fn.loc(t.get("span"))))
        if isinstance(r, ForkValues):
            c = self.loop_guard(st, fr)
            if c > self.loop_bound:
                return self.finish(st, "cut", detail="loop bound at %s bb%d (%s)" % (fr.fn.path, fr.block, fr.fn.loc(t.get("span"))))
            self.stats["forks"] += 1
            for (cond, cval, val) in reversed(r.alts):
                s2 = st.copy()
                if cond is not None and not self.assume(s2, cond, cval):
                    continue
                if cond is not None:
                    s2.pc.append(("eq", cond, cval, (fr.fn.path, t.get("span"))))
                if callable(val):
                    val = val(s2)
                self.store_to(s2, dest_obj, dest_proj, val)
                if t["t"] is None:
                    continue
                s2.frames[-1].block = t["t"]
                work.append(s2)
            return FORKED
        self.store_to(st, dest_obj, dest_proj, r)
        if t["t"] is None:
            return self.finish(st, "diverge", detail="builtin no target")
        fr.block = t["t"]
        return None

    def do_effect(self, st, fr, path, args, t, dest_obj, dest_proj, dest_ty):
        span = t.get("span")
        if t["t"] is None:
            # diverging call: panic family
            st.trace.append(Effect(path, tuple(args), None, span, fr.fn.path, len(st.frames)))
            return self.finish(st, "panic", detail=("call", path, fr.fn.path, fr.fn.loc(span)))
        ret = None
        havoc = True
        args_cur = args
        perm = getattr(self.prog, "arg_perm", {}).get(path)
        if perm and len(perm) == len(args):
            args = [args_cur[c] for c in perm]      # hooks and the trace see the reference parameter order
        if self.effect_hook is not None:
            ret = self.effect_hook(self, st, path, args, dest_ty, (fr.fn, span))
            if isinstance(ret, EffectResult):
                havoc = ret.havoc
                ret = ret.ret
                if ret is None:
                    ret = self.symval("ret%d:%s" % (len(st.trace), path.split("::")[-1]), dest_ty)
        if ret is None:
            n = len(st.trace)
            ret = self.symval("ret%d:%s" % (n, path.split("::")[-1]), dest_ty)
        # havoc through &mut arguments
        for i, a in enumerate(args_cur):
            if not havoc:
                break
            if isinstance(a, Ref) and a.mut:
                cur = self.load(st, a.obj, a.proj)
                if isinstance(cur, Opaque):
                    continue
                aty = self.operand_ty(fr, t["args"][i]) if i < len(t["args"]) else None
                pty = aty[2] if aty and aty[0] in ("ref", "ptr") else None
                if pty is None:
                    continue
                nm = "hv%d:%s.%d" % (len(st.trace), path.split("::")[-1], i)
                if isinstance(cur, Agg) and cur.kind == ("array",) and len(cur.fields) <= 512 and all(isinstance(x, T) for x in cur.fields) and cur.fields:
                    # a fixed-size buffer stays a buffer of that size with unknown contents
                    bits = cur.fields[0].bits
                    self.store_to(st, a.obj, a.proj, Agg(("array",), 0, [tm.sym("%s[%d]" % (nm, k), bits) for k in range(len(cur.fields))]))
                    continue
                if isinstance(cur, SymArr):
                    self.store_to(st, a.obj, a.proj, SymArr(nm, cur.ety, cur.length))
                    continue
                self.store_to(st, a.obj, a.proj, self.symval(nm, pty))
        st.trace.append(Effect(path, tuple(args), ret, span, fr.fn.path, len(st.frames)))
        self.store_to(st, dest_obj, dest_proj, ret)
        fr.block = t["t"]
        return None


FORKED = "<forked>"


class SplitEnum(Exception):
    def __init__(self, obj, proj, value):
        self.obj = obj
        self.proj = proj
        self.value = value


class SymIndex(Exception):
    def __init__(self, idx, n):
        self.idx = idx
        self.n = n


class Diverge(object):
    def __init__(self, why):
        self.why = why


def _ite_values(t):
    """the finite set of values of a term built from constants and ite, else None"""
    if t.op == "k":
        return {t.args[0]}
    if t.op == "ite":
        a, b = _ite_values(t.args[1]), _ite_values(t.args[2])
        if a is None or b is None:
            return None
        return a | b
    return None


_ZIP_ITER = "<core::iter::adapters::zip::Zip<A, B> as core::iter::traits::iterator::Iterator>::"


def _prefer_default(path):
    """overrides whose std implementation is a specialised fast path (unsafe index arithmetic over
    TrustedRandomAccess): the provided trait method is semantically the same and interpretable"""
    return path.startswith(_ZIP_ITER) and not path.endswith("::next")


class EnumTerm(object):
    """value of a fieldless enum whose variant is a function of symbolic data: only its discriminant is known"""
    __slots__ = ("adt", "discr")

    def __init__(self, adt, discr):
        self.adt = adt
        self.discr = discr

    def __repr__(self):
        return "EnumTerm(%s, %s)" % (self.adt, tm.show(self.discr))


class ForkValues(object):
    def __init__(self, alts):
        self.alts = alts  # list of (cond_term|None, cond_value, value|callable(state))


class PartialAgg(object):
    __slots__ = ("fields",)

    def __init__(self, fields):
        self.fields = fields

    def __repr__(self):
        return "PartialAgg(%r)" % (self.fields,)


NOT_HANDLED = object()

_FN_TRAIT_CALLS = {
    "core::ops::Fn::call", "core::ops::FnMut::call_mut", "core::ops::FnOnce::call_once",
}


import re as _re

_INT_IMPL = _re.compile(r"^(?:core|std)::num::<impl ([iu](?:8|16|32|64|128|size))>::(\w+)$")


_PRIV_MODS = _re.compile(r"\b(core|alloc|std)::(\w+)((?:::[a-z_0-9]+)+)::([A-Z]\w*)")
_key_cache = {}


def _builtin_key(path):
    """normalised name used to look up models: private module segments of core/alloc are dropped
    (core::iter::traits::iterator::Iterator -> core::iter::Iterator), std:: is core::"""
    k = _key_cache.get(path)
    if k is not None:
        return k
    m = _INT_IMPL.match(path)
    if m:
        k = "int::" + m.group(2)
    else:
        k = path
        while True:
            k2 = _PRIV_MODS.sub(r"\1::\2::\4", k)
            if k2 == k:
                break
            k = k2
        k = k.replace("std::", "core::")
    _key_cache[path] = k
    return k


def int_ty_of_path(path):
    m = _INT_IMPL.match(path)
    if not m:
        return None
    s = m.group(1)
    bits = 64 if s.endswith("size") else int(s[1:])
    return ("int", bits, s[0] == "i", s.endswith("size"))


_BUILTINS = {}


def builtin(*names):
    def deco(f):
        for n in names:
            _BUILTINS[n] = f
        return f
    return deco
