"""Hash-consed bit-vector terms with constant folding, a per-bit provenance view and an affine view.

Terms are *names for values*, never machine states: inputs are symbols, tables are the evaluated
constants of the program.  No solver is involved; comparisons are decided only by folding, by the
per-bit view (known bits / min-max) or by syntactic identity.
"""

_pool = {}
_sym_bits = {}


class T(object):
    __slots__ = ("op", "args", "bits", "_bv", "_hash", "_syms", "serial")

    def __repr__(self):
        return show(self)

    def is_const(self):
        return self.op == "k"

    @property
    def val(self):
        return self.args[0]


def _mk(op, args, bits):
    key = (op, args, bits)
    t = _pool.get(key)
    if t is None:
        t = T()
        t.op = op
        t.args = args
        t.bits = bits
        t._bv = None
        t._hash = None
        t._syms = None
        t.serial = len(_pool)
        _pool[key] = t
    return t


def mask(bits):
    return (1 << bits) - 1


def K(v, bits):
    return _mk("k", (v & mask(bits),), bits)


def Sym(name, bits):
    _sym_bits[name] = bits
    return _mk("sym", (name,), bits)


TRUE = K(1, 1)
FALSE = K(0, 1)

_fresh = [0]


def fresh(prefix, bits):
    _fresh[0] += 1
    return Sym("%s#%d" % (prefix, _fresh[0]), bits)


def to_signed(v, bits):
    v &= mask(bits)
    return v - (1 << bits) if v >> (bits - 1) else v


# ---------------------------------------------------------------- bit view
# bit descriptors: 0, 1, ('c', sym, j, neg)  copy of input bit (possibly negated),
#                  ('d', frozenset((sym, j), ...)) may-depend set


def _dep_of(b):
    if b == 0 or b == 1:
        return frozenset()
    if b[0] == "c":
        return frozenset(((b[1], b[2]),))
    return b[1]


def _mkdep(s):
    if not s:
        # depends on nothing but is not a known constant: cannot happen; keep as unknown-free dep
        return ("d", frozenset())
    return ("d", s)


def _bnot(b):
    if b == 0:
        return 1
    if b == 1:
        return 0
    if b[0] == "c":
        return ("c", b[1], b[2], not b[3])
    return b


def _band(a, b):
    if a == 0 or b == 0:
        return 0
    if a == 1:
        return b
    if b == 1:
        return a
    if a == b:
        return a
    if a[0] == "c" and b[0] == "c" and a[1] == b[1] and a[2] == b[2] and a[3] != b[3]:
        return 0
    return _mkdep(_dep_of(a) | _dep_of(b))


def _bor_dep(a, b):
    if a == 1 or b == 1:
        return 1
    if a == 0:
        return b
    if b == 0:
        return a
    if a == b:
        return a
    return _mkdep(_dep_of(a) | _dep_of(b))


def _bxor(a, b):
    if a == 0:
        return b
    if b == 0:
        return a
    if a == 1:
        return _bnot(b)
    if b == 1:
        return _bnot(a)
    if a == b and a[0] == "c":
        return 0
    if a[0] == "c" and b[0] == "c" and a[1] == b[1] and a[2] == b[2]:
        return 1
    return _mkdep(_dep_of(a) | _dep_of(b))


_table_bits_cache = {}


def _table_bitinfo(tab, ebits, ibits):
    """For each output bit of a constant table: constant / copy of index bit / support set."""
    key = (tab, ebits, ibits)
    r = _table_bits_cache.get(key)
    if r is not None:
        return r
    n = len(tab)
    ibits = min(ibits, max(1, (n - 1).bit_length()))  # higher index bits are zero (bounds-checked access)
    out = []
    for ob in range(ebits):
        col = [(tab[i] >> ob) & 1 for i in range(n)]
        if all(c == 0 for c in col):
            out.append(("k", 0))
            continue
        if all(c == 1 for c in col):
            out.append(("k", 1))
            continue
        sup = []
        for j in range(ibits):
            step = 1 << j
            dep = False
            for i in range(n):
                i2 = i ^ step
                if i2 < n and col[i] != col[i2]:
                    dep = True
                    break
                if i2 >= n:
                    dep = True
                    break
            if dep:
                sup.append(j)
        if len(sup) == 1:
            j = sup[0]
            if all(col[i] == ((i >> j) & 1) for i in range(n)):
                out.append(("copy", j, False))
                continue
            if all(col[i] == 1 - ((i >> j) & 1) for i in range(n)):
                out.append(("copy", j, True))
                continue
        out.append(("sup", tuple(sup)))
    _table_bits_cache[key] = out
    return out


def bv(t):
    """Per-bit view of term t (list of length t.bits, index 0 = LSB)."""
    r = t._bv
    if r is not None:
        return r
    op = t.op
    n = t.bits
    if op == "k":
        v = t.args[0]
        r = [(v >> i) & 1 for i in range(n)]
    elif op == "sym":
        nm = t.args[0]
        r = [("c", nm, i, False) for i in range(n)]
    elif op == "and":
        a, b = bv(t.args[0]), bv(t.args[1])
        r = [_band(a[i], b[i]) for i in range(n)]
    elif op == "or":
        a, b = bv(t.args[0]), bv(t.args[1])
        r = [_bor_dep(a[i], b[i]) for i in range(n)]
        # refine x | !x
        for i in range(n):
            x, y = a[i], b[i]
            if isinstance(x, tuple) and isinstance(y, tuple) and x[0] == "c" and y[0] == "c" \
                    and x[1] == y[1] and x[2] == y[2] and x[3] != y[3]:
                r[i] = 1
    elif op == "xor":
        a, b = bv(t.args[0]), bv(t.args[1])
        r = [_bxor(a[i], b[i]) for i in range(n)]
    elif op == "not":
        a = bv(t.args[0])
        r = [_bnot(x) for x in a]
    elif op == "zext":
        a = bv(t.args[0])
        r = a + [0] * (n - len(a))
    elif op == "sext":
        a = bv(t.args[0])
        r = a + [a[-1]] * (n - len(a))
    elif op == "trunc":
        r = bv(t.args[0])[:n]
    elif op == "shl" and t.args[1].op == "k":
        a = bv(t.args[0])
        k = t.args[1].args[0]
        r = ([0] * min(k, n) + a)[:n]
    elif op == "lshr" and t.args[1].op == "k":
        a = bv(t.args[0])
        k = t.args[1].args[0]
        r = (a[k:] + [0] * n)[:n]
    elif op == "ashr" and t.args[1].op == "k":
        a = bv(t.args[0])
        k = t.args[1].args[0]
        r = (a[k:] + [a[-1]] * n)[:n]
    elif op in ("add", "sub"):
        a, b = bv(t.args[0]), bv(t.args[1])
        r = []
        # exact low bits while no carry can be produced
        acc = frozenset()
        carry_possible = False
        borrow = op == "sub"
        for i in range(n):
            x, y = a[i], b[i]
            if not carry_possible:
                if y == 0:
                    r.append(x)
                    # x + 0: no carry out
                    continue
                if x == 0 and not borrow:
                    r.append(y)
                    continue
                # first position where both may be non-zero (or subtraction with non-zero y)
                carry_possible = True
                acc = _dep_of(x) | _dep_of(y)
                if x in (0, 1) and y in (0, 1):
                    # constant bits: compute, carry may be generated -> track numerically
                    pass
                r.append(_bxor(x, y))
                continue
            acc = acc | _dep_of(x) | _dep_of(y)
            r.append(_mkdep(acc) if acc else _mkdep(frozenset()))
        # constants are folded before reaching here, so a dep with empty set cannot be observed
    elif op == "mul" and t.args[1].op == "k" and t.args[1].args[0] & (t.args[1].args[0] - 1) == 0 \
            and t.args[1].args[0] != 0:
        k = t.args[1].args[0].bit_length() - 1
        a = bv(t.args[0])
        r = ([0] * min(k, n) + a)[:n]
    elif op == "mul" and (t.args[1].op == "k" or t.args[0].op == "k"):
        kx, x = (t.args[1], t.args[0]) if t.args[1].op == "k" else (t.args[0], t.args[1])
        c = kx.args[0]
        a = bv(x)
        if all(b == 0 for b in a[1:]):
            # x is 0 or 1: the product is c masked by that bit
            r = [(a[0] if (c >> i) & 1 else 0) for i in range(n)]
        else:
            # bit i of x*c depends on bits 0..i of x only
            r = []
            acc = frozenset()
            allzero = True
            for i in range(n):
                acc = acc | _dep_of(a[i])
                allzero = allzero and a[i] == 0
                r.append(0 if allzero else _mkdep(acc))
            tz = (c & -c).bit_length() - 1 if c else n
            for i in range(min(tz, n)):
                r[i] = 0
    elif op in ("eq", "ne", "ult", "ule", "slt", "sle", "uaddo", "usubo", "umulo", "saddo", "ssubo",
                "smulo"):
        s = frozenset()
        for x in t.args:
            for b in bv(x):
                s = s | _dep_of(b)
        r = [_mkdep(s)]
    elif op == "ite":
        c = bv(t.args[0])[0]
        a, b = bv(t.args[1]), bv(t.args[2])
        r = []
        for i in range(n):
            if a[i] == b[i] and not (isinstance(a[i], tuple) and a[i][0] == "d"):
                r.append(a[i])
            else:
                r.append(_mkdep(_dep_of(c) | _dep_of(a[i]) | _dep_of(b[i])))
    elif op == "select":
        tab = t.args[0]
        idx = t.args[1]
        ib = bv(idx)
        info = _table_bitinfo(tab, n, idx.bits)
        r = []
        for ob in range(n):
            e = info[ob]
            if e[0] == "k":
                r.append(e[1])
            elif e[0] == "copy":
                x = ib[e[1]]
                r.append(_bnot(x) if e[2] else x)
            else:
                s = frozenset()
                for j in e[1]:
                    s = s | _dep_of(ib[j])
                cs = [ib[j] for j in e[1]]
                if all(c in (0, 1) for c in cs) and False:
                    pass
                r.append(_mkdep(s))
    else:
        s = frozenset()
        for x in t.args:
            if isinstance(x, T):
                for b in bv(x):
                    s = s | _dep_of(b)
        if not s:
            s = frozenset((("?%s" % op, 0),))
        r = [_mkdep(s)] * n
    t._bv = r
    return r


def known_bits(t):
    """(mask_of_known_bits, value_of_known_bits)"""
    m = 0
    v = 0
    for i, b in enumerate(bv(t)):
        if b == 0:
            m |= 1 << i
        elif b == 1:
            m |= 1 << i
            v |= 1 << i
    return m, v


def urange(t):
    m, v = known_bits(t)
    full = mask(t.bits)
    lo, hi = v, v | (full & ~m)
    # tighten: min/max of two terms, select over a table, urem by a constant
    if t.op == "ite":
        l1, h1 = urange(t.args[1])
        l2, h2 = urange(t.args[2])
        lo, hi = max(lo, min(l1, l2)), min(hi, max(h1, h2))
        c = t.args[0]
        if c.op == "ult":
            p, q = c.args
            if t.args[1] is p and t.args[2] is q:      # p < q ? p : q  == min(p, q)
                hi = min(hi, h1, h2)
            elif t.args[1] is q and t.args[2] is p:    # p < q ? q : p  == max(p, q)
                lo = max(lo, l1, l2)
    elif t.op == "select":
        lo, hi = max(lo, min(t.args[0])), min(hi, max(t.args[0]))
    elif t.op == "urem" and t.args[1].op == "k" and t.args[1].args[0] > 0:
        hi = min(hi, t.args[1].args[0] - 1)
        lo = 0 if lo > hi else lo
    elif t.op == "zext":
        l1, h1 = urange(t.args[0])
        lo, hi = max(lo, l1), min(hi, h1)
    elif t.op == "udiv" and t.args[1].op == "k" and t.args[1].args[0] > 0:
        l1, h1 = urange(t.args[0])
        lo, hi = max(lo, l1 // t.args[1].args[0]), min(hi, h1 // t.args[1].args[0])
    elif t.op == "lshr" and t.args[1].op == "k":
        l1, h1 = urange(t.args[0])
        lo, hi = max(lo, l1 >> t.args[1].args[0]), min(hi, h1 >> t.args[1].args[0])
    elif t.op == "add":
        l1, h1 = urange(t.args[0])
        l2, h2 = urange(t.args[1])
        if h1 + h2 <= full:
            lo, hi = max(lo, l1 + l2), min(hi, h1 + h2)
    elif t.op == "mul":
        l1, h1 = urange(t.args[0])
        l2, h2 = urange(t.args[1])
        if h1 * h2 <= full:
            lo, hi = max(lo, l1 * l2), min(hi, h1 * h2)
    elif t.op == "sub":
        l1, h1 = urange(t.args[0])
        l2, h2 = urange(t.args[1])
        if l1 >= h2:
            lo, hi = max(lo, l1 - h2), min(hi, h1 - l2)
    return lo, hi


def syms(t):
    r = t._syms
    if r is None:
        if t.op == "sym":
            r = frozenset((t.args[0],))
        elif t.op == "k":
            r = frozenset()
        else:
            r = frozenset()
            for a in t.args:
                if isinstance(a, T):
                    r = r | syms(a)
        t._syms = r
    return r


def deps(t):
    """set of (sym, bit) the term may depend on"""
    s = frozenset()
    for b in bv(t):
        s = s | _dep_of(b)
    return s


def dep_syms(t):
    return frozenset(x[0] for x in deps(t))


# ---------------------------------------------------------------- constructors with folding

def _canon_bits(t):
    """If the bit view is entirely constant, or exactly a (zero-extended / truncated) symbol, return that."""
    if t.op in ("k", "sym"):
        return t
    b = bv(t)
    if all(x == 0 or x == 1 for x in b):
        v = 0
        for i, x in enumerate(b):
            v |= x << i
        return K(v, t.bits)
    x0 = b[0]
    if isinstance(x0, tuple) and x0[0] == "c" and x0[2] == 0 and not x0[3]:
        nm = x0[1]
        k = 0
        while k < len(b) and isinstance(b[k], tuple) and b[k][0] == "c" and b[k][1] == nm \
                and b[k][2] == k and not b[k][3]:
            k += 1
        if k > 0 and all(x == 0 for x in b[k:]):
            sb = _sym_bits.get(nm)
            if sb is not None:
                if k == sb and k == t.bits:
                    return Sym(nm, sb)
                if k == sb and k < t.bits:
                    return _mk("zext", (Sym(nm, sb),), t.bits)
                if k == t.bits and k < sb:
                    return _mk("trunc", (Sym(nm, sb),), t.bits)
    return t


def sym(name, bits):
    return Sym(name, bits)


def fresh_sym(prefix, bits):
    _fresh[0] += 1
    return sym("%s#%d" % (prefix, _fresh[0]), bits)


def _fold2(op, a, b, bits):
    x, y = a.args[0], b.args[0]
    m = mask(bits)
    if op == "add":
        return (x + y) & m
    if op == "sub":
        return (x - y) & m
    if op == "mul":
        return (x * y) & m
    if op == "and":
        return x & y
    if op == "or":
        return x | y
    if op == "xor":
        return x ^ y
    if op == "shl":
        return (x << y) & m if y < bits else 0
    if op == "lshr":
        return x >> y if y < bits else 0
    if op == "ashr":
        return (to_signed(x, bits) >> min(y, bits - 1)) & m
    if op == "udiv":
        return x // y if y else None
    if op == "urem":
        return x % y if y else None
    if op == "sdiv":
        if not y:
            return None
        sx, sy = to_signed(x, bits), to_signed(y, bits)
        q = abs(sx) // abs(sy)
        return (q if (sx < 0) == (sy < 0) else -q) & m
    if op == "srem":
        if not y:
            return None
        sx, sy = to_signed(x, bits), to_signed(y, bits)
        r = abs(sx) % abs(sy)
        return (r if sx >= 0 else -r) & m
    raise KeyError(op)


_COMM = ("add", "mul", "and", "or", "xor")


def binop(op, a, b):
    bits = a.bits
    if op in ("shl", "lshr", "ashr"):
        # shift amount may have another width
        if b.op == "k":
            b = K(b.args[0], bits) if b.args[0] < (1 << bits) else K(bits, bits)
    elif a.bits != b.bits:
        raise ValueError("width mismatch %s %r %r" % (op, a, b))
    if a.op == "k" and b.op == "k":
        v = _fold2(op, a, b, bits)
        if v is not None:
            return K(v, bits)
    if op in ("shl", "lshr") and b.op == "k" and a.op == op and a.args[1].op == "k":
        # (x >> m) >> n  ->  x >> (m + n)   (same for <<): one spelling for b / 32 / 8 and b / 256
        tot = a.args[1].args[0] + b.args[0]
        return K(0, bits) if tot >= bits else binop(op, a.args[0], K(tot, bits))
    if op in _COMM and a.op == "k":
        a, b = b, a
    elif op in _COMM and b.op != "k" and a.serial > b.serial:
        a, b = b, a
    if op == "add" and b.op != "k":
        # pull constants outwards: (x + k1) + (y + k2) -> (x + y) + (k1 + k2)
        ka = kb = 0
        if a.op == "add" and a.args[1].op == "k":
            ka = a.args[1].args[0]
            a = a.args[0]
        if b.op == "add" and b.args[1].op == "k":
            kb = b.args[1].args[0]
            b = b.args[0]
        if ka or kb:
            return binop("add", binop("add", a, b), K(ka + kb, bits))
    if b.op == "k":
        c = b.args[0]
        if op in ("add", "sub", "or", "xor", "shl", "lshr", "ashr") and c == 0:
            return a
        if op == "and" and c == mask(bits):
            return a
        if op == "and" and c == 0:
            return K(0, bits)
        if op == "mul" and c == 1:
            return a
        if op == "mul" and c == 0:
            return K(0, bits)
        if op in ("udiv", "sdiv") and c == 1:
            return a
        if op == "sub":
            return binop("add", a, K(-c, bits))
        if c > 1 and c & (c - 1) == 0:
            if op == "urem":
                return binop("and", a, K(c - 1, bits))
            if op == "udiv":
                return binop("lshr", a, K(c.bit_length() - 1, bits))
            if op == "mul":
                return binop("shl", a, K(c.bit_length() - 1, bits))
        if op == "add" and a.op == "add" and a.args[1].op == "k":
            return binop("add", a.args[0], K(a.args[1].args[0] + c, bits))
        if op in ("and", "or", "xor") and a.op == op and a.args[1].op == "k":
            return binop(op, a.args[0], K(_fold2(op, a.args[1], b, bits), bits))
        if op == "and":
            km, kv = known_bits(a)
            cleared = ~c & mask(bits)
            if cleared & ~(km & ~kv) == 0:
                return a  # every bit the mask clears is already known to be zero
    if op == "sub" and a is b:
        return K(0, bits)
    if op == "xor" and a is b:
        return K(0, bits)
    if op in ("and", "or") and a is b:
        return a
    if op == "sub" and b.op == "add" and b.args[0] is a and b.args[1].op == "k":
        return K(-b.args[1].args[0], bits)
    if op == "sub" and a.op == "add" and a.args[0] is b and a.args[1].op == "k":
        return a.args[1]
    if op == "sub" and a.op == "add" and a.args[1].op == "k" and b.op == "add" and b.args[1].op == "k" \
            and a.args[0] is b.args[0]:
        return K(a.args[1].args[0] - b.args[1].args[0], bits)
    if op == "or":
        j = _try_join(a, b, bits) or _try_join(b, a, bits)
        if j is not None:
            return j
    t = _mk(op, (a, b), bits)
    if op in ("and", "or", "xor", "shl", "lshr", "ashr", "mul", "add", "sub"):
        return _canon_bits(t)
    return t


def _try_join(a, b, bits):
    """zext(trunc_k(X)) | (zext(trunc(X >> k)) << k)  ->  X"""
    if a.op == "zext" and b.op == "shl" and b.args[1].op == "k" and b.args[0].op == "zext":
        lo = a.args[0]
        hi = b.args[0].args[0]
        k = b.args[1].args[0]
        if lo.bits == k and hi.bits + k == bits and hi.op == "trunc" and hi.args[0].op == "lshr":
            sh = hi.args[0]
            if sh.args[1].op == "k" and sh.args[1].args[0] == k and sh.args[0].bits == bits:
                x = sh.args[0]
                if trunc(x, k) is lo:
                    return x
    return None


def unop(op, a):
    if op == "not":
        if a.op == "k":
            return K(~a.args[0], a.bits)
        if a.op == "not":
            return a.args[0]
        if a.bits == 1 and a.op in _CMPNEG:
            return _mk(_CMPNEG[a.op][0], tuple(reversed(a.args)) if _CMPNEG[a.op][1] else a.args, 1)
        return _canon_bits(_mk("not", (a,), a.bits))
    if op == "neg":
        return binop("sub", K(0, a.bits), a)
    raise KeyError(op)


_CMPNEG = {"eq": ("ne", False), "ne": ("eq", False), "ult": ("ule", True), "ule": ("ult", True),
           "slt": ("sle", True), "sle": ("slt", True)}


def zext(a, bits):
    if bits == a.bits:
        return a
    if bits < a.bits:
        return trunc(a, bits)
    if a.op == "k":
        return K(a.args[0], bits)
    if a.op == "zext":
        return zext(a.args[0], bits)
    return _canon_bits(_mk("zext", (a,), bits))


def sext(a, bits):
    if bits == a.bits:
        return a
    if bits < a.bits:
        return trunc(a, bits)
    if a.op == "k":
        return K(to_signed(a.args[0], a.bits), bits)
    return _canon_bits(_mk("sext", (a,), bits))


def trunc(a, bits):
    if bits == a.bits:
        return a
    if bits > a.bits:
        return zext(a, bits)
    if a.op == "k":
        return K(a.args[0], bits)
    if a.op in ("zext", "sext") and a.args[0].bits >= bits:
        return trunc(a.args[0], bits)
    if a.op == "sext" and a.args[0].bits < bits:
        return sext(a.args[0], bits)
    if a.op == "zext" and a.args[0].bits < bits:
        return zext(a.args[0], bits)
    if a.op in ("add", "sub", "mul", "and", "or", "xor") and a.args[1].op == "k":
        # push truncation inside (keeps affine forms visible on the narrow type)
        return binop(a.op, trunc(a.args[0], bits), K(a.args[1].args[0], bits))
    if a.op in ("add", "sub"):
        x, y = a.args
        if (x.op in ("zext", "sext") and x.args[0].bits <= bits) or \
                (y.op in ("zext", "sext") and y.args[0].bits <= bits):
            return binop(a.op, trunc(x, bits), trunc(y, bits))
    return _canon_bits(_mk("trunc", (a,), bits))


def cmp(op, a, b):
    """op in eq ne ult ule ugt uge slt sle sgt sge; returns 1-bit term"""
    if op in ("ugt", "uge", "sgt", "sge"):
        a, b = b, a
        op = {"ugt": "ult", "uge": "ule", "sgt": "slt", "sge": "sle"}[op]
    if a.bits != b.bits:
        raise ValueError("width mismatch cmp %r %r" % (a, b))
    bits = a.bits
    if a.op == "k" and b.op == "k":
        x, y = a.args[0], b.args[0]
        if op == "eq":
            r = x == y
        elif op == "ne":
            r = x != y
        elif op == "ult":
            r = x < y
        elif op == "ule":
            r = x <= y
        elif op == "slt":
            r = to_signed(x, bits) < to_signed(y, bits)
        else:
            r = to_signed(x, bits) <= to_signed(y, bits)
        return TRUE if r else FALSE
    if a is b:
        return TRUE if op in ("eq", "ule", "sle") else FALSE
    # canonical form of unsigned comparisons with a constant: always 'ult'
    if op == "ule" and b.op == "k":
        if b.args[0] == mask(bits):
            return TRUE
        return cmp("ult", a, K(b.args[0] + 1, bits))
    if op == "ule" and a.op == "k":
        if a.args[0] == 0:
            return TRUE
        return cmp("ult", K(a.args[0] - 1, bits), b)
    if op in ("eq", "ne"):
        ba, bb = bv(a), bv(b)
        for i in range(bits):
            x, y = ba[i], bb[i]
            if (x == 0 and y == 1) or (x == 1 and y == 0):
                return FALSE if op == "eq" else TRUE
            if isinstance(x, tuple) and isinstance(y, tuple) and x[0] == "c" and y[0] == "c" \
                    and x[1] == y[1] and x[2] == y[2] and x[3] != y[3]:
                return FALSE if op == "eq" else TRUE
        # affine difference
        d = binop("sub", a, b)
        if d.op == "k":
            z = d.args[0] == 0
            return (TRUE if z else FALSE) if op == "eq" else (FALSE if z else TRUE)
        if a.op == "k":
            a, b = b, a
        # eq(ite(c, K1, K2), K) folding
        if b.op == "k" and a.op == "ite" and a.args[1].op == "k" and a.args[2].op == "k":
            t1 = a.args[1].args[0] == b.args[0]
            t2 = a.args[2].args[0] == b.args[0]
            if t1 and not t2:
                r = a.args[0]
            elif t2 and not t1:
                r = unop("not", a.args[0])
            else:
                r = TRUE if t1 else FALSE
            return r if op == "eq" else unop("not", r)
        if b.op == "k" and a.bits == 1:
            # boolean compared with constant
            r = a if b.args[0] == 1 else unop("not", a)
            return r if op == "eq" else unop("not", r)
        if b.op == "k" and a.op == "zext" and a.args[0].bits == 1 and b.args[0] in (0, 1):
            r = a.args[0] if b.args[0] == 1 else unop("not", a.args[0])
            return r if op == "eq" else unop("not", r)
        return _mk(op, (a, b), 1)
    if op in ("ult", "ule"):
        la, ha = urange(a)
        lb, hb = urange(b)
        if op == "ult":
            if ha < lb:
                return TRUE
            if la >= hb:
                return FALSE
        else:
            if ha <= lb:
                return TRUE
            if la > hb:
                return FALSE
    return _mk(op, (a, b), 1)


def ite(c, a, b):
    if c.op == "k":
        return a if c.args[0] else b
    if a is b:
        return a
    if a.bits == 1 and a.op == "k" and b.op == "k":
        return c if a.args[0] == 1 else unop("not", c)
    return _mk("ite", (c, a, b), a.bits)


def select(tab, ebits, idx):
    """tab: tuple of ints"""
    if idx.op == "k":
        i = idx.args[0]
        if i < len(tab):
            return K(tab[i], ebits)
        return None
    return _canon_bits(_mk("select", (tab, idx), ebits))


def app(name, args, bits):
    return _mk("app:" + name, tuple(args), bits)


def ovf(kind, a, b):
    """overflow flag of a checked arithmetic op: kind in uaddo usubo umulo saddo ssubo smulo"""
    bits = a.bits
    if a.op == "k" and b.op == "k":
        x, y = a.args[0], b.args[0]
        if kind[0] == "s":
            x, y = to_signed(x, bits), to_signed(y, bits)
            r = {"saddo": x + y, "ssubo": x - y, "smulo": x * y}[kind]
            return TRUE if not (-(1 << (bits - 1)) <= r < (1 << (bits - 1))) else FALSE
        r = {"uaddo": x + y, "usubo": x - y, "umulo": x * y}[kind]
        return TRUE if not (0 <= r <= mask(bits)) else FALSE
    if kind[0] == "u":
        la, ha = urange(a)
        lb, hb = urange(b)
        if kind == "uaddo" and ha + hb <= mask(bits):
            return FALSE
        if kind == "umulo" and ha * hb <= mask(bits):
            return FALSE
        if kind == "usubo" and la >= hb:
            return FALSE
        if kind == "usubo" and ha < lb:
            return TRUE
    return _mk(kind, (a, b), 1)


def join16(hi, lo):
    return binop("or", zext(lo, 16), binop("shl", zext(hi, 16), K(8, 16)))


def hi8(x):
    return trunc(binop("lshr", x, K(8, 16)), 8)


def lo8(x):
    return trunc(x, 8)


def affine(t):
    """(base term or None, constant offset)"""
    if t.op == "k":
        return None, t.args[0]
    if t.op == "add" and t.args[1].op == "k":
        return t.args[0], t.args[1].args[0]
    return t, 0


# ---------------------------------------------------------------- substitution

def subst(t, env, memo=None):
    """Replace sub-terms found in env (dict T->T) and re-simplify."""
    if memo is None:
        memo = {}
    return _subst(t, env, memo)


def _subst(t, env, memo):
    r = env.get(t)
    if r is not None:
        return r
    if t.op in ("k", "sym"):
        return t
    r = memo.get(t)
    if r is not None:
        return r
    na = tuple(_subst(a, env, memo) if isinstance(a, T) else a for a in t.args)
    if all(x is y for x, y in zip(na, t.args)):
        r = t
    else:
        r = rebuild(t.op, na, t.bits)
    memo[t] = r
    return r


def rebuild(op, args, bits):
    if op in ("add", "sub", "mul", "and", "or", "xor", "shl", "lshr", "ashr", "udiv", "urem", "sdiv",
              "srem"):
        return binop(op, args[0], args[1])
    if op == "not":
        return unop("not", args[0])
    if op == "zext":
        return zext(args[0], bits)
    if op == "sext":
        return sext(args[0], bits)
    if op == "trunc":
        return trunc(args[0], bits)
    if op in ("eq", "ne", "ult", "ule", "slt", "sle"):
        return cmp(op, args[0], args[1])
    if op == "ite":
        return ite(args[0], args[1], args[2])
    if op == "select":
        r = select(args[0], bits, args[1])
        return r if r is not None else _mk(op, args, bits)
    if op in ("uaddo", "usubo", "umulo", "saddo", "ssubo", "smulo"):
        return ovf(op, args[0], args[1])
    return _mk(op, args, bits)


# ---------------------------------------------------------------- printing

_OPSYM = {"add": "+", "sub": "-", "mul": "*", "and": "&", "or": "|", "xor": "^", "shl": "<<",
          "lshr": ">>", "ashr": ">>s", "udiv": "/", "urem": "%", "sdiv": "/s", "srem": "%s",
          "eq": "==", "ne": "!=", "ult": "<", "ule": "<=", "slt": "<s", "sle": "<=s"}


def show(t, depth=0):
    if not isinstance(t, T):
        if isinstance(t, tuple) and len(t) > 8:
            return "tab[%d]" % len(t)
        return repr(t)
    if depth > 6:
        return "…"
    if t.op == "k":
        v = t.args[0]
        return "%d" % v if v < 10 else "0x%X" % v
    if t.op == "sym":
        return t.args[0]
    if t.op in _OPSYM:
        return "(%s %s %s)" % (show(t.args[0], depth + 1), _OPSYM[t.op], show(t.args[1], depth + 1))
    if t.op in ("zext", "sext", "trunc"):
        return "%s%d(%s)" % (t.op, t.bits, show(t.args[0], depth + 1))
    if t.op == "not":
        return "!%s" % show(t.args[0], depth + 1)
    return "%s(%s)" % (t.op, ", ".join(show(a, depth + 1) for a in t.args))


# ---------------------------------------------------------------- finite-domain equivalence of extracted terms
# Two closed-form terms (never rustzx code) are compared by tabulating both over the input bits their
# bit-provenance view says they may depend on.  Per output bit the support is usually small (<= 18 bits).

try:
    import numpy as _np
except Exception:  # pragma: no cover
    _np = None

EQUIV_MAX_BITS = 18


def _ev(t, env, memo):
    r = memo.get(t)
    if r is not None:
        return r
    op = t.op
    m = mask(t.bits)
    if op == "k":
        r = t.args[0]
    elif op == "sym":
        r = env[t.args[0]]
    else:
        a = [(_ev(x, env, memo) if isinstance(x, T) else x) for x in t.args]
        if op == "add":
            r = (a[0] + a[1]) & m
        elif op == "sub":
            r = (a[0] - a[1]) & m
        elif op == "mul":
            r = (a[0] * a[1]) & m
        elif op == "and":
            r = a[0] & a[1]
        elif op == "or":
            r = a[0] | a[1]
        elif op == "xor":
            r = a[0] ^ a[1]
        elif op == "not":
            r = (~a[0]) & m
        elif op == "shl":
            r = _shift(a[0], a[1], t.bits, "shl") & m
        elif op == "lshr":
            r = _shift(a[0], a[1], t.bits, "lshr")
        elif op == "ashr":
            r = _shift(_sx(a[0], t.args[0].bits, 64), a[1], t.bits, "ashr") & m
        elif op == "zext":
            r = a[0]
        elif op == "sext":
            r = _sx(a[0], t.args[0].bits, t.bits) & m
        elif op == "trunc":
            r = a[0] & m
        elif op in ("eq", "ne", "ult", "ule"):
            x, y = a
            if op == "eq":
                r = x == y
            elif op == "ne":
                r = x != y
            elif op == "ult":
                r = x < y
            else:
                r = x <= y
            r = _asint(r)
        elif op in ("slt", "sle"):
            b = t.args[0].bits
            x, y = _tosigned(a[0], b), _tosigned(a[1], b)
            r = _asint(x < y if op == "slt" else x <= y)
        elif op == "ite":
            if _np is not None and isinstance(a[0], _np.ndarray):
                r = _np.where(a[0] != 0, a[1], a[2])
            elif _np is not None and (isinstance(a[1], _np.ndarray) or isinstance(a[2], _np.ndarray)):
                r = a[1] if a[0] else a[2]
            else:
                r = a[1] if a[0] else a[2]
        elif op == "select":
            tab = t.args[0]
            if _np is not None and isinstance(a[1], _np.ndarray):
                arr = _np.array(tab, dtype=_np.uint64)
                r = arr[_np.minimum(a[1], len(tab) - 1).astype(_np.int64)]
            else:
                r = tab[min(int(a[1]), len(tab) - 1)]
        elif op == "udiv":
            r = a[0] // _nz(a[1])
        elif op == "urem":
            r = a[0] % _nz(a[1])
        elif op in ("uaddo", "usubo", "umulo"):
            b = t.args[0].bits
            if op == "uaddo":
                r = _asint((a[0] + a[1]) > mask(b))
            elif op == "usubo":
                r = _asint(a[0] < a[1])
            else:
                r = _asint((a[0] * a[1]) > mask(b))
        else:
            raise NotEvaluable(op)
    memo[t] = r
    return r


class NotEvaluable(Exception):
    pass


def _nz(x):
    if _np is not None and isinstance(x, _np.ndarray):
        return _np.where(x == 0, 1, x)
    return x or 1


def _asint(r):
    if _np is not None and isinstance(r, _np.ndarray):
        return r.astype(_np.uint64)
    return 1 if r else 0


def _sx(x, frm, to):
    sign = (x >> (frm - 1)) & 1
    ext = mask(to) ^ mask(frm)
    return x | (sign * ext)


def _tosigned(x, bits):
    if _np is not None and isinstance(x, _np.ndarray):
        return _sx(x, bits, 64).astype(_np.int64)
    return to_signed(x, bits)


def _shift(x, n, bits, kind):
    if _np is not None and (isinstance(x, _np.ndarray) or isinstance(n, _np.ndarray)):
        n2 = _np.minimum(n, 63) if isinstance(n, _np.ndarray) else min(n, 63)
        if kind == "shl":
            r = x << n2
        elif kind == "lshr":
            r = x >> n2
        else:
            r = (x.astype(_np.int64) >> n2).astype(_np.uint64) if isinstance(x, _np.ndarray) else (to_signed(x, 64) >> n2) & mask(64)
        return _np.where(n >= bits, 0, r) if kind != "ashr" else r
    if n >= bits and kind != "ashr":
        return 0
    if kind == "shl":
        return x << n
    if kind == "lshr":
        return x >> n
    return (to_signed(x, 64) >> min(n, 63)) & mask(64)


def evaluate(t, env):
    """concrete value of a term under env: symbol name -> int"""
    return _ev(t, env, {})


def _assignments(support):
    """vectorised environments enumerating every assignment of the (sym, bit) pairs in support"""
    support = sorted(support)
    n = len(support)
    rows = 1 << n
    envs = {}
    if _np is not None:
        idx = _np.arange(rows, dtype=_np.uint64)
        for k, (s, j) in enumerate(support):
            v = ((idx >> _np.uint64(k)) & _np.uint64(1)) << _np.uint64(j)
            envs[s] = envs[s] | v if s in envs else v
        return envs, rows
    return None, rows


def equiv(a, b, max_bits=EQUIV_MAX_BITS, constraints=None):
    """True / False / None(undecided).  On False, equiv.witness holds a distinguishing assignment.
    constraints: list of (term, int value) — only assignments on which every constraint holds are compared."""
    equiv.witness = None
    if constraints:
        return _equiv_constrained(a, b, max_bits, constraints)
    if a is b:
        return True
    if a.bits != b.bits:
        return False
    if cmp("eq", a, b) is TRUE:
        return True
    va, vb = bv(a), bv(b)
    all_syms = syms(a) | syms(b)
    # one pass over the union of the supports of all differing bits, when it is small enough
    union = frozenset()
    diff = []
    for i in range(a.bits):
        xa, xb = va[i], vb[i]
        if xa == xb and not (isinstance(xa, tuple) and xa[0] == "d"):
            continue
        diff.append(i)
        union = union | _dep_of(xa) | _dep_of(xb)
    if not diff:
        return True
    if len(union) <= max_bits and not any(s.startswith("?") for (s, _) in union) and _np is not None:
        try:
            envs, rows = _assignments(union)
            zero = _np.zeros(rows, dtype=_np.uint64)
            env = dict((s, envs.get(s, zero)) for s in all_syms)
            ra = _ev(a, env, {})
            rb = _ev(b, env, {})
            ne = _np.nonzero(_np.asarray(ra != rb))[0] if isinstance(ra, _np.ndarray) or isinstance(rb, _np.ndarray) else ([] if ra == rb else [0])
            if len(ne):
                k = int(ne[0])
                equiv.witness = dict((s, int(v[k]) if isinstance(v, _np.ndarray) else int(v)) for s, v in env.items())
                equiv.witness["_got"] = int(ra[k]) if isinstance(ra, _np.ndarray) else int(ra)
                equiv.witness["_want"] = int(rb[k]) if isinstance(rb, _np.ndarray) else int(rb)
                return False
            return True
        except NotEvaluable:
            return None
    for i in range(a.bits):
        xa, xb = va[i], vb[i]
        if xa == xb and not (isinstance(xa, tuple) and xa[0] == "d"):
            continue
        sup = _dep_of(xa) | _dep_of(xb)
        if any(s.startswith("?") for (s, _) in sup):
            return None
        if len(sup) > max_bits:
            return None
        try:
            r = _equiv_bit(a, b, i, sup, all_syms)
        except NotEvaluable:
            return None
        if r is not True:
            return r
    return True


def _equiv_bit(a, b, i, sup, all_syms):
    if _np is not None:
        envs, rows = _assignments(sup)
        zero = _np.zeros(rows, dtype=_np.uint64)
        env = dict((s, envs.get(s, zero)) for s in all_syms)
        ra = (_ev(a, env, {}) >> i) & 1
        rb = (_ev(b, env, {}) >> i) & 1
        ne = _np.nonzero(_np.asarray(ra != rb))[0] if isinstance(ra, _np.ndarray) or isinstance(rb, _np.ndarray) else ([] if ra == rb else [0])
        if len(ne):
            k = int(ne[0])
            equiv.witness = dict((s, int(v[k]) if isinstance(v, _np.ndarray) else int(v)) for s, v in env.items())
            equiv.witness["_bit"] = i
            return False
        return True
    sup = sorted(sup)
    for k in range(1 << len(sup)):
        env = dict((s, 0) for s in all_syms)
        for n_, (s, j) in enumerate(sup):
            env[s] |= ((k >> n_) & 1) << j
        if (evaluate(a, env) >> i) & 1 != (evaluate(b, env) >> i) & 1:
            equiv.witness = dict(env, _bit=i)
            return False
    return True


equiv.witness = None


def _cons_closure(sup, constraints):
    """constraints whose (sym, bit) support is connected to sup, and the enlarged support"""
    cons = []
    pending = [(t, v, deps(t)) for (t, v) in constraints]
    changed = True
    while changed:
        changed = False
        rest = []
        for (t, v, d) in pending:
            if d & sup:
                cons.append((t, v))
                if not d <= sup:
                    sup = sup | d
                changed = True
            else:
                rest.append((t, v, d))
        pending = rest
    return sup, cons


def _equiv_constrained(a, b, max_bits, constraints):
    """equivalence on the assignments that satisfy every constraint.  Constraints whose support shares no input bit
    (transitively) with the compared bits are dropped: assuming they are satisfiable they do not restrict those bits."""
    if a is b:
        return True
    if a.bits != b.bits:
        return False
    if _np is None:
        return None
    all_syms = syms(a) | syms(b)
    for (t, _) in constraints:
        all_syms = all_syms | syms(t)

    def run(sup, cons, bit):
        if any(x.startswith("?") for (x, _) in sup):
            return None
        if len(sup) > max_bits:
            return None
        try:
            envs, rows = _assignments(sup)
            zero = _np.zeros(rows, dtype=_np.uint64)
            env = dict((x, envs.get(x, zero)) for x in all_syms)
            memo = {}
            ok = _np.ones(rows, dtype=bool)
            for (t, v) in cons:
                r = _ev(t, env, memo)
                ok &= (_np.asarray(r) == v) if isinstance(r, _np.ndarray) else _np.full(rows, r == v)
            ra = _ev(a, env, memo)
            rb = _ev(b, env, memo)
            ra = ra if isinstance(ra, _np.ndarray) else _np.full(rows, ra, dtype=_np.uint64)
            rb = rb if isinstance(rb, _np.ndarray) else _np.full(rows, rb, dtype=_np.uint64)
            if bit is not None:
                ra = (ra >> _np.uint64(bit)) & _np.uint64(1)
                rb = (rb >> _np.uint64(bit)) & _np.uint64(1)
            ne = _np.nonzero(ok & (ra != rb))[0]
            if len(ne):
                k = int(ne[0])
                equiv.witness = dict((x, int(v[k])) for x, v in env.items())
                equiv.witness["_got"] = int(ra[k])
                equiv.witness["_want"] = int(rb[k])
                if bit is not None:
                    equiv.witness["_bit"] = bit
                return False
            return True
        except NotEvaluable:
            return None

    def closure(base):
        """connected constraints; when their joint support is too wide the widest are dropped (comparing on a
        superset of the admissible inputs: a proof of equality stays valid, a difference does not)"""
        pool = list(constraints)
        weakened = False
        while True:
            sup, cons = _cons_closure(base, pool)
            if len(sup) <= max_bits or not cons:
                return sup, cons, weakened
            widest = max(cons, key=lambda c: len(deps(c[0])))
            pool = [c for c in pool if not (c[0] is widest[0] and c[1] == widest[1])]
            weakened = True

    sup, cons, weak = closure(deps(a) | deps(b))
    if len(sup) <= max_bits:
        r = run(sup, cons, None)
        if r is True or (r is False and not weak):
            return r
    va, vb = bv(a), bv(b)
    for i in range(a.bits):
        xa, xb = va[i], vb[i]
        if xa == xb and not (isinstance(xa, tuple) and xa[0] == "d"):
            continue
        sup, cons, weak = closure(_dep_of(xa) | _dep_of(xb))
        r = run(sup, cons, i)
        if r is False and weak:
            equiv.witness = None
            return None
        if r is not True:
            return r
    return True
