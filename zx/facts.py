"""Load mirfacts JSON into an indexed Program."""
import json
import os

from . import extract
from . import renorm


def _freeze_ty(tab, raw, i, memo):
    if i in memo:
        return memo[i]
    r = raw[i]
    k = r["k"]
    if k == "int":
        t = ("int", r["bits"], r["signed"], r.get("size", False))
    elif k in ("bool", "char", "str", "never"):
        t = (k,)
    elif k == "float":
        t = ("float", r["bits"])
    elif k == "adt":
        t = ("adt", r["path"], tuple(_freeze_arg(tab, raw, a, memo) for a in r["args"]))
    elif k == "array":
        t = ("array", _freeze_ty(tab, raw, r["ty"], memo), r["len"])
    elif k == "slice":
        t = ("slice", _freeze_ty(tab, raw, r["ty"], memo))
    elif k in ("ref", "ptr"):
        t = (k, r["mut"], _freeze_ty(tab, raw, r["ty"], memo))
    elif k == "fndef":
        t = ("fndef", r["path"], tuple(_freeze_arg(tab, raw, a, memo) for a in r["args"]))
    elif k == "closure":
        t = ("closure", r["path"], tuple(_freeze_ty(tab, raw, a, memo) for a in r["upvars"]))
    elif k == "tuple":
        t = ("tuple", tuple(_freeze_ty(tab, raw, a, memo) for a in r["tys"]))
    elif k == "param":
        t = ("param", r["name"], r["index"])
    else:
        t = (k, r.get("text", ""))
    memo[i] = t
    return t


def _freeze_arg(tab, raw, a, memo):
    if isinstance(a, dict):
        return ("const", a["const"])
    return _freeze_ty(tab, raw, a, memo)


class Fn(object):
    __slots__ = ("path", "kind", "local", "vis", "reachable", "assoc", "generics", "span", "body",
                 "promoted", "crate", "T", "files", "names")

    def __repr__(self):
        return "<Fn %s>" % self.path

    def loc(self, span):
        if not span:
            return "?"
        return "%s:%d" % (self.files[span[0]], span[1])

    def macro(self, span):
        return span[2] if span and len(span) > 2 else None


class Program(object):
    def __init__(self, tag="A", directory=None, crates=None):
        self.tag = tag
        d = directory or extract.facts_dir(tag)
        self.dir = d
        self.fns = {}
        self.adts = {}
        self.consts = {}
        self.statics = {}
        self.impls = []  # dicts: trait, trait_args, self_ty, items{trait_item: impl_item}
        self.crates = []
        texts = {}
        order = list(crates or extract.CONFIG_CRATES[tag])
        for c in order:
            p = os.path.join(d, "%s.%s.json" % (c, tag))
            with open(p) as fh:
                texts[c] = fh.read()
        # items renamed / moved since the reference tree are given their reference names back (zx/renorm.py)
        raws = renorm.normalise_all(texts, tag)
        self.renames = [r for r in renorm.APPLIED if r[0] == tag]
        self.arg_perm = dict((k[1], v) for k, v in renorm.ARG_PERM.items() if k[0] == tag)
        for c in order:
            self._add(raws[c])
        renorm.align_members(self, tag)
        self.renames = [r for r in renorm.APPLIED if r[0] == tag]
        self._impl_ix = {}
        for im in self.impls:
            for ti, ii in im["items"].items():
                self._impl_ix.setdefault(ti, []).append((im, ii))
        # impls of library traits are known through the impl methods whose bodies were dumped
        seen = set((ti, ii) for ti, lst in self._impl_ix.items() for (_, ii) in lst)
        for fn in self.fns.values():
            a = fn.assoc
            if fn.local or not a or a.get("container") != "impl" or not a.get("trait_item") or not a.get("trait"):
                continue
            if (a["trait_item"], fn.path) in seen:
                continue
            targs = tuple(_freeze_arg(None, None, x, None) if False else x for x in ())
            im = {"trait": a["trait"]["path"], "trait_args": tuple(fn.T[x] if not isinstance(x, dict) else ("const", x["const"]) for x in a["trait"]["args"]),
                  "self_ty": a["self_ty"], "items": {a["trait_item"]: fn.path}, "crate": "(library)"}
            self._impl_ix.setdefault(a["trait_item"], []).append((im, fn.path))

    def _add(self, raw):
        cname = raw["crate"]
        self.crates.append(cname)
        memo = {}
        T = [_freeze_ty(None, raw["types"], i, memo) for i in range(len(raw["types"]))]
        files = raw["files"]
        for path, a in raw["adts"].items():
            if path in self.adts and not a["local"]:
                continue
            for v in a["variants"]:
                for f in v["fields"]:
                    f["ty"] = T[f["ty"]]
            self.adts[path] = a
        for c in raw["consts"]:
            c["ty"] = T[c["ty"]]
            self.consts[c["path"]] = c
        for c in raw["statics"]:
            c["ty"] = T[c["ty"]]
            self.statics[c["path"]] = c
        for im in raw["impls"]:
            self.impls.append({
                "trait": im["trait"],
                "trait_args": tuple(_freeze_arg(None, raw["types"], a, memo) for a in im["trait_args"]),
                "self_ty": T[im["self_ty"]],
                "items": dict((x[0], x[1]) for x in im["items"]),
                "crate": cname,
            })
        for f in raw["fns"]:
            if f["path"] in self.fns and not f["local"]:
                continue
            fn = Fn()
            fn.path = f["path"]
            fn.kind = f["kind"]
            fn.local = f["local"]
            fn.vis = f["vis"]
            fn.reachable = f["reachable"]
            fn.assoc = f["assoc"]
            if fn.assoc and fn.assoc.get("self_ty") is not None:
                fn.assoc = dict(fn.assoc)
                fn.assoc["self_ty"] = T[fn.assoc["self_ty"]]
            fn.generics = [g[0] for g in f["generics"]]
            fn.span = f["span"]
            fn.body = f["body"]
            fn.promoted = f["promoted"]
            fn.crate = cname
            fn.T = T
            fn.files = files
            fn.names = {}
            for nm in f["body"]["names"]:
                if isinstance(nm[0], int):
                    fn.names[nm[0]] = nm[1]
            self.fns[fn.path] = fn

    # ------------------------------------------------------------ helpers
    def fn(self, path):
        return self.fns[path]

    def find_fns(self, suffix):
        return [f for p, f in self.fns.items() if p.endswith(suffix)]

    def adt(self, path):
        return self.adts.get(path)

    def adt_path(self, crate, name):
        """Unique ADT of `crate` whose last path segment(s) equal `name` (module moves do not matter)."""
        c = [p for p in self.adts if p.startswith(crate + "::") and (p.endswith("::" + name))]
        if len(c) != 1:
            raise KeyError("anchor: ADT %s::…::%s matches %d items %s" % (crate, name, len(c), c))
        return c[0]

    def fn_path(self, crate, name):
        """Unique function of `crate` whose path ends with ::name."""
        c = [p for p in self.fns if p.startswith(crate + "::") and p.endswith("::" + name)]
        if len(c) != 1:
            c2 = [p for p in self.fns if p.startswith("<" + crate + "::") and p.endswith("::" + name)]
            if len(c) == 0 and len(c2) == 1:
                return c2[0]
            raise KeyError("anchor: fn %s::…::%s matches %d items %s" % (crate, name, len(c), c[:5]))
        return c[0]

    def field_index(self, adt_path, name, variant=0):
        a = self.adts[adt_path]
        for i, f in enumerate(a["variants"][variant]["fields"]):
            if f["name"] == name:
                return i
        raise KeyError("%s has no field %s" % (adt_path, name))

    def field_name(self, adt_path, idx, variant=0):
        a = self.adts.get(adt_path)
        if not a:
            return str(idx)
        try:
            return a["variants"][variant]["fields"][idx]["name"]
        except (IndexError, KeyError):
            return str(idx)

    def variant_index(self, adt_path, name):
        a = self.adts[adt_path]
        for i, v in enumerate(a["variants"]):
            if v["name"] == name:
                return i
        raise KeyError("%s has no variant %s" % (adt_path, name))

    def variant_names(self, adt_path):
        return [v["name"] for v in self.adts[adt_path]["variants"]]

    def impl_candidates(self, trait_item):
        return self._impl_ix.get(trait_item, [])

    def local_fns(self):
        return [f for f in self.fns.values() if f.local]


# ---------------------------------------------------------------- type utilities

def subst_ty(t, env):
    """Substitute ('param', name, idx) using env: dict name -> ty."""
    if not env:
        return t
    k = t[0]
    if k == "param":
        return env.get(t[1], t)
    if k == "adt":
        return ("adt", t[1], tuple(a if a[0] == "const" else subst_ty(a, env) for a in t[2]))
    if k == "fndef":
        return ("fndef", t[1], tuple(a if a[0] == "const" else subst_ty(a, env) for a in t[2]))
    if k in ("ref", "ptr"):
        return (k, t[1], subst_ty(t[2], env))
    if k == "array":
        return ("array", subst_ty(t[1], env), t[2])
    if k == "slice":
        return ("slice", subst_ty(t[1], env))
    if k == "tuple":
        return ("tuple", tuple(subst_ty(x, env) for x in t[1]))
    if k == "closure":
        return ("closure", t[1], tuple(subst_ty(x, env) for x in t[2]))
    return t


def unify(pat, ty, env):
    """Match pattern type (with params) against concrete type, binding params in env. True on success."""
    if pat[0] == "param":
        cur = env.get(pat[1])
        if cur is None:
            env[pat[1]] = ty
            return True
        return cur == ty
    if pat[0] != ty[0]:
        return False
    k = pat[0]
    if k == "adt" or k == "fndef":
        if pat[1] != ty[1] or len(pat[2]) != len(ty[2]):
            return False
        for a, b in zip(pat[2], ty[2]):
            if a[0] == "const" or b[0] == "const":
                if a != b:
                    return False
                continue
            if not unify(a, b, env):
                return False
        return True
    if k in ("ref", "ptr"):
        return unify(pat[2], ty[2], env)
    if k == "array":
        return pat[2] == ty[2] and unify(pat[1], ty[1], env)
    if k == "slice":
        return unify(pat[1], ty[1], env)
    if k == "tuple":
        return len(pat[1]) == len(ty[1]) and all(unify(a, b, env) for a, b in zip(pat[1], ty[1]))
    return pat == ty


def ty_bits(t):
    k = t[0]
    if k == "int":
        return t[1]
    if k == "bool":
        return 1
    if k == "char":
        return 32
    if k == "float":
        return t[1]
    return None


def ty_str(t):
    k = t[0]
    if k == "int":
        if t[3]:
            return "isize" if t[2] else "usize"
        return ("i" if t[2] else "u") + str(t[1])
    if k in ("bool", "char", "str", "never"):
        return {"never": "!"}.get(k, k)
    if k == "float":
        return "f%d" % t[1]
    if k == "adt":
        if t[2]:
            return "%s<%s>" % (t[1], ", ".join(ty_str(a) if a[0] != "const" else str(a[1]) for a in t[2]))
        return t[1]
    if k == "ref":
        return "&%s%s" % ("mut " if t[1] else "", ty_str(t[2]))
    if k == "ptr":
        return "*%s%s" % ("mut " if t[1] else "const ", ty_str(t[2]))
    if k == "array":
        return "[%s; %s]" % (ty_str(t[1]), t[2])
    if k == "slice":
        return "[%s]" % ty_str(t[1])
    if k == "tuple":
        return "(%s)" % ", ".join(ty_str(x) for x in t[1])
    if k == "param":
        return t[1]
    if k == "closure":
        return "{closure %s}" % t[1]
    if k == "fndef":
        return "fn %s" % t[1]
    return "%s" % (t,)
