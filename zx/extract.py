"""Run the mirfacts driver over /repo's current working tree (cached by tree hash)."""
import fcntl
import hashlib
import os
import shutil
import subprocess
import sys
import time

VERIF = os.path.dirname(os.path.dirname(os.path.abspath(__file__)))
REPO = os.environ.get("VERIF_REPO", "/repo")
DRIVER = os.path.join(VERIF, "tools/mirfacts/target/release/mirfacts")
CACHE = os.path.join(VERIF, ".cache")
WORK = os.path.join(VERIF, ".work")
CRATES = ["rustzx_z80", "rustzx_core", "aym", "vtx", "rustzx_utils"]
CRATE_DIRS = ["rustzx-z80", "rustzx-core", "aym", "vtx", "rustzx-utils"]

CONFIGS = {
    # tag: (packages, features)
    "A": (["rustzx-z80", "aym", "vtx", "rustzx-core", "rustzx-utils"],
          "rustzx-core/full,rustzx-utils/std"),
    "B": (["rustzx-z80", "rustzx-core"], None),
}
CONFIG_CRATES = {"A": CRATES, "B": ["rustzx_z80", "rustzx_core"]}


def tree_hash(repo=REPO):
    h = hashlib.sha256()
    files = []
    for top in CRATE_DIRS:
        base = os.path.join(repo, top)
        for root, dirs, fs in os.walk(base):
            dirs[:] = sorted(d for d in dirs if d not in ("target", ".git"))
            for f in sorted(fs):
                files.append(os.path.join(root, f))
    for f in ("Cargo.toml", "Cargo.lock"):
        files.append(os.path.join(repo, f))
    for p in files:
        try:
            with open(p, "rb") as fh:
                data = fh.read()
        except OSError:
            continue
        h.update(os.path.relpath(p, repo).encode())
        h.update(b"\0")
        h.update(hashlib.sha256(data).digest())
    try:
        st = os.stat(DRIVER)
        h.update(("%d:%d" % (st.st_size, int(st.st_mtime))).encode())
    except OSError:
        h.update(b"nodriver")
    return h.hexdigest()[:24]


def _sysroot_lib():
    out = subprocess.run(["rustc", "+nightly", "--print", "sysroot"], capture_output=True, text=True,
                         check=True).stdout.strip()
    return os.path.join(out, "lib")


def ensure_driver():
    if not os.path.exists(DRIVER):
        subprocess.run(["cargo", "build", "--release", "--offline"],
                       cwd=os.path.join(VERIF, "tools/mirfacts"), check=True,
                       env=dict(os.environ, CARGO_NET_OFFLINE="true"))


def _prune_cache(keep):
    try:
        ents = [os.path.join(CACHE, e) for e in os.listdir(CACHE) if not e.endswith(".lock")]
    except OSError:
        return
    ents = [e for e in ents if os.path.isdir(e)]
    ents.sort(key=lambda e: os.stat(e).st_mtime, reverse=True)
    for e in ents[14:]:
        if os.path.basename(e) != keep:
            shutil.rmtree(e, ignore_errors=True)


def facts_dir(tag="A", repo=REPO, verbose=True):
    """Return a directory holding <crate>.<tag>.json for the current tree; extract if needed."""
    os.makedirs(CACHE, exist_ok=True)
    os.makedirs(WORK, exist_ok=True)
    ensure_driver()
    key = tree_hash(repo)
    d = os.path.join(CACHE, key)
    want = [os.path.join(d, "%s.%s.json" % (c, tag)) for c in CONFIG_CRATES[tag]]
    lock = open(os.path.join(CACHE, "extract.lock"), "w")
    fcntl.flock(lock, fcntl.LOCK_EX)
    try:
        if all(os.path.exists(w) for w in want):
            os.utime(d, None)
            return d
        os.makedirs(d, exist_ok=True)
        t0 = time.time()
        tgt = os.path.join(WORK, "tgt-%s-%s-%d" % (key, tag, os.getpid()))
        shutil.rmtree(tgt, ignore_errors=True)
        pkgs, feats = CONFIGS[tag]
        cmd = ["cargo", "+nightly", "check", "--offline"]
        for p in pkgs:
            cmd += ["-p", p]
        if feats:
            cmd += ["--features", feats]
        env = dict(os.environ)
        env.update({
            "LD_LIBRARY_PATH": _sysroot_lib() + ":" + env.get("LD_LIBRARY_PATH", ""),
            "RUSTFLAGS": "-Zallow-features= -Zmir-opt-level=0 -Awarnings",
            "RUSTC_WORKSPACE_WRAPPER": DRIVER,
            "CARGO_TARGET_DIR": tgt,
            "CARGO_NET_OFFLINE": "true",
            "MIRFACTS_OUT": d,
            "MIRFACTS_TAG": tag,
        })
        env.pop("RUSTC_WRAPPER", None)
        start = time.time()
        r = subprocess.run(cmd, cwd=repo, env=env, capture_output=True, text=True)
        shutil.rmtree(tgt, ignore_errors=True)
        if r.returncode != 0:
            sys.stderr.write(r.stdout[-4000:] + r.stderr[-8000:])
            raise RuntimeError("mirfacts extraction failed (cargo check exit %d)" % r.returncode)
        for w in want:
            if not os.path.exists(w) or os.stat(w).st_mtime < start - 1:
                raise RuntimeError("mirfacts did not produce %s (wrapper skipped?)" % w)
        if verbose:
            sys.stderr.write("[extract] config %s: %.1fs -> %s\n" % (tag, time.time() - t0, d))
        _prune_cache(key)
        return d
    finally:
        fcntl.flock(lock, fcntl.LOCK_UN)
        lock.close()


if __name__ == "__main__":
    print(facts_dir(sys.argv[1] if len(sys.argv) > 1 else "A"))
