"""CPU queries: specialise Z80::emulate to one encoding by scripting the opcode fetches."""
from . import term as tm
from .term import K, T
from .walk import Walker, Agg, SymObj, Ref, Opaque, Effect
from . import builtins  # noqa: F401  (registers models)

Z80 = "rustzx_z80::cpu::Z80"
EMULATE = "rustzx_z80::cpu::Z80::emulate"
BUS = "rustzx_z80::bus::Z80Bus::"
CPU = ("h", "cpu")
BUSOBJ = ("h", "bus")

PRIMS = ("wait_mreq", "wait_no_mreq", "wait_internal", "read_internal", "write_internal", "read_io",
         "write_io", "read_interrupt", "halt", "reti", "pc_callback", "process_unknown_opcode",
         "int_active", "nmi_active")


def cpu_state(w, prog, skip_interrupt=True, pending_prefix="None", overrides=None):
    st = w.new_state()
    PREFIX = prog.adt_path("rustzx_z80", "Prefix")
    cpu = w.materialise(SymObj("cpu", ("adt", Z80, ())), st)
    fi = lambda n: prog.field_index(Z80, n)
    if skip_interrupt is not None:
        cpu = cpu.with_field(fi("skip_interrupt"), tm.TRUE if skip_interrupt else tm.FALSE)
    if pending_prefix is not None:
        cpu = cpu.with_field(fi("active_prefix"), Agg(("adt", PREFIX), prog.variant_index(PREFIX, pending_prefix), ()))
    cpu = cpu.with_field(fi("regs"), symbolic_regs(prog, w, st))
    for k, v in (overrides or {}).items():
        cpu = cpu.with_field(fi(k), v)
    st.store[CPU] = cpu
    st.store[BUSOBJ] = Opaque("bus")
    return st


def make_fetch_hook(encoding, nmi=False, intr=None, extra=None, shift=0):
    """encoding: list of ints / None (None = symbolic operand byte).  Reads at PC0+k return byte k+shift of the
    encoding (operand symbols are named op{k+shift}); data reads are named rd{n}, port reads io{n} by their order."""
    pc0 = tm.sym("PC", 16)

    def hook(w, st, path, args, dest_ty, where):
        if not path.startswith(BUS):
            return extra(w, st, path, args, dest_ty, where) if extra else None
        name = path[len(BUS):]
        if name == "read_internal":
            addr = args[1]
            if isinstance(addr, T):
                base, off = tm.affine(addr)
                if base is pc0:
                    off = (off & 0xFFFF) + shift
                    if off < len(encoding) and encoding[off] is not None:
                        return K(encoding[off], 8)
                    if off < 8:
                        return tm.sym("op%d" % off, 8)
            n = sum(1 for e in st.trace if e.path == path and isinstance(e.ret, T) and e.ret.op == "sym"
                    and e.ret.args[0].startswith("rd"))
            return tm.sym("rd%d" % n, 8)
        if name == "read_io":
            n = sum(1 for e in st.trace if e.path == path)
            return tm.sym("io%d" % n, 8)
        if name == "nmi_active":
            return tm.TRUE if nmi else tm.FALSE
        if name == "int_active" and intr is not None:
            return tm.TRUE if intr else tm.FALSE
        return extra(w, st, path, args, dest_ty, where) if extra else None
    return hook


def run_encoding(prog, encoding, pending_prefix="None", skip_interrupt=True, walker=None, overrides=None,
                 nmi=False, intr=None):
    w = walker or Walker(prog)
    w.effect_hook = make_fetch_hook(encoding, nmi=nmi, intr=intr)
    st = cpu_state(w, prog, skip_interrupt=skip_interrupt, pending_prefix=pending_prefix, overrides=overrides)
    fn = prog.fn(EMULATE)
    return w.run(fn, [Ref(CPU, (), True), Ref(BUSOBJ, (), True)], genv={}, state=st)


def prim_trace(path_result):
    out = []
    for e in path_result.trace:
        if e.path.startswith(BUS):
            out.append((e.path[len(BUS):],) + tuple(e.args[1:]) + ((e.ret,) if isinstance(e.ret, T) else ()))
        else:
            out.append((e.path,) + tuple(e.args))
    return out


# ---------------------------------------------------------------- register roles (bound through the public accessors)

_ROLE_CACHE = {}

PAIRS = {"BC": ("B", "C"), "DE": ("D", "E"), "HL": ("H", "L"), "IX": ("IXH", "IXL"), "IY": ("IYH", "IYL"),
         "BC'": ("B'", "C'"), "DE'": ("D'", "E'"), "HL'": ("H'", "L'")}


def _run_method(prog, w, regs_path, name, regs_val, extra_args=()):
    st = w.new_state()
    st.store[("h", "regs")] = regs_val
    fn = prog.fn(prog.fn_path("rustzx_z80", "Regs::" + name))
    rs = w.run(fn, [Ref(("h", "regs"), (), True)] + list(extra_args), genv={}, state=st)
    if len(rs) != 1 or rs[0].outcome != "return":
        raise KeyError("anchor: Regs::%s did not evaluate to a single path (%r)" % (name, [(r.outcome, r.detail) for r in rs]))
    return rs[0]


def bind_roles(prog):
    """role name -> field index of Regs, derived from what the public accessors read / swap."""
    if id(prog) in _ROLE_CACHE:
        return _ROLE_CACHE[id(prog)]
    REGS = prog.adt_path("rustzx_z80", "Regs")
    w = Walker(prog)
    adt = prog.adt(REGS)
    fields = adt["variants"][0]["fields"]
    st0 = w.new_state()
    base = w.materialise(SymObj("regs", ("adt", REGS, ())), st0)
    name2idx = dict(("regs.%s" % f["name"], i) for i, f in enumerate(fields))
    roles = {}

    def fields_of(term):
        b = tm.bv(term)
        out = []
        for k in range(0, term.bits, 8):
            chunk = b[k:k + 8] if term.bits >= 8 else b
            src = set()
            for j, x in enumerate(chunk):
                if not (isinstance(x, tuple) and x[0] == "c" and not x[3]):
                    return None
                src.add((x[1], x[2] - j))
            if len(src) != 1:
                return None
            nm, off = src.pop()
            out.append((name2idx[nm], off))
        return out

    for getter, role in (("get_pc", "PC"), ("get_sp", "SP"), ("get_mem_ptr", "MEMPTR")):
        r = _run_method(prog, w, REGS, getter, base)
        fs = fields_of(r.ret)
        if not fs or fs[0][0] != fs[1][0]:
            raise KeyError("anchor: Regs::%s is not a single 16-bit field" % getter)
        roles[role] = fs[0][0]
    for getter, hi, lo in (("get_af", "A", "F"), ("get_bc", "B", "C"), ("get_de", "D", "E"), ("get_hl", "H", "L"),
                           ("get_ix", "IXH", "IXL"), ("get_iy", "IYH", "IYL")):
        r = _run_method(prog, w, REGS, getter, base)
        fs = fields_of(r.ret)
        if not fs or len(fs) != 2 or fs[0][1] != 0 or fs[1][1] != 0:
            raise KeyError("anchor: Regs::%s is not a pair of byte fields" % getter)
        roles[lo] = fs[0][0]
        roles[hi] = fs[1][0]
    for getter, role in (("get_i", "I"), ("get_r", "R"), ("get_iff1", "IFF1"), ("get_iff2", "IFF2"),
                         ("get_last_q", "LAST_Q")):
        r = _run_method(prog, w, REGS, getter, base)
        b = tm.bv(r.ret)
        if not (isinstance(b[0], tuple) and b[0][0] == "c"):
            raise KeyError("anchor: Regs::%s is not a field read" % getter)
        roles[role] = name2idx[b[0][1]]
    # Q: the field step_q moves into LAST_Q
    r = _run_method(prog, w, REGS, "step_q", base)
    after = r.store[("h", "regs")]
    lq = after.fields[roles["LAST_Q"]]
    b = tm.bv(lq)
    roles["Q"] = name2idx[b[0][1]]
    # alternates: what exx / swap_af_alt exchange
    for meth, rs_ in (("exx", ("B", "C", "D", "E", "H", "L")), ("swap_af_alt", ("A", "F"))):
        r = _run_method(prog, w, REGS, meth, base)
        after = r.store[("h", "regs")]
        for ro in rs_:
            v = after.fields[roles[ro]]
            b = tm.bv(v)
            if not (isinstance(b[0], tuple) and b[0][0] == "c"):
                raise KeyError("anchor: Regs::%s does not swap %s with a field" % (meth, ro))
            roles[ro + "'"] = name2idx[b[0][1]]
    if len(set(roles.values())) != len(roles):
        raise KeyError("anchor: register roles are not distinct fields: %r" % roles)
    roles["_regs_path"] = REGS
    roles["_nfields"] = len(fields)
    _ROLE_CACHE[id(prog)] = roles
    return roles


def role_symbols():
    """Initial symbolic values per role (pair symbols for the 16-bit pairs)."""
    s = {}
    for r in ("PC", "SP", "MEMPTR"):
        s[r] = tm.sym(r, 16)
    for r in ("A", "F", "I", "R", "Q", "LAST_Q", "A'", "F'"):
        s[r] = tm.sym(r, 8)
    for r in ("IFF1", "IFF2"):
        s[r] = tm.sym(r, 1)
    for p, (hi, lo) in PAIRS.items():
        ps = tm.sym(p, 16)
        s[p] = ps
        s[hi] = tm.trunc(tm.binop("lshr", ps, K(8, 16)), 8)
        s[lo] = tm.trunc(ps, 8)
    return s


def symbolic_regs(prog, w, st):
    roles = bind_roles(prog)
    syms = role_symbols()
    regs = w.materialise(SymObj("cpu.regs", ("adt", roles["_regs_path"], ())), st)
    for role, idx in roles.items():
        if role.startswith("_"):
            continue
        regs = regs.with_field(idx, syms[role])
    return regs
