"""Verdict plumbing: obligations, violations, known findings, evidence files."""
import json
from . import renorm
import os
import re
import sys
import time

VERIF = os.path.dirname(os.path.dirname(os.path.abspath(__file__)))
KNOWN = os.path.join(VERIF, "known_findings.txt")

TRUSTED_BASE = [
    "rustc nightly MIR construction at mir-opt-level=0 (cargo +nightly check of /repo's working tree)",
    "tools/mirfacts (serialisation of MIR, ADTs, evaluated consts/statics, trait-impl table)",
    "zx/walk.py + zx/term.py (abstract interpreter, constant folding, bit provenance)",
]


def load_known():
    """known: property=<id> key=<key> <text>   |   fixed: property=<id> <commit> <text>"""
    known = {}
    fixed = []
    if not os.path.exists(KNOWN):
        return known, fixed
    for line in open(KNOWN):
        line = line.strip()
        if not line or line.startswith("#"):
            continue
        m = re.match(r"known:\s+property=(\S+)\s+key=(\S+)\s*(.*)$", line)
        if m:
            known[(m.group(1), m.group(2))] = m.group(3)
            continue
        m = re.match(r"fixed:\s+property=(\S+)\s+(\S+)\s*(.*)$", line)
        if m:
            fixed.append((m.group(1), m.group(2), m.group(3)))
    return known, fixed


def _safe(s):
    return re.sub(r"[^A-Za-z0-9_.+-]", "_", s)[:150]


class Check(object):
    def __init__(self, pid, tier="quick", level="other", seed=0):
        self.pid = pid
        self.tier = tier
        self.level = level
        self.seed = seed
        self.t0 = time.time()
        self.obligations = 0
        self.discharged = 0
        self.violations = []   # (key, msg, detail)
        self.samples = []
        self.notes = []
        self.counts = {}
        self.rules = []
        self.undecided = []
        self.assumptions = []
        self.observations = []
        self.open_list = []

    # -------------------------------------------------------------- recording
    def rule(self, name, text):
        self.rules.append({"rule": name, "text": text})

    def count(self, name, n=1):
        self.counts[name] = self.counts.get(name, 0) + n

    def ok(self, n=1):
        self.obligations += n
        self.discharged += n

    def fail(self, key, msg, detail=None):
        """one obligation failed; key = rule/def-path/instance (no line numbers)"""
        self.obligations += 1
        for v in self.violations:
            if v[0] == key:
                return
        self.violations.append((key, msg, detail or {}))

    def check(self, cond, key, msg, detail=None):
        if cond:
            self.ok()
        else:
            self.fail(key, msg, detail)
        return cond

    def undecided_(self, key, msg, detail=None):
        """fail closed: the analysis could not decide"""
        self.fail("UNDECIDED/" + key, "UNDECIDED: " + msg, detail)

    def open_(self, key, msg):
        """an obligation the analysis could neither discharge nor refute, for value-level comparisons whose
        decidability is heuristic: recorded (evidence, OPEN line) but not an alarm"""
        self.obligations += 1
        if len(self.open_list) < 200:
            self.open_list.append((key, msg))

    def floor(self, name, minimum):
        """instance-count floor: a rule matching fewer sites than counted by hand went blind"""
        n = self.counts.get(name, 0)
        if n < minimum:
            self.undecided_("floor/" + name, "rule instance count %s = %d below the floor %d (rule went blind or anchor lost)" % (name, n, minimum))
        else:
            self.ok()

    def sample(self, s):
        if len(self.samples) < 12:
            self.samples.append(s)

    def observe(self, text):
        self.observations.append(text)

    # -------------------------------------------------------------- finishing
    def finish(self, explanation, checker_cmd=None, extra=None):
        known, fixed = load_known()
        wall = time.time() - self.t0
        rep_dir = os.path.join(VERIF, "reports", self.pid)
        os.makedirs(rep_dir, exist_ok=True)
        new = []
        kf = []
        for (key, msg, detail) in self.violations:
            if (self.pid, key) in known:
                kf.append((key, msg))
            else:
                new.append((key, msg, detail))
        out = []
        for (key, msg) in kf:
            out.append("KNOWN-FINDING: property=%s %s %s" % (self.pid, key, msg))
        for (key, msg, detail) in new:
            path = os.path.join(rep_dir, _safe(key) + ".json")
            with open(path, "w") as fh:
                json.dump({"property": self.pid, "key": key, "message": msg, "detail": _jsonable(detail),
                           "tier": self.tier}, fh, indent=1)
            out.append("VIOLATION property=%s replay=%s" % (self.pid, path))
            out.append("  %s: %s" % (key, msg))
        level = self.level
        cov = {
            "obligations": self.obligations,
            "discharged": self.discharged,
            "checker_cmd": checker_cmd or ("./check %s --tier %s" % (self.pid, self.tier)),
            "trusted_base": TRUSTED_BASE,
            "explanation": explanation,
            "rules": self.rules,
            "instance_counts": self.counts,
            "samples": [_jsonable(s) for s in self.samples] or ["(none)"],
            "known_findings_reported": [k for (k, _) in kf],
            "observations": self.observations,
            "open_obligations": ["%s: %s" % (k, m) for (k, m) in self.open_list],
            "items_identified_with_reference_names": ["%s/%s %s: %s -> %s" % r for r in sorted(set(renorm.APPLIED))],
        }
        if level == "proof" and self.discharged != self.obligations:
            level = "other"
            cov["explanation"] = ("[downgraded from proof: %d of %d obligations open] " % (
                self.obligations - self.discharged, self.obligations)) + explanation
        if extra:
            cov.update(extra)
        ev = {
            "property_id": self.pid,
            "tier": self.tier,
            "seed": self.seed,
            "level": level,
            "coverage": cov,
            "assumptions": self.assumptions,
            "wall_s": round(wall, 2),
            "violations": len(new),
        }
        os.makedirs(os.path.join(VERIF, "evidence"), exist_ok=True)
        ev_path = os.path.join(VERIF, "evidence", "%s.json" % self.pid)
        if os.environ.get("VERIF_SECOND_PASS"):
            # second pass of the thorough tier (other build configuration): merged by ./check into the main file
            ev_path = os.path.join(rep_dir, "_evidence_%s.json" % os.environ["VERIF_SECOND_PASS"])
        with open(ev_path, "w") as fh:
            json.dump(ev, fh, indent=1)
        for (k, m) in self.open_list[:20]:
            out.append("OPEN: property=%s %s %s" % (self.pid, k, m))
        rn = sorted(set((r[2], r[3], r[4]) for r in renorm.APPLIED))
        if rn:
            out.append("NOTE: %d renamed / moved item(s) analysed under their reference names (listed in the evidence), e.g. %s" % (
                len(rn), "; ".join("%s %s -> %s" % (k, a.rsplit("::", 1)[-1], b.rsplit("::", 1)[-1]) for k, a, b in rn[:4])))
        for line in out:
            print(line)
        print("[%s] tier=%s obligations=%d discharged=%d known=%d new=%d wall=%.1fs" % (
            self.pid, self.tier, self.obligations, self.discharged, len(kf), len(new), wall))
        sys.stdout.flush()
        return 1 if new else 0


def _jsonable(x):
    if isinstance(x, dict):
        return dict((str(k), _jsonable(v)) for k, v in x.items())
    if isinstance(x, (list, tuple, set, frozenset)):
        return [_jsonable(v) for v in x]
    if isinstance(x, (int, float, str, bool)) or x is None:
        return x
    return repr(x)


class FilteredCheck(object):
    """View of a Check used when one property's check borrows a rule that lives in another property's module: only
    the obligations whose key satisfies `accept` are forwarded (passes and failures alike); counters are prefixed so that
    the borrowing check keeps its own floors.  Fail-closed reports (UNDECIDED) of the borrowed rule are always forwarded."""

    def __init__(self, chk, accept, tag):
        self._c, self._accept, self._tag = chk, accept, tag
        self.tier, self.seed, self.pid = chk.tier, chk.seed, chk.pid
        self.forwarded = 0

    def rule(self, name, text):
        pass

    def count(self, name, n=1):
        self._c.count("%s:%s" % (self._tag, name), n)

    def floor(self, name, minimum):
        self._c.floor("%s:%s" % (self._tag, name), minimum)

    def ok(self, n=1):
        pass

    def fail(self, key, msg, detail=None):
        if self._accept(key):
            self.forwarded += 1
            self._c.fail(key, msg, detail)

    def check(self, cond, key, msg, detail=None):
        if self._accept(key):
            self.forwarded += 1
            self._c.check(cond, key, msg, detail)

    def undecided_(self, key, msg, detail=None):
        self._c.undecided_(key, msg, detail)

    def open_(self, key, msg):
        if self._accept(key):
            self._c.open_(key, msg)

    def sample(self, s):
        pass

    def observe(self, text):
        pass
