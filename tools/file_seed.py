#!/usr/bin/env python3
"""File a confirmed seeded change under /verif/seeded/<name>/ from a scratch worktree's _seed/ directory.
usage: file_seed.py <worktree> <tag> <name> <property> <breaks> <needs> <demo cargo args> <detected_by>...
Reads /var/tmp/seed-<tag>-summary.txt (written by tools/confirm_seed.sh) and refuses unless build=0 suite=0 demo-with!=0 demo-without=0."""
import json, os, re, shutil, sys
wt, tag, name, prop, breaks, needs, demo = sys.argv[1:8]
det = sys.argv[8:]
summ = open("/var/tmp/seed-%s-summary.txt" % tag).read().strip().splitlines()[-1]
m = re.search(r"build=(\d+) suite=(\d+) \(ok-lines (\d+), failed-lines (\d+)\) demo-with=(\d+) demo-without=(\d+)", summ)
b, s, okl, fl, dw, dwo = map(int, m.groups())
if not (b == 0 and s == 0 and fl == 0 and dw != 0 and dwo == 0):
    sys.exit("NOT CONFIRMED: " + summ)
d = "/verif/seeded/" + name
os.makedirs(d, exist_ok=True)
for f in ("patch.diff", "demo.diff", "README.md"):
    shutil.copy(os.path.join(wt, "_seed", f), os.path.join(d, f))
meta = {
    "property": prop, "breaks": "Seeded change: " + breaks, "needs_to_manifest": needs,
    "origin": "fresh sub-agent given only the property text (plus a hint which aspect had been done already) and a scratch worktree",
    "confirmed_by_me": {"worktree": "scratch git worktree of /repo under /tmp (removed afterwards)", "ran": [
        "git apply patch.diff; cargo build --workspace --offline -> ok",
        "cargo test --workspace --no-fail-fast --offline -> exit 0, %d 'test result: ok' lines, 0 failed" % okl,
        "git apply demo.diff; cargo test %s --offline -> FAILED" % demo,
        "git apply -R patch.diff; cargo test %s --offline -> ok" % demo]},
    "checks_run": "git -C /repo apply seeded/%s/patch.diff; ./check %s; git -C /repo checkout -- ." % (name, prop),
    "detected_by": det}
json.dump(meta, open(os.path.join(d, "meta.json"), "w"), indent=1)
print("filed", d, summ)
