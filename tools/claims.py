# claim(pid, category, technique, text, note, design_ref)
claim("C03", "proof",
      "abstract interpretation of MIR (SCCP specialisation per opcode) + effect-trace comparison with a documented M-cycle table",
      "For all 1792 encodings the complete set of bus traces of Z80::emulate (operands/registers/memory symbolic) equals the documented M-cycle sequences, incl. address class per cycle and the predicate selecting each timing variant; interrupt entry totals 13/19/11.",
      "Trusted: rustc MIR building, mirfacts serialisation, zxwalk transfer functions, oracle/z80.py (self-checked against documented totals). Not decided: machine-side contention (C04).",
      "DESIGN.md §3 C03")
