# claim(pid, category, technique, text, note, design_ref)
claim("C03", "proof",
      "abstract interpretation of MIR (SCCP specialisation per opcode) + effect-trace comparison with a documented M-cycle table",
      "For all 1792 encodings the complete set of bus traces of Z80::emulate (operands/registers/memory symbolic) equals the documented M-cycle sequences, incl. address class per cycle and the predicate selecting each timing variant; interrupt entry totals 13/19/11.",
      "Trusted: rustc MIR building, mirfacts serialisation, zxwalk transfer functions, oracle/z80.py (self-checked against documented totals). Not decided: machine-side contention (C04).",
      "DESIGN.md §3 C03")
claim("C02", "proof",
      "abstract interpretation of MIR: complete path sets of Z80::emulate with symbolic line levels/flip-flops; guards, post-states and sibling traces checked by constants and bit provenance",
      "All paths of one emulate step with symbolic skip/halted/IFF/mode/NMI/INT are classified and checked (guard, NMI-first, IFF effects, HALT release, pushed PC, vector provenance); pending-prefix => skip_interrupt over all 1792 encodings; 768 pending-prefix sibling comparisons; HALT and RETN/RETI post-states.",
      "Trusted: rustc MIR building, mirfacts, zxwalk. Not decided: when the machine asserts INT (C05).",
      "DESIGN.md §3 C02")
claim("C01", "other",
      "abstract interpretation of MIR per opcode (SCCP) + evaluated-constant tables + sibling comparison + bit provenance",
      "Clause-limited: decode totality of all 1792 encodings (no reachable panic), flag lookup tables equal arithmetic closed forms, DD/FD in front of non-HL opcodes is a timing-only prefix (sibling comparison of traces and final states), undefined ED = NOP, MEMPTR provenance for LD (rr|nn),A / OUT (n),A.",
      "Not decided: arithmetic results and affected-flag values of ALU/rotate/block instructions (value-level) unless the exact-semantics clause (D6) is armed. Trusted: rustc MIR, mirfacts, zxwalk, term equivalence by truth table over extracted closed forms.",
      "DESIGN.md §3 C01")
