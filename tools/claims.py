# claim(pid, category, technique, text, note, design_ref)
claim("C03", "proof",
      "abstract interpretation of MIR (SCCP specialisation per opcode) + effect-trace comparison with a documented M-cycle table",
      "For all 1792 encodings the complete set of bus traces of Z80::emulate (operands/registers/memory symbolic) equals the documented M-cycle sequences, incl. address class per cycle and the predicate selecting each timing variant; interrupt entry totals 13/19/11.",
      "Trusted: rustc MIR building, mirfacts serialisation, zxwalk transfer functions, oracle/z80.py (self-checked against documented totals). Not decided: machine-side contention (C04).",
      "DESIGN.md §3 C03")
claim("C02", "proof",
      "abstract interpretation of MIR: complete path sets of Z80::emulate with symbolic line levels/flip-flops; guards, post-states and sibling traces checked by constants and bit provenance",
      "All paths of one emulate step with symbolic skip/halted/IFF/mode/NMI/INT are classified and checked (guard, NMI-first, IFF effects, HALT release, pushed PC, vector provenance); pending-prefix => skip_interrupt over all 1792 encodings; 768 pending-prefix sibling comparisons; HALT and RETN/RETI post-states.",
      "Trusted: rustc MIR building, mirfacts, zxwalk. Not decided: when the machine asserts INT (C05).",
      "DESIGN.md §3 C02")
claim("C01", "other",
      "abstract interpretation of MIR per opcode (SCCP) yielding closed-form terms of every final register/flag/bus event; equivalence of those terms with a symbolic Z80 reference by exhaustive finite-domain tabulation under path constraints, ripple-carry normal form and cut points for wide adders; evaluated-constant tables; sibling comparison; bit provenance",
      "For each of the 1780 non-prefix encodings and every path of Z80::emulate: all final registers, F (all 8 bits), MEMPTR, Q, PC, SP, IFF1/2, interrupt mode, HALT/EI state and the ordered memory/port accesses with addresses and data equal the documented NMOS Z80 result for all operand values (64 708 equalities proved, none open), incl. the flags of a repeated block iteration; decode totality (no reachable panic), flag tables = closed forms, DD/FD in front of non-HL opcodes timing-only, undefined ED = NOP.",
      "Level 'other': the reference model (oracle/z80sem.py) is written from the documentation by the same author and is trusted; instruction *sequences* are covered only through MEMPTR/Q being part of the compared state. An equality the procedure cannot decide is reported as OPEN (none on this tree), a difference only with a concrete witness. Trusted: rustc MIR, mirfacts, zxwalk, zx/term.py + zx/cec.py.",
      "DESIGN.md §3 C01")
claim("C04", "other",
      "constant propagation through the spec builders + extraction of the delay function as a piecewise closed form tabulated against the documented formula + path-sensitive effect traces of the controller's bus methods; per-encoding bus-trace extraction vs the documented M-cycle table (rule shared with C03)",
      "Machine constants, the delay function over every T of the frame, the contended-bank tables, the guard/pairing of the delay in wait_mreq/wait_no_mreq, and the four port wait patterns of read_io/write_io are decided for both machines. Which cycles an instruction performs, their lengths and the address on every single internal T-state (shared with C03).",
      "Not decided: per-instruction totals at every beam position (composition of C03 traces with the delay table). The statement's '(T-T0) mod 8' is read per picture line (the ULA fetch cycle restarts each line; identical on the 48K, differs on the 128K where 228 is not a multiple of 8).",
      "DESIGN.md §3 C04")
claim("C05", "other",
      "constant propagation + tabulated summary of int_active + mod-ref (writers/readers/callers) + path post-conditions of wait_internal; SZX Z80R chunk-arm rule for the restored frame clock (shared with C14)",
      "Frame length and INT window constants; int_active == (T mod frame < 32) for every clock of two frames; the frame clock is only advanced by wait_internal and reduced by exactly one frame length in new_frame (overrun carried); frame counter discipline. The only writer of the frame clock outside the bus methods (SZX Z80R) stores the file's 32-bit clock.",
      "Not decided: exactly one interrupt per frame (depends on the program).",
      "DESIGN.md §3 C05")
claim("C06", "proof",
      "path-sensitive abstract interpretation (guards, bit provenance of the paging value, address arithmetic by term equivalence) + mod-ref / who-may-reach over the resolved call graph, stated over the API surface (public Emulator methods and the CPU bus implementation); the poke path (force_write) under the same index rule as read/write",
      "write_7ffd guard and bit fields, initial maps and constructor model choice, ZXMemory::read/write address arithmetic and ROM write protection, and the sets of API entry points from which the memory map, ROM vector, RAM vector and paging latch can be written.",
      "Trusted: rustc MIR, mirfacts, zxwalk, finite-domain term equivalence. The 48K machine ignoring paging writes is decided by C07 (machine guard in write_io) plus the constructor's paging_enabled = false.",
      "DESIGN.md §3 C06")
claim("C07", "proof",
      "path-sensitive abstract interpretation of read_io/write_io with device leaves as effects; the extracted decision list is tabulated over all 65536 addresses x 12 configurations x 2 machines and compared with the statement's decode cubes (three-valued oracle); the floating-bus function extracted as a piecewise closed form of the frame clock and tabulated for every T against the ULA fetch pattern, with the source RAM page checked against the displayed screen bank",
      "Every address that selects exactly one device reaches that device and no other (reads and writes, both machines, mouse/joystick/extender on or off); extender discipline; ULA read row AND / EAR bit and ULA write bit fields.",
      "Addresses where the statement does not single out one device (several cubes overlap, or the mouse outside xxDF-style addresses) are not compared. The floating-bus byte value is not decided.",
      "DESIGN.md §3 C07, Appendix A.2")
claim("C08", "other",
      "term equivalence of the address-decode functions; path-sensitive interpretation of the render loop body for a symbolic block; must-pass-through (CFG) pairing of every RAM mutation with a shadow-screen update; effect trace of the resynchronisation routine (every screen page of the machine, byte for byte); constant tables; BlocksCount::from_clocks as a closed form of the frame clock tabulated against the beam position of every cell; rendered range and record of process_clocks; passed_from by linear arithmetic",
      "Address decode, attribute fields, ink/paper/flash selection, pixel bit and position in the render loop, update() ranges and indices, flash period, buffer swap, bank table, and shadow coherence of every RAM mutator reachable from the API. Beam-relative clause: a cell is rendered when the clock is within -16..+4 T of the time the beam displays it, cells are rendered once per frame in raster order, and CPU writes update the screen copy immediately.",
      "Not decided: writes landing within the tolerance window around the beam (the statement says 'clearly before/after').",
      "DESIGN.md §3 C08")
claim("C09", "other",
      "mod-ref on border_color; constant tables; extracted closed form of next_border_pixel tabulated against the documented beam position for every T; path post-conditions of set_border/new_frame; loop-body interpretation of fill_to; ULA-write leaf of the port decode walk (rule shared with C07)",
      "Writers and bit provenance of the reported colour, the beam->pixel map within 16 px for every clock of the frame on both machines, painting of [last change, beam) with the old colour, whole-border repaint when nothing changed, per-frame flag reset. On every write_io path reaching the ULA the colour is data & 7 and the change is stamped with the controller's clock at the device write.",
      "The repaint after an SZX load that stores the border directly is judged under C14.",
      "DESIGN.md §3 C09")
claim("C10", "other",
      "decision table of the trap condition; path-sensitive interpretation of fast_load_tap with block/memory/RET accesses as effects, each completing exit compared with the documented LD-BYTES algorithm; inductive invariant of the TAP block reader with a ghost file position, decided by linear-arithmetic entailment (Fourier-Motzkin) over path facts; mod-ref (mod set) of the fast-load switch",
      "Trap condition and serving guard; one block per request; no-block exit leaves all registers untouched; every completing exit performs one RET with IX/DE/carry and the LOAD stores / VERIFY reads the documented algorithm gives for the same decisions; block framing: a header is read only when exactly the previous block's bytes have been taken from the asset, on every path of every writer of the reader's window (T-INV). set_fast_load changes nothing but its flag.",
      "Not decided: equality with the ROM routine for all blocks/requests beyond the explored loop depth (the loop body is the same each iteration, but no inductive argument is made).",
      "DESIGN.md §3 C10")
claim("C11", "proof",
      "transition table of Tap::process_clocks extracted by abstract interpretation per pulse state (symbolic counter/mask/byte) and compared with the standard waveform table; delay countdown decided by linear arithmetic; interprocedural upper bound of the step argument over every call site of the workspace (T-BOUND); inductive window invariant of the block reader (T-INV)",
      "All 8 states x data conditions: pulse lengths, toggles, successor states, pilot counts by flag byte, MSB-first bit order, pause, end of tape; countdown stores only 0 or delay-clocks (no pulse shorter than nominal); largest step reaching the tape is 8 T-states, hence no pulse more than 15 (<= 32) T-states longer; stopped deck inert.",
      "Equivalence of real-time loading with fast loading (whole program) is not claimed.",
      "DESIGN.md §3 C11")
claim("C12", "other",
      "algebraic laws checked on composed method summaries (stop, play, rewind, end-of-tape path) over all 8x8 state/saved-state combinations; mod-ref of stop/play; mod set of the deck commands over the call graph; inertness of a stopped deck under passing time",
      "stop;stop==stop, stop;play resumes exactly, play;play==play, end of tape and rewind-while-stopped forget the saved state, stop/play touch only the two state fields, API forwards. play/stop/rewind through the API change nothing outside the deck and the asset behind it. Time passing on a stopped deck changes nothing of it.",
      "Not decided: that the concatenated waveform decodes to the blocks (C11 + data).",
      "DESIGN.md §3 C12")
claim("C17", "other",
      "constant propagation over every enum value (key matrix, compound, joystick tables) + bit-level term equivalence of the event handlers + mod-ref per matrix; devices located by role (state changed by the public senders); mod set of every input method; ULA-read leaf of the port decode walk (rule shared with C07)",
      "40-key matrix, 7 compound keys, 2x5 Sinclair controls, 8 Kempston bits, 4 mouse buttons, wheel and motion arithmetic, source separation of the three matrices, CAPS SHIFT release rule. Every send_* method changes only the device it feeds. Every ULA read is the AND of the three matrices over exactly the selected half-rows.",
      "One open known finding (Sinclair joystick 2 'down'); the row AND across matrices is decided under C07.",
      "DESIGN.md §3 C17")
claim("C18", "other",
      "evaluated statics/consts (envelope function table, reload table, DAC tables) composed with extracted summaries of the segment functions and compared with a data-sheet generator; register decode and period clamps by term equivalence; pan table by constant propagation; per-tick summaries of the tone / noise / envelope generators and of the mixer (DAC index tabulated over every channel input); CFG pairing of generator ticks with unit phase decrements; forward interval analysis (f64) of the resampler's phase accumulator",
      "All 16 envelope shapes (3 periods), DAC monotonicity/range, 7 pan triples, decode of R0-R13 and ignoring of 14/15, 0-acts-as-1 clamps, mixer bit polarity, ZXAyChip select/read/write pairing. A tone channel toggles every TP ticks, the noise register shifts every 2*NP ticks, the envelope steps every EP ticks, the mixer gates tone/noise per channel and selects DAC level 2*volume+1 or the envelope, and the generators are ticked at f_clk/8 whatever the sample rate (step = clock/(rate*8*D), one tick per unit of phase): hence f_clk/(16 TP), f_clk/(16 NP), 256 EP/f_clk per ramp. The resampler's phase stays in [0,1) at every interpolation use and after every step for all sample rates down to 8 kHz (necessary for bounded samples).",
      "Not decided: filtered amplitudes, finiteness of floating-point output beyond the phase invariant (numeric).",
      "DESIGN.md §3 C18")
claim("C19", "other",
      "guard/dominance of every audio-queue push by 'len < samples_per_frame' on complete path sets of ZXMixer::process/new_frame; constant propagation of FPS; mod-ref; constant beeper table; forward interval analysis (f64) of the AY resampler's phase accumulator",
      "samples_per_frame = rate/50, queue-bound guard, exact padding at frame end, position clamp, mixer advanced from wait_internal with the clamped frame fraction, beeper levels, writer/consumer sets. AY contribution: the resampler's phase stays in [0,1) for every sample rate of the range (necessary for bounded samples).",
      "Not decided: uniform spacing, edge placement within one sample, amplitude bound (floating point).",
      "DESIGN.md §3 C19")
claim("C20", "other",
      "path-sensitive interpretation of update_ay and of one play() iteration (mono, stereo) for symbolic player state and buffer; symbol-provenance non-interference; sibling comparison; loop summarisation of the transposition in Vtx::load by one arbitrary iteration analysed from a cut point",
      "R13 skip rule, register copies, samples_per_frame, frame pacing per iteration, chunking independence (no dependence on buffer length/position/processed count), mono/stereo agreement, frame_registers bounds, register-major to frame-major transposition (index map, bounds, one byte per iteration, empty start).",
      "Not decided: the total sample count (no induction over play's loop).",
      "DESIGN.md §3 C20")
claim("C16", "other",
      "intraprocedural taint of stopwatch readings; mod-ref isolation of sound-generation state over the resolved call graph; who-may-call on LoadableAsset::read; path-sensitive check of read_exact; per-step effect pairing of emulate_frames (events taken from the controller are acted upon before the step ends); absence scan with a positive control; mod set of the slicing controls (set_speed / set_sound / next_audio_sample) over the call graph; callers of the clock-advancing bus methods",
      "Stopwatch readings reach only the limit comparison and EmulationInfo.duration; no field written by sound generation is read outside its call closure; AY port-visible registers are not written by generation; read() only behind read_exact/adapters and read_exact tolerates short reads; a breakpoint stop never drops another event taken in the same step (stop-and-resume transparency); no nondeterministic API outside the host stopwatch. The slicing controls change only their own bookkeeping (no device object is written or re-created by them). Emulated time advances only from the CPU core and the controller (never from the host-facing driver loop).",
      "Not decided: bit-identical audio under different drain patterns (excluded by the statement). The call graph over-approximates unresolved trait calls with generic Self.",
      "DESIGN.md §3 C16")
claim("C13", "other",
      "path-sensitive interpretation of sna::save and sna::load with the asset/recorder as effects: offset<->role tables through the exx/swap choreography, RAII guard pairing on every exit, must-definition of CPU execution state and paging latch/lock; effect trace of the screen resynchronisation routine",
      "SNA header maps for save and load, side-effect freedom of save on every exit (registers, stack bytes, no bus time), load independence from the receiving machine's state (halt, EI, prefix, paging lock), bank order, PC on stack (48K) / extension (128K).",
      "Not decided: RAM contents byte for byte (opaque asset bytes). Both machines, all recorder/asset failure points.",
      "DESIGN.md §3 C13")
claim("C14", "other",
      "path-sensitive interpretation of the three loaders (one SZX chunk per path, arm identified by the parser entered): model-guard dominance, chunk layout tables by term equivalence, must-definition per chunk arm, pairing of AY register stores with generator writes; effect trace of the screen resynchronisation routine; final AY chip state after the AY chunk handler (chip methods inlined)",
      "Model guards of SNA/SZX/SCR, Z80R 37-byte map incl. flags and execution state, SPCR paging/lock/border/speaker without emulated time, AMXM, RAMP renumbering and page existence, unknown chunks inert, AY set_regs forwarding, SCR target page and refresh. AY chunk: selected register = byte 1 mod 16, register file and generator = chAyRegs.",
      "Not decided: equality of behaviour of two encodings, zlib correctness, KEYB (not listed by the statement).",
      "DESIGN.md §3 C14")
claim("C15", "other",
      "potential-panic inventory: path-sensitive interpretation of every loader entry with the asset as an opaque source of bytes, lengths and failures; sites discharged by constants, dominating branch conditions, operand intervals and linear-arithmetic entailment between symbolic quantities; the TAP reader's sites by a proved inductive invariant (all exits incl. I/O errors); the rest matched against a reviewed table; allocation-taint rule; EOF/no-progress loop rule; per-caller keys for panics in shared helpers with linear-arithmetic discharge of infeasible panic paths; CFG must-pass-through for the VTX frequency guard; SeekFrom-literal rule for every seek call site",
      "All loader entry points (SNA, SZX, SCR, TAP deck, fast loader, ROM loader, BufferCursor, read_exact, VTX load, Player::new) on both machines: no undischarged assert/index/range/copy-length/panic site outside the reviewed table, no unbounded asset-sized allocation, no read loop that spins at end of data. Reviewed entries cite only facts a rule of this check decides (RAM page validated by the SZX caller, VTX frequency compared with 0 before the tune is built, relative seeks constant).",
      "Not decided: time/memory of external decompressors (no MIR), 'still emulates afterwards' beyond validated field values and the TAP window invariant. Reviewed-table entries (6) rest on stated invariants (reviewed_sites.txt).",
      "DESIGN.md §3 C15")
