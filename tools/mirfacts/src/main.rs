// mirfacts — rustc_private driver that dumps resolved MIR facts of the rustzx workspace
// library crates as JSON (one file per crate and configuration tag).
//
// Usage (as RUSTC_WORKSPACE_WRAPPER): mirfacts <rustc> <rustc args...>
//   MIRFACTS_OUT  = output directory (required for dumping; absent => plain rustc)
//   MIRFACTS_TAG  = configuration tag appended to the file name
//   MIRFACTS_CRATES = comma separated crate names to dump (default: the five rustzx libs)
#![feature(rustc_private)]
#![allow(clippy::all)]

extern crate rustc_abi;
extern crate rustc_driver;
extern crate rustc_hir;
extern crate rustc_interface;
extern crate rustc_middle;
extern crate rustc_span;

use rustc_driver::{run_compiler, Callbacks, Compilation};
use rustc_hir::def::DefKind;
use rustc_hir::def_id::{DefId, LOCAL_CRATE};
use rustc_interface::interface::Compiler;
use rustc_middle::mir::{
    self, AggregateKind, AssertKind, BasicBlockData, Body, ConstValue, Operand, Place,
    ProjectionElem, Rvalue, StatementKind, TerminatorKind,
};
use rustc_middle::mir::interpret::{GlobalAlloc, Scalar};
use rustc_middle::ty::{self, GenericArgsRef, Instance, Ty, TyCtxt, TypingEnv};
use rustc_span::Span;
use std::collections::{HashMap, HashSet, VecDeque};
use std::fmt::Write as _;

fn jstr(s: &str) -> String {
    let mut o = String::with_capacity(s.len() + 2);
    o.push('"');
    for c in s.chars() {
        match c {
            '"' => o.push_str("\\\""),
            '\\' => o.push_str("\\\\"),
            '\n' => o.push_str("\\n"),
            '\r' => o.push_str("\\r"),
            '\t' => o.push_str("\\t"),
            c if (c as u32) < 0x20 => {
                let _ = write!(o, "\\u{:04x}", c as u32);
            }
            c => o.push(c),
        }
    }
    o.push('"');
    o
}

fn jlist(items: &[String]) -> String {
    let mut o = String::from("[");
    for (i, it) in items.iter().enumerate() {
        if i > 0 {
            o.push(',');
        }
        o.push_str(it);
    }
    o.push(']');
    o
}

struct Cx<'tcx> {
    tcx: TyCtxt<'tcx>,
    crate_name: String,
    types: Vec<String>,
    type_ix: HashMap<Ty<'tcx>, usize>,
    files: Vec<String>,
    file_ix: HashMap<String, usize>,
    adts: HashMap<DefId, String>,
    adt_order: Vec<DefId>,
    extern_queue: VecDeque<(DefId, u32)>,
    extern_seen: HashSet<DefId>,
    cur_owner: Option<DefId>,
    cur_depth: u32,
}

const EXTERN_PREFIXES: &[&str] = &[
    "core::option::",
    "core::result::",
    "core::ops::",
    "core::cmp::",
    "core::num::",
    "core::mem::",
    "core::convert::",
    "core::iter::range::",
    "core::iter::traits::",
    "core::iter::adapters::",
    "core::bool::",
    "core::array::",
    "core::clone::",
    "core::default::",
    "core::slice::",
    "core::ptr::",
    "core::intrinsics::",
    "core::hint::",
    "core::char::",
    "core::str::",
    "core::f64::",
    "core::f32::",
    "std::option::",
    "std::result::",
    "std::ops::",
    "std::cmp::",
    "std::mem::",
    "std::convert::",
    "std::iter::",
    "std::bool::",
    "std::array::",
    "std::clone::",
    "std::default::",
    "std::slice::",
    "std::ptr::",
    "std::intrinsics::",
    "std::hint::",
    "std::char::",
    "std::str::",
    "std::f64::",
    "std::f32::",
    "std::vec::",
    "alloc::vec::",
    "std::boxed::",
    "alloc::boxed::",
    "std::collections::",
    "alloc::collections::",
    "std::io::",
    "alloc::slice::",
    "alloc::string::",
    "std::string::",
    "<",
];
const EXTERN_MAX_DEPTH: u32 = 10;

impl<'tcx> Cx<'tcx> {
    fn path(&self, did: DefId) -> String {
        // canonical across crates: `crate::` is spelled out as the crate's own name, so a local item prints
        // exactly as it does when seen from a dependent crate
        let s = ty::print::with_crate_prefix!(ty::print::with_no_visible_paths!(
            ty::print::with_no_trimmed_paths!(self.tcx.def_path_str(did))
        ));
        s.replace("crate::", &format!("{}::", self.crate_name))
    }

    fn path_with_args(&self, did: DefId, args: GenericArgsRef<'tcx>) -> String {
        let s = ty::print::with_crate_prefix!(ty::print::with_no_visible_paths!(
            ty::print::with_no_trimmed_paths!(self.tcx.def_path_str_with_args(did, args))
        ));
        s.replace("crate::", &format!("{}::", self.crate_name))
    }

    fn span(&mut self, sp: Span) -> String {
        let sm = self.tcx.sess.source_map();
        let exp = sp.from_expansion();
        let mac = if exp {
            let d = sp.ctxt().outer_expn_data();
            match d.kind {
                rustc_span::hygiene::ExpnKind::Macro(_, name) => name.to_string(),
                rustc_span::hygiene::ExpnKind::Desugaring(k) => format!("desugar:{:?}", k),
                _ => "other".to_string(),
            }
        } else {
            String::new()
        };
        let cs = sp.source_callsite();
        let loc = sm.lookup_char_pos(cs.lo());
        let fname = format!("{}", loc.file.name.prefer_local_unconditionally());
        let fi = match self.file_ix.get(&fname) {
            Some(i) => *i,
            None => {
                let i = self.files.len();
                self.files.push(fname.clone());
                self.file_ix.insert(fname, i);
                i
            }
        };
        if exp {
            format!("[{},{},{}]", fi, loc.line, jstr(&mac))
        } else {
            format!("[{},{}]", fi, loc.line)
        }
    }

    fn generic_args(&mut self, args: GenericArgsRef<'tcx>) -> String {
        let mut v = Vec::new();
        for a in args.iter() {
            match a.kind() {
                ty::GenericArgKind::Type(t) => v.push(format!("{}", self.ty(t))),
                ty::GenericArgKind::Const(c) => {
                    let s = match c.try_to_target_usize(self.tcx) {
                        Some(n) => format!("{{\"const\":{}}}", n),
                        None => format!("{{\"const\":{}}}", jstr(&format!("{:?}", c))),
                    };
                    v.push(s)
                }
                ty::GenericArgKind::Lifetime(_) => {}
            }
        }
        jlist(&v)
    }

    fn ty(&mut self, t: Ty<'tcx>) -> usize {
        if let Some(i) = self.type_ix.get(&t) {
            return *i;
        }
        if let ty::Pat(inner, _) = t.kind() {
            return self.ty(*inner);
        }
        // reserve slot first (recursive types through ADT defs are handled by adt table)
        let ix = self.types.len();
        self.types.push(String::new());
        self.type_ix.insert(t, ix);
        let tcx = self.tcx;
        let s = match t.kind() {
            ty::Bool => "{\"k\":\"bool\"}".to_string(),
            ty::Char => "{\"k\":\"char\"}".to_string(),
            ty::Int(it) => {
                let (bits, size) = match it.bit_width() {
                    Some(b) => (b, false),
                    None => (64, true),
                };
                format!("{{\"k\":\"int\",\"bits\":{},\"signed\":true,\"size\":{}}}", bits, size)
            }
            ty::Uint(it) => {
                let (bits, size) = match it.bit_width() {
                    Some(b) => (b, false),
                    None => (64, true),
                };
                format!("{{\"k\":\"int\",\"bits\":{},\"signed\":false,\"size\":{}}}", bits, size)
            }
            ty::Float(ft) => format!("{{\"k\":\"float\",\"bits\":{}}}", ft.bit_width()),
            ty::Adt(def, args) => {
                self.note_adt(def.did());
                let a = self.generic_args(args);
                format!("{{\"k\":\"adt\",\"path\":{},\"args\":{}}}", jstr(&self.path(def.did())), a)
            }
            ty::Str => "{\"k\":\"str\"}".to_string(),
            ty::Array(et, len) => {
                let e = self.ty(*et);
                match len.try_to_target_usize(tcx) {
                    Some(n) => format!("{{\"k\":\"array\",\"ty\":{},\"len\":{}}}", e, n),
                    None => format!(
                        "{{\"k\":\"array\",\"ty\":{},\"len\":null,\"len_txt\":{}}}",
                        e,
                        jstr(&format!("{:?}", len))
                    ),
                }
            }
            ty::Slice(et) => {
                let e = self.ty(*et);
                format!("{{\"k\":\"slice\",\"ty\":{}}}", e)
            }
            ty::RawPtr(pt, m) => {
                let e = self.ty(*pt);
                format!("{{\"k\":\"ptr\",\"mut\":{},\"ty\":{}}}", m.is_mut(), e)
            }
            ty::Ref(_, rt, m) => {
                let e = self.ty(*rt);
                format!("{{\"k\":\"ref\",\"mut\":{},\"ty\":{}}}", m.is_mut(), e)
            }
            ty::FnDef(did, args) => {
                let a = self.generic_args(args);
                format!("{{\"k\":\"fndef\",\"path\":{},\"args\":{}}}", jstr(&self.path(*did)), a)
            }
            ty::FnPtr(..) => format!("{{\"k\":\"fnptr\",\"text\":{}}}", jstr(&format!("{:?}", t))),
            ty::Closure(did, args) => {
                let ups: Vec<String> = args
                    .as_closure()
                    .upvar_tys()
                    .iter()
                    .map(|u| format!("{}", self.ty(u)))
                    .collect();
                format!(
                    "{{\"k\":\"closure\",\"path\":{},\"upvars\":{}}}",
                    jstr(&self.path(*did)),
                    jlist(&ups)
                )
            }
            ty::Never => "{\"k\":\"never\"}".to_string(),
            ty::Tuple(ts) => {
                let v: Vec<String> = ts.iter().map(|x| format!("{}", self.ty(x))).collect();
                format!("{{\"k\":\"tuple\",\"tys\":{}}}", jlist(&v))
            }
            ty::Param(p) => {
                format!("{{\"k\":\"param\",\"name\":{},\"index\":{}}}", jstr(p.name.as_str()), p.index)
            }
            ty::Dynamic(..) => format!("{{\"k\":\"dyn\",\"text\":{}}}", jstr(&format!("{:?}", t))),
            ty::Alias(..) => format!("{{\"k\":\"alias\",\"text\":{}}}", jstr(&format!("{:?}", t))),
            _ => format!("{{\"k\":\"other\",\"text\":{}}}", jstr(&format!("{:?}", t))),
        };
        self.types[ix] = s;
        ix
    }

    fn note_adt(&mut self, did: DefId) {
        if self.adts.contains_key(&did) {
            return;
        }
        self.adts.insert(did, String::new());
        self.adt_order.push(did);
        let tcx = self.tcx;
        let def = tcx.adt_def(did);
        let kind = if def.is_enum() {
            "enum"
        } else if def.is_union() {
            "union"
        } else {
            "struct"
        };
        let mut vars = Vec::new();
        for (vi, v) in def.variants().iter_enumerated() {
            let discr = if def.is_enum() {
                format!("{}", def.discriminant_for_variant(tcx, vi).val)
            } else {
                "0".to_string()
            };
            let mut fields = Vec::new();
            for f in v.fields.iter() {
                let fty = tcx.type_of(f.did).instantiate_identity().skip_norm_wip();
                let fty = std::panic::catch_unwind(std::panic::AssertUnwindSafe(|| {
                    tcx.try_normalize_erasing_regions(
                        TypingEnv::post_analysis(tcx, did),
                        tcx.type_of(f.did).instantiate_identity(),
                    )
                }))
                .ok()
                .and_then(|r| r.ok())
                .unwrap_or(fty);
                let t = self.ty(fty);
                let vis = if f.vis.is_public() { "pub" } else { "restricted" };
                fields.push(format!(
                    "{{\"name\":{},\"ty\":{},\"vis\":\"{}\"}}",
                    jstr(f.name.as_str()),
                    t,
                    vis
                ));
            }
            vars.push(format!(
                "{{\"name\":{},\"discr\":{},\"fields\":{}}}",
                jstr(v.name.as_str()),
                discr,
                jlist(&fields)
            ));
        }
        let generics = tcx.generics_of(did);
        let gnames: Vec<String> =
            generics.own_params.iter().map(|p| jstr(p.name.as_str())).collect();
        let s = format!(
            "{{\"kind\":\"{}\",\"local\":{},\"generics\":{},\"variants\":{}}}",
            kind,
            did.is_local(),
            jlist(&gnames),
            jlist(&vars)
        );
        self.adts.insert(did, s);
    }

    fn place(&mut self, p: &Place<'tcx>) -> String {
        let mut projs = Vec::new();
        for e in p.projection.iter() {
            let s = match e {
                ProjectionElem::Deref => "[\"d\"]".to_string(),
                ProjectionElem::Field(f, t) => format!("[\"f\",{},{}]", f.as_usize(), self.ty(t)),
                ProjectionElem::Index(l) => format!("[\"i\",{}]", l.as_usize()),
                ProjectionElem::ConstantIndex { offset, min_length, from_end } => {
                    format!("[\"ci\",{},{},{}]", offset, min_length, from_end)
                }
                ProjectionElem::Subslice { from, to, from_end } => {
                    format!("[\"ss\",{},{},{}]", from, to, from_end)
                }
                ProjectionElem::Downcast(name, vi) => format!(
                    "[\"dc\",{},{}]",
                    vi.as_usize(),
                    jstr(&name.map(|n| n.to_string()).unwrap_or_default())
                ),
                other => format!("[\"o\",{}]", jstr(&format!("{:?}", other))),
            };
            projs.push(s);
        }
        format!("{{\"l\":{},\"p\":{}}}", p.local.as_usize(), jlist(&projs))
    }

    fn typing_env(&self) -> TypingEnv<'tcx> {
        match self.cur_owner {
            Some(d) => TypingEnv::post_analysis(self.tcx, d),
            None => TypingEnv::fully_monomorphized(),
        }
    }

    fn fn_ref(&mut self, did: DefId, args: GenericArgsRef<'tcx>) -> String {
        self.maybe_queue_extern(did);
        let a = self.generic_args(args);
        let tcx = self.tcx;
        // trait item info for the callee
        let trait_of = tcx.trait_of_assoc(did);
        let tr = match trait_of {
            Some(t) => jstr(&self.path(t)),
            None => "null".to_string(),
        };
        let resolved = if matches!(tcx.def_kind(did), DefKind::Fn | DefKind::AssocFn | DefKind::Ctor(..) | DefKind::Closure) {
            let env = self.typing_env();
            let r = std::panic::catch_unwind(std::panic::AssertUnwindSafe(|| {
                Instance::try_resolve(tcx, env, did, args)
            }));
            match r {
                Ok(Ok(Some(inst))) => {
                    let (kind, d) = match inst.def {
                        ty::InstanceKind::Item(d) => ("item", Some(d)),
                        ty::InstanceKind::Intrinsic(d) => ("intrinsic", Some(d)),
                        ty::InstanceKind::Virtual(d, _) => ("virtual", Some(d)),
                        ty::InstanceKind::FnPtrShim(d, _) => ("fnptrshim", Some(d)),
                        ty::InstanceKind::ClosureOnceShim { call_once, .. } => ("closureonce", Some(call_once)),
                        ty::InstanceKind::DropGlue(d, _) => ("dropglue", Some(d)),
                        ty::InstanceKind::CloneShim(d, _) => ("cloneshim", Some(d)),
                        ty::InstanceKind::ReifyShim(d, _) => ("reify", Some(d)),
                        _ => ("other", None),
                    };
                    match d {
                        Some(d) => {
                            self.maybe_queue_extern(d);
                            let ra = self.generic_args(inst.args);
                            format!(
                                "{{\"kind\":\"{}\",\"path\":{},\"args\":{}}}",
                                kind,
                                jstr(&self.path(d)),
                                ra
                            )
                        }
                        None => format!("{{\"kind\":\"{}\"}}", kind),
                    }
                }
                _ => "null".to_string(),
            }
        } else {
            "null".to_string()
        };
        format!(
            "{{\"path\":{},\"args\":{},\"trait\":{},\"resolved\":{}}}",
            jstr(&self.path(did)),
            a,
            tr,
            resolved
        )
    }

    fn maybe_queue_extern(&mut self, did: DefId) {
        if did.is_local() || self.extern_seen.contains(&did) {
            return;
        }
        if self.cur_depth >= EXTERN_MAX_DEPTH {
            return;
        }
        let tcx = self.tcx;
        if !matches!(tcx.def_kind(did), DefKind::Fn | DefKind::AssocFn | DefKind::Closure) {
            return;
        }
        let p = self.path(did);
        if !EXTERN_PREFIXES.iter().any(|pre| p.starts_with(pre)) {
            return;
        }
        if p.contains("::fmt::") || p.contains("panicking") || p.contains("precondition_check") {
            return;
        }
        if !tcx.is_mir_available(did) {
            return;
        }
        self.extern_seen.insert(did);
        self.extern_queue.push_back((did, self.cur_depth + 1));
    }

    /// Instance-driven discovery of library bodies: calls inside *generic* library code (`Iterator::fold` calling
    /// `Self::next`) cannot be resolved from the generic body alone.  Starting from a local function, callee
    /// generic arguments are instantiated with the arguments of the instance being walked, resolved, and the
    /// resolved library function is queued for dumping (adapter `next`s, closure shims, ...).
    fn discover_instances(&mut self, root: DefId) {
        let tcx = self.tcx;
        if !matches!(tcx.def_kind(root), DefKind::Fn | DefKind::AssocFn | DefKind::Closure) {
            return;
        }
        let env = TypingEnv::post_analysis(tcx, root);
        let root_args = ty::GenericArgs::identity_for_item(tcx, root);
        let root_inst = Instance::new_raw(root, root_args);
        let mut work: Vec<(Instance<'tcx>, u32)> = vec![(root_inst, 0)];
        let mut seen: HashSet<Instance<'tcx>> = HashSet::new();
        let mut budget = 400;
        while let Some((inst, depth)) = work.pop() {
            if budget == 0 {
                break;
            }
            budget -= 1;
            let did = inst.def_id();
            if !did.is_local() && !tcx.is_mir_available(did) {
                continue;
            }
            if !matches!(inst.def, ty::InstanceKind::Item(_)) {
                continue;
            }
            let body = tcx.instance_mir(inst.def);
            for bb in body.basic_blocks.iter() {
                let term = match &bb.terminator {
                    Some(t) => t,
                    None => continue,
                };
                if let TerminatorKind::Call { func, .. } = &term.kind {
                    if let Some((cdid, cargs)) = func.const_fn_def() {
                        let cargs2 = match tcx.try_instantiate_and_normalize_erasing_regions(
                            inst.args,
                            env,
                            ty::EarlyBinder::bind(cargs),
                        ) {
                            Ok(a) => a,
                            Err(_) => continue,
                        };
                        let r = std::panic::catch_unwind(std::panic::AssertUnwindSafe(|| {
                            Instance::try_resolve(tcx, env, cdid, cargs2)
                        }));
                        if let Ok(Ok(Some(ci))) = r {
                            let d = match ci.def {
                                ty::InstanceKind::Item(d) => d,
                                ty::InstanceKind::ClosureOnceShim { call_once, .. } => call_once,
                                _ => continue,
                            };
                            if d.is_local() {
                                continue;
                            }
                            self.cur_depth = depth.min(EXTERN_MAX_DEPTH - 1);
                            self.maybe_queue_extern(d);
                            let p = self.path(d);
                            if depth < EXTERN_MAX_DEPTH
                                && EXTERN_PREFIXES.iter().any(|pre| p.starts_with(pre))
                                && seen.insert(ci)
                            {
                                work.push((ci, depth + 1));
                            }
                        }
                    }
                }
            }
        }
    }

    fn scalar_json(&mut self, s: Scalar, t: Ty<'tcx>) -> String {
        let tcx = self.tcx;
        match s {
            Scalar::Int(si) => {
                let bits = si.to_bits(si.size());
                match t.kind() {
                    ty::Float(ft) => {
                        let f = if ft.bit_width() == 64 {
                            f64::from_bits(bits as u64)
                        } else {
                            f32::from_bits(bits as u32) as f64
                        };
                        format!("{{\"float\":{},\"bits\":{}}}", jstr(&format!("{:e}", f)), bits)
                    }
                    ty::Int(_) => {
                        let sz = si.size().bits();
                        let v = if sz == 0 {
                            0i128
                        } else {
                            let sh = 128 - sz as u32;
                            ((bits as i128) << sh) >> sh
                        };
                        format!("{{\"int\":{},\"bits\":{}}}", v, sz)
                    }
                    _ => format!("{{\"int\":{},\"bits\":{}}}", bits, si.size().bits()),
                }
            }
            Scalar::Ptr(ptr, _) => {
                let (prov, off) = ptr.prov_and_relative_offset();
                let aid = prov.alloc_id();
                match tcx.global_alloc(aid) {
                    GlobalAlloc::Function { instance } => {
                        let a = self.generic_args(instance.args);
                        self.maybe_queue_extern(instance.def_id());
                        format!(
                            "{{\"fnptr\":{},\"args\":{}}}",
                            jstr(&self.path(instance.def_id())),
                            a
                        )
                    }
                    GlobalAlloc::Static(d) => format!("{{\"static\":{}}}", jstr(&self.path(d))),
                    GlobalAlloc::Memory(_) => {
                        // pointer into memory: deref if the pointee type is known & sized
                        let pointee = match t.kind() {
                            ty::Ref(_, p, _) => Some(*p),
                            ty::RawPtr(p, _) => Some(*p),
                            _ => None,
                        };
                        match pointee {
                            Some(p) if p.is_sized(tcx, self.typing_env()) => {
                                let cv = ConstValue::Indirect { alloc_id: aid, offset: off };
                                let inner = self.const_value(cv, p, 0);
                                format!("{{\"ref\":{}}}", inner)
                            }
                            _ => format!("{{\"ptr\":\"memory\"}}"),
                        }
                    }
                    _ => "{\"ptr\":\"other\"}".to_string(),
                }
            }
        }
    }

    fn const_value(&mut self, cv: ConstValue, t: Ty<'tcx>, depth: u32) -> String {
        let tcx = self.tcx;
        if depth > 8 {
            return "{\"deep\":1}".to_string();
        }
        if let ty::FnDef(did, args) = t.kind() {
            return format!("{{\"fn\":{}}}", self.fn_ref(*did, args));
        }
        match t.kind() {
            ty::Array(et, len) => {
                // fast path for byte / integer arrays stored in memory
                if let (ConstValue::Indirect { alloc_id, offset }, Some(n)) =
                    (cv, len.try_to_target_usize(tcx))
                {
                    if let GlobalAlloc::Memory(alloc) = tcx.global_alloc(alloc_id) {
                        let esz = match et.kind() {
                            ty::Uint(u) => u.bit_width().map(|b| b / 8).or(Some(8)),
                            ty::Int(u) => u.bit_width().map(|b| b / 8).or(Some(8)),
                            ty::Bool => Some(1),
                            _ => None,
                        };
                        let signed = matches!(et.kind(), ty::Int(_));
                        if let Some(esz) = esz {
                            let start = offset.bytes() as usize;
                            let total = (n * esz) as usize;
                            let inner = alloc.inner();
                            if start + total <= inner.len() {
                                let bytes = inner.inspect_with_uninit_and_ptr_outside_interpreter(
                                    start..start + total,
                                );
                                if esz == 1 && !signed {
                                    let mut h = String::with_capacity(total * 2);
                                    for b in bytes {
                                        let _ = write!(h, "{:02x}", b);
                                    }
                                    return format!("{{\"bytes\":\"{}\"}}", h);
                                } else {
                                    let mut v = Vec::with_capacity(n as usize);
                                    for i in 0..n as usize {
                                        let mut x: u128 = 0;
                                        for j in 0..esz as usize {
                                            x |= (bytes[i * esz as usize + j] as u128) << (8 * j);
                                        }
                                        if signed {
                                            let sh = 128 - 8 * esz as u32;
                                            v.push(format!("{}", ((x as i128) << sh) >> sh));
                                        } else {
                                            v.push(format!("{}", x));
                                        }
                                    }
                                    return format!("{{\"ints\":{}}}", jlist(&v));
                                }
                            }
                        }
                    }
                }
                self.destructure(cv, t, depth)
            }
            ty::Adt(..) | ty::Tuple(..) => match cv {
                ConstValue::Scalar(s) if !matches!(t.kind(), ty::Tuple(..)) && self.is_scalar_newtype(t).is_none() => {
                    // possibly a fieldless enum or scalar-layout ADT: try destructure first
                    let d = self.destructure(cv, t, depth);
                    if d.starts_with("{\"opaque\"") {
                        self.scalar_json(s, t)
                    } else {
                        d
                    }
                }
                _ => self.destructure(cv, t, depth),
            },
            ty::Ref(_, inner, _) | ty::RawPtr(inner, _) => match cv {
                ConstValue::Scalar(s) => self.scalar_json(s, t),
                ConstValue::Slice { alloc_id, meta } => {
                    if let GlobalAlloc::Memory(alloc) = tcx.global_alloc(alloc_id) {
                        let inner_alloc = alloc.inner();
                        let is_bytes = matches!(inner.kind(), ty::Str)
                            || matches!(inner.kind(), ty::Slice(e) if matches!(e.kind(), ty::Uint(ty::UintTy::U8)));
                        if is_bytes {
                            let n = (meta as usize).min(inner_alloc.len());
                            let bytes =
                                inner_alloc.inspect_with_uninit_and_ptr_outside_interpreter(0..n);
                            if matches!(inner.kind(), ty::Str) {
                                return format!(
                                    "{{\"str\":{}}}",
                                    jstr(&String::from_utf8_lossy(bytes))
                                );
                            }
                            let mut h = String::with_capacity(n * 2);
                            for b in bytes {
                                let _ = write!(h, "{:02x}", b);
                            }
                            return format!("{{\"ref\":{{\"bytes\":\"{}\"}}}}", h);
                        }
                        if let ty::Slice(e) = inner.kind() {
                            // re-type as array
                            let arr = Ty::new_array(tcx, *e, meta);
                            let cv2 = ConstValue::Indirect {
                                alloc_id,
                                offset: rustc_abi::Size::ZERO,
                            };
                            let v = self.const_value(cv2, arr, depth + 1);
                            return format!("{{\"ref\":{}}}", v);
                        }
                    }
                    "{\"slice\":\"opaque\"}".to_string()
                }
                ConstValue::ZeroSized => "{\"zst\":1}".to_string(),
                ConstValue::Indirect { alloc_id, offset } => {
                    // a (possibly fat) pointer stored in memory: pointer word [+ length word]
                    if let GlobalAlloc::Memory(alloc) = tcx.global_alloc(alloc_id) {
                        let a = alloc.inner();
                        let start = offset.bytes() as usize;
                        if start + 8 <= a.len() {
                            if let Some(prov) = a.provenance().get_ptr(rustc_abi::Size::from_bytes(start as u64)) {
                                let rd = |at: usize| -> u64 {
                                    let b = a.inspect_with_uninit_and_ptr_outside_interpreter(at..at + 8);
                                    let mut x: u64 = 0;
                                    for (j, v) in b.iter().enumerate() {
                                        x |= (*v as u64) << (8 * j);
                                    }
                                    x
                                };
                                let target_off = rd(start);
                                let unsized_ = matches!(inner.kind(), ty::Slice(_) | ty::Str);
                                if unsized_ && start + 16 <= a.len() {
                                    let len = rd(start + 8);
                                    if target_off == 0 {
                                        let cv2 = ConstValue::Slice { alloc_id: prov.alloc_id(), meta: len };
                                        return self.const_value(cv2, t, depth + 1);
                                    }
                                } else if !unsized_ {
                                    let ptr = rustc_middle::mir::interpret::Pointer::new(
                                        prov,
                                        rustc_abi::Size::from_bytes(target_off),
                                    );
                                    return self.scalar_json(Scalar::from_pointer(ptr, &tcx), t);
                                }
                            }
                        }
                    }
                    "{\"opaque\":\"indirect-ref\"}".to_string()
                }
            },
            _ => match cv {
                ConstValue::Scalar(s) => self.scalar_json(s, t),
                ConstValue::ZeroSized => "{\"zst\":1}".to_string(),
                ConstValue::Indirect { alloc_id, offset } => {
                    // scalar stored in memory
                    if let GlobalAlloc::Memory(alloc) = tcx.global_alloc(alloc_id) {
                        if let Ok(layout) = tcx.layout_of(self.typing_env().as_query_input(t)) {
                            let sz = layout.size.bytes() as usize;
                            let start = offset.bytes() as usize;
                            let inner = alloc.inner();
                            if sz <= 16 && start + sz <= inner.len() && t.is_primitive() {
                                // pointer-free primitive
                                let bytes = inner
                                    .inspect_with_uninit_and_ptr_outside_interpreter(start..start + sz);
                                let mut x: u128 = 0;
                                for (j, b) in bytes.iter().enumerate() {
                                    x |= (*b as u128) << (8 * j);
                                }
                                if let ty::Float(ft) = t.kind() {
                                    let f = if ft.bit_width() == 64 {
                                        f64::from_bits(x as u64)
                                    } else {
                                        f32::from_bits(x as u32) as f64
                                    };
                                    return format!(
                                        "{{\"float\":{},\"bits\":{}}}",
                                        jstr(&format!("{:e}", f)),
                                        x
                                    );
                                }
                                if matches!(t.kind(), ty::Int(_)) && sz > 0 {
                                    let sh = 128 - 8 * sz as u32;
                                    return format!(
                                        "{{\"int\":{},\"bits\":{}}}",
                                        ((x as i128) << sh) >> sh,
                                        sz * 8
                                    );
                                }
                                return format!("{{\"int\":{},\"bits\":{}}}", x, sz * 8);
                            }
                            // pointer in memory (fn pointers / refs)
                            if sz == 8 && start + sz <= inner.len() {
                                if let Some(prov) =
                                    inner.provenance().get_ptr(rustc_abi::Size::from_bytes(start as u64))
                                {
                                    let bytes = inner
                                        .inspect_with_uninit_and_ptr_outside_interpreter(start..start + sz);
                                    let mut x: u64 = 0;
                                    for (j, b) in bytes.iter().enumerate() {
                                        x |= (*b as u64) << (8 * j);
                                    }
                                    let ptr = rustc_middle::mir::interpret::Pointer::new(
                                        prov,
                                        rustc_abi::Size::from_bytes(x),
                                    );
                                    return self.scalar_json(Scalar::from_pointer(ptr, &tcx), t);
                                }
                            }
                        }
                    }
                    "{\"opaque\":\"indirect\"}".to_string()
                }
                ConstValue::Slice { .. } => "{\"opaque\":\"slice\"}".to_string(),
            },
        }
    }

    fn is_scalar_newtype(&self, _t: Ty<'tcx>) -> Option<()> {
        None
    }

    fn destructure(&mut self, cv: ConstValue, t: Ty<'tcx>, depth: u32) -> String {
        let tcx = self.tcx;
        let r = std::panic::catch_unwind(std::panic::AssertUnwindSafe(|| {
            tcx.try_destructure_mir_constant_for_user_output(cv, t)
        }));
        match r {
            Ok(Some(d)) => {
                let fields: Vec<(ConstValue, Ty<'tcx>)> = d.fields.iter().copied().collect();
                let mut v = Vec::new();
                for (fv, ft) in fields {
                    v.push(self.const_value(fv, ft, depth + 1));
                }
                match d.variant {
                    Some(vi) => {
                        format!("{{\"variant\":{},\"fields\":{}}}", vi.as_usize(), jlist(&v))
                    }
                    None => format!("{{\"fields\":{}}}", jlist(&v)),
                }
            }
            _ => "{\"opaque\":\"destructure\"}".to_string(),
        }
    }

    fn mir_const(&mut self, c: &mir::Const<'tcx>, sp: Span) -> String {
        let tcx = self.tcx;
        let t = c.ty();
        let tid = self.ty(t);
        if let ty::FnDef(did, args) = t.kind() {
            return format!("{{\"ty\":{},\"fn\":{}}}", tid, self.fn_ref(*did, args));
        }
        let mut extra = String::new();
        if let mir::Const::Unevaluated(u, _) = c {
            let _ = write!(
                extra,
                ",\"def\":{},\"promoted\":{}",
                jstr(&self.path(u.def)),
                match u.promoted {
                    Some(p) => format!("{}", p.as_usize()),
                    None => "null".to_string(),
                }
            );
        }
        let env = self.typing_env();
        let r = std::panic::catch_unwind(std::panic::AssertUnwindSafe(|| c.eval(tcx, env, sp)));
        match r {
            Ok(Ok(cv)) => {
                let v = self.const_value(cv, t, 0);
                format!("{{\"ty\":{},\"v\":{}{}}}", tid, v, extra)
            }
            _ => format!(
                "{{\"ty\":{},\"v\":{{\"uneval\":{}}}{}}}",
                tid,
                jstr(&format!("{:?}", c)),
                extra
            ),
        }
    }

    fn operand(&mut self, o: &Operand<'tcx>) -> String {
        match o {
            Operand::Copy(p) => format!("[\"cp\",{}]", self.place(p)),
            Operand::Move(p) => format!("[\"mv\",{}]", self.place(p)),
            Operand::Constant(c) => format!("[\"c\",{}]", self.mir_const(&c.const_, c.span)),
            #[allow(unreachable_patterns)]
            other => format!("[\"rt\",{}]", jstr(&format!("{:?}", other))),
        }
    }

    fn rvalue(&mut self, r: &Rvalue<'tcx>) -> String {
        match r {
            Rvalue::Use(o, ..) => format!("[\"use\",{}]", self.operand(o)),
            Rvalue::Repeat(o, n) => {
                let ns = match n.try_to_target_usize(self.tcx) {
                    Some(n) => format!("{}", n),
                    None => "null".to_string(),
                };
                format!("[\"repeat\",{},{}]", self.operand(o), ns)
            }
            Rvalue::Ref(_, bk, p) => {
                let m = matches!(bk, mir::BorrowKind::Mut { .. });
                format!("[\"ref\",{},{}]", self.place(p), m)
            }
            Rvalue::RawPtr(k, p) => {
                format!("[\"addr\",{},{}]", self.place(p), jstr(&format!("{:?}", k)))
            }
            Rvalue::Cast(k, o, t) => {
                let kk = format!("{:?}", k);
                format!("[\"cast\",{},{},{}]", jstr(&kk), self.operand(o), self.ty(*t))
            }
            Rvalue::BinaryOp(op, ab) => {
                let (a, b) = &**ab;
                format!(
                    "[\"bin\",{},{},{}]",
                    jstr(&format!("{:?}", op)),
                    self.operand(a),
                    self.operand(b)
                )
            }
            Rvalue::UnaryOp(op, a) => {
                format!("[\"un\",{},{}]", jstr(&format!("{:?}", op)), self.operand(a))
            }
            Rvalue::Discriminant(p) => format!("[\"discr\",{}]", self.place(p)),
            Rvalue::Aggregate(k, ops) => {
                let kind = match &**k {
                    AggregateKind::Array(t) => format!("{{\"k\":\"array\",\"ty\":{}}}", self.ty(*t)),
                    AggregateKind::Tuple => "{\"k\":\"tuple\"}".to_string(),
                    AggregateKind::Adt(did, vi, args, _, active) => {
                        self.note_adt(*did);
                        let a = self.generic_args(args);
                        format!(
                            "{{\"k\":\"adt\",\"path\":{},\"variant\":{},\"args\":{},\"union_field\":{}}}",
                            jstr(&self.path(*did)),
                            vi.as_usize(),
                            a,
                            match active {
                                Some(f) => format!("{}", f.as_usize()),
                                None => "null".to_string(),
                            }
                        )
                    }
                    AggregateKind::Closure(did, _) => {
                        format!("{{\"k\":\"closure\",\"path\":{}}}", jstr(&self.path(*did)))
                    }
                    other => format!("{{\"k\":\"other\",\"text\":{}}}", jstr(&format!("{:?}", other))),
                };
                let v: Vec<String> = ops.iter().map(|o| self.operand(o)).collect();
                format!("[\"agg\",{},{}]", kind, jlist(&v))
            }
            Rvalue::CopyForDeref(p) => format!("[\"use\",[\"cp\",{}]]", self.place(p)),
            Rvalue::ThreadLocalRef(d) => format!("[\"tls\",{}]", jstr(&self.path(*d))),
            other => format!("[\"other\",{}]", jstr(&format!("{:?}", other))),
        }
    }

    fn block(&mut self, bb: &BasicBlockData<'tcx>) -> String {
        let mut stmts = Vec::new();
        for st in bb.statements.iter() {
            match &st.kind {
                StatementKind::Assign(b) => {
                    let (p, r) = &**b;
                    let pl = self.place(p);
                    let rv = self.rvalue(r);
                    let sp = self.span(st.source_info.span);
                    stmts.push(format!("[\"=\",{},{},{}]", pl, rv, sp));
                }
                StatementKind::SetDiscriminant { place, variant_index } => {
                    let pl = self.place(place);
                    let sp = self.span(st.source_info.span);
                    stmts.push(format!("[\"setdiscr\",{},{},{}]", pl, variant_index.as_usize(), sp));
                }
                StatementKind::Intrinsic(i) => {
                    let sp = self.span(st.source_info.span);
                    stmts.push(format!("[\"intrinsic\",{},{}]", jstr(&format!("{:?}", i)), sp));
                }
                _ => {}
            }
        }
        let term = bb.terminator();
        let sp = self.span(term.source_info.span);
        let t = match &term.kind {
            TerminatorKind::Goto { target } => format!("{{\"k\":\"goto\",\"t\":{}}}", target.as_usize()),
            TerminatorKind::SwitchInt { discr, targets } => {
                let mut arms = Vec::new();
                for (v, t) in targets.iter() {
                    arms.push(format!("[{},{}]", v, t.as_usize()));
                }
                format!(
                    "{{\"k\":\"switch\",\"discr\":{},\"arms\":{},\"otherwise\":{},\"span\":{}}}",
                    self.operand(discr),
                    jlist(&arms),
                    targets.otherwise().as_usize(),
                    sp
                )
            }
            TerminatorKind::Return => format!("{{\"k\":\"return\",\"span\":{}}}", sp),
            TerminatorKind::Unreachable => format!("{{\"k\":\"unreachable\",\"span\":{}}}", sp),
            TerminatorKind::UnwindResume => "{\"k\":\"resume\"}".to_string(),
            TerminatorKind::UnwindTerminate(_) => "{\"k\":\"abort\"}".to_string(),
            TerminatorKind::Drop { place, target, .. } => format!(
                "{{\"k\":\"drop\",\"place\":{},\"t\":{},\"span\":{}}}",
                self.place(place),
                target.as_usize(),
                sp
            ),
            TerminatorKind::Call { func, args, destination, target, fn_span, .. } => {
                let f = match func {
                    Operand::Constant(c) => match c.const_.ty().kind() {
                        ty::FnDef(did, ga) => self.fn_ref(*did, ga),
                        _ => format!("{{\"indirect\":{}}}", self.operand(func)),
                    },
                    _ => format!("{{\"indirect\":{}}}", self.operand(func)),
                };
                let a: Vec<String> = args.iter().map(|x| self.operand(&x.node)).collect();
                let fsp = self.span(*fn_span);
                format!(
                    "{{\"k\":\"call\",\"f\":{},\"args\":{},\"dest\":{},\"t\":{},\"span\":{},\"fn_span\":{}}}",
                    f,
                    jlist(&a),
                    self.place(destination),
                    match target {
                        Some(t) => format!("{}", t.as_usize()),
                        None => "null".to_string(),
                    },
                    sp,
                    fsp
                )
            }
            TerminatorKind::Assert { cond, expected, msg, target, .. } => {
                let m = match &**msg {
                    AssertKind::BoundsCheck { len, index } => format!(
                        "{{\"k\":\"bounds\",\"len\":{},\"index\":{}}}",
                        self.operand(len),
                        self.operand(index)
                    ),
                    AssertKind::Overflow(op, a, b) => format!(
                        "{{\"k\":\"overflow\",\"op\":{},\"a\":{},\"b\":{}}}",
                        jstr(&format!("{:?}", op)),
                        self.operand(a),
                        self.operand(b)
                    ),
                    AssertKind::OverflowNeg(a) => {
                        format!("{{\"k\":\"overflow_neg\",\"a\":{}}}", self.operand(a))
                    }
                    AssertKind::DivisionByZero(a) => {
                        format!("{{\"k\":\"div_zero\",\"a\":{}}}", self.operand(a))
                    }
                    AssertKind::RemainderByZero(a) => {
                        format!("{{\"k\":\"rem_zero\",\"a\":{}}}", self.operand(a))
                    }
                    other => format!("{{\"k\":\"other\",\"text\":{}}}", jstr(&format!("{:?}", other))),
                };
                format!(
                    "{{\"k\":\"assert\",\"cond\":{},\"expected\":{},\"msg\":{},\"t\":{},\"span\":{}}}",
                    self.operand(cond),
                    expected,
                    m,
                    target.as_usize(),
                    sp
                )
            }
            TerminatorKind::FalseEdge { real_target, .. } => {
                format!("{{\"k\":\"goto\",\"t\":{}}}", real_target.as_usize())
            }
            TerminatorKind::FalseUnwind { real_target, .. } => {
                format!("{{\"k\":\"goto\",\"t\":{}}}", real_target.as_usize())
            }
            other => format!("{{\"k\":\"other\",\"text\":{}}}", jstr(&format!("{:?}", other))),
        };
        format!(
            "{{\"cleanup\":{},\"s\":{},\"t\":{}}}",
            bb.is_cleanup,
            jlist(&stmts),
            t
        )
    }

    fn body(&mut self, body: &Body<'tcx>) -> String {
        let locals: Vec<String> =
            body.local_decls.iter().map(|d| format!("{}", self.ty(d.ty))).collect();
        let mut names = Vec::new();
        for vdi in body.var_debug_info.iter() {
            if let mir::VarDebugInfoContents::Place(p) = &vdi.value {
                if p.projection.is_empty() {
                    names.push(format!("[{},{}]", p.local.as_usize(), jstr(vdi.name.as_str())));
                } else {
                    let pl = self.place(p);
                    names.push(format!("[{},{}]", pl, jstr(vdi.name.as_str())));
                }
            }
        }
        let blocks: Vec<String> = body.basic_blocks.iter().map(|b| self.block(b)).collect();
        format!(
            "{{\"argc\":{},\"locals\":{},\"names\":{},\"blocks\":{}}}",
            body.arg_count,
            jlist(&locals),
            jlist(&names),
            jlist(&blocks)
        )
    }

    fn fn_entry(&mut self, did: DefId, depth: u32) -> Option<String> {
        let tcx = self.tcx;
        let kind = tcx.def_kind(did);
        self.cur_owner = Some(did);
        self.cur_depth = depth;
        let is_fn_like = matches!(kind, DefKind::Fn | DefKind::AssocFn | DefKind::Closure);
        let is_const_like = matches!(
            kind,
            DefKind::Const { .. } | DefKind::AssocConst { .. } | DefKind::Static { .. } | DefKind::AnonConst | DefKind::InlineConst
        );
        if !is_fn_like && !is_const_like {
            return None;
        }
        let body: &Body<'tcx> = if is_fn_like {
            if !did.is_local() && !tcx.is_mir_available(did) {
                return None;
            }
            tcx.optimized_mir(did)
        } else {
            if !did.is_local() {
                return None;
            }
            tcx.mir_for_ctfe(did.expect_local())
        };
        let b = self.body(body);
        let mut promoted = Vec::new();
        if did.is_local() && is_fn_like {
            let proms = tcx.promoted_mir(did);
            for p in proms.iter() {
                promoted.push(self.body(p));
            }
        }
        // assoc info
        let mut assoc = String::from("null");
        if matches!(kind, DefKind::AssocFn | DefKind::AssocConst { .. }) {
            let item = tcx.associated_item(did);
            let cont = tcx.parent(did);
            let ckind = tcx.def_kind(cont);
            match ckind {
                DefKind::Trait => {
                    assoc = format!(
                        "{{\"container\":\"trait\",\"trait\":{},\"has_default\":{}}}",
                        jstr(&self.path(cont)),
                        item.defaultness(tcx).has_value()
                    );
                }
                DefKind::Impl { of_trait } => {
                    let self_ty = tcx.type_of(cont).instantiate_identity().skip_norm_wip();
                    let st = self.ty(self_ty);
                    let (tr, ti) = if of_trait {
                        let trr = tcx.impl_trait_ref(cont).instantiate_identity().skip_norm_wip();
                        let ta = self.generic_args(trr.args);
                        let tip = match item.trait_item_def_id() {
                            Some(d) => jstr(&self.path(d)),
                            None => "null".to_string(),
                        };
                        (format!("{{\"path\":{},\"args\":{}}}", jstr(&self.path(trr.def_id)), ta), tip)
                    } else {
                        ("null".to_string(), "null".to_string())
                    };
                    assoc = format!(
                        "{{\"container\":\"impl\",\"self_ty\":{},\"trait\":{},\"trait_item\":{}}}",
                        st, tr, ti
                    );
                }
                _ => {}
            }
        }
        let (vis, reach) = if did.is_local() && matches!(kind, DefKind::Fn | DefKind::AssocFn) {
            let v = tcx.visibility(did);
            let r = tcx.effective_visibilities(()).is_reachable(did.expect_local());
            (if v.is_public() { "pub" } else { "restricted" }, r)
        } else {
            ("n/a", false)
        };
        let generics = tcx.generics_of(did);
        let mut gnames = Vec::new();
        let mut g = Some(generics);
        let mut chain = Vec::new();
        while let Some(gg) = g {
            chain.push(gg);
            g = gg.parent.map(|p| tcx.generics_of(p));
        }
        for gg in chain.iter().rev() {
            for p in gg.own_params.iter() {
                if !matches!(p.kind, ty::GenericParamDefKind::Lifetime) {
                    gnames.push(format!("[{},{}]", jstr(p.name.as_str()), p.index));
                }
            }
        }
        let sp = self.span(tcx.def_span(did));
        Some(format!(
            "{{\"path\":{},\"kind\":{},\"local\":{},\"vis\":\"{}\",\"reachable\":{},\"assoc\":{},\"generics\":{},\"span\":{},\"body\":{},\"promoted\":{}}}",
            jstr(&self.path(did)),
            jstr(&format!("{:?}", kind)),
            did.is_local(),
            vis,
            reach,
            assoc,
            jlist(&gnames),
            sp,
            b,
            jlist(&promoted)
        ))
    }
}

struct Cb;

impl Callbacks for Cb {
    fn after_analysis<'tcx>(&mut self, _c: &Compiler, tcx: TyCtxt<'tcx>) -> Compilation {
        let out = match std::env::var("MIRFACTS_OUT") {
            Ok(o) => o,
            Err(_) => return Compilation::Continue,
        };
        let crate_name = tcx.crate_name(LOCAL_CRATE).to_string();
        let wanted = std::env::var("MIRFACTS_CRATES")
            .unwrap_or_else(|_| "rustzx_z80,rustzx_core,aym,vtx,rustzx_utils".to_string());
        if !wanted.split(',').any(|w| w == crate_name) {
            return Compilation::Continue;
        }
        let tag = std::env::var("MIRFACTS_TAG").unwrap_or_else(|_| "A".to_string());
        let mut cx = Cx {
            tcx,
            crate_name: crate_name.clone(),
            types: Vec::new(),
            type_ix: HashMap::new(),
            files: Vec::new(),
            file_ix: HashMap::new(),
            adts: HashMap::new(),
            adt_order: Vec::new(),
            extern_queue: VecDeque::new(),
            extern_seen: HashSet::new(),
            cur_owner: None,
            cur_depth: 0,
        };
        let mut fns = Vec::new();
        let mut consts = Vec::new();
        let mut statics = Vec::new();
        for ldid in tcx.hir_body_owners() {
            let did = ldid.to_def_id();
            let kind = tcx.def_kind(did);
            if let Some(f) = cx.fn_entry(did, 0) {
                fns.push(f);
            }
            match kind {
                DefKind::Const { .. } | DefKind::AssocConst { .. } => {
                    cx.cur_owner = Some(did);
                    if tcx.generics_of(did).count() == 0 {
                        let t = tcx.type_of(did).instantiate_identity().skip_norm_wip();
                        let r = std::panic::catch_unwind(std::panic::AssertUnwindSafe(|| {
                            tcx.const_eval_poly(did)
                        }));
                        if let Ok(Ok(cv)) = r {
                            let tid = cx.ty(t);
                            let v = cx.const_value(cv, t, 0);
                            consts.push(format!(
                                "{{\"path\":{},\"ty\":{},\"v\":{}}}",
                                jstr(&cx.path(did)),
                                tid,
                                v
                            ));
                        }
                    }
                }
                DefKind::Static { .. } => {
                    cx.cur_owner = Some(did);
                    let t = tcx.type_of(did).instantiate_identity().skip_norm_wip();
                    if let Ok(alloc) = tcx.eval_static_initializer(did) {
                        let aid = tcx.reserve_and_set_memory_alloc(alloc);
                        let cv = ConstValue::Indirect { alloc_id: aid, offset: rustc_abi::Size::ZERO };
                        let tid = cx.ty(t);
                        let v = cx.const_value(cv, t, 0);
                        statics.push(format!(
                            "{{\"path\":{},\"ty\":{},\"v\":{}}}",
                            jstr(&cx.path(did)),
                            tid,
                            v
                        ));
                    }
                }
                _ => {}
            }
        }
        // all local ADTs, even when not mentioned by any body
        for id in tcx.hir_crate_items(()).definitions() {
            let did = id.to_def_id();
            if matches!(tcx.def_kind(did), DefKind::Struct | DefKind::Enum | DefKind::Union) {
                cx.note_adt(did);
            }
        }
        // library bodies reached only through generic library code (instance-driven)
        for ldid in tcx.hir_body_owners() {
            let did = ldid.to_def_id();
            let r = std::panic::catch_unwind(std::panic::AssertUnwindSafe(|| cx.discover_instances(did)));
            let _ = r;
        }
        // extern bodies, breadth first
        let mut n_ext = 0;
        while let Some((did, depth)) = cx.extern_queue.pop_front() {
            if n_ext > 4000 {
                break;
            }
            let r = std::panic::catch_unwind(std::panic::AssertUnwindSafe(|| cx.fn_entry(did, depth)));
            if let Ok(Some(f)) = r {
                fns.push(f);
                n_ext += 1;
            }
        }
        // trait impl table (local impls)
        let mut impls = Vec::new();
        for id in tcx.hir_crate_items(()).definitions() {
            let did = id.to_def_id();
            if let DefKind::Impl { of_trait: true } = tcx.def_kind(did) {
                cx.cur_owner = Some(did);
                let trr = tcx.impl_trait_ref(did).instantiate_identity().skip_norm_wip();
                let self_ty = tcx.type_of(did).instantiate_identity().skip_norm_wip();
                let st = cx.ty(self_ty);
                let ta = cx.generic_args(trr.args);
                let mut items = Vec::new();
                for it in tcx.associated_items(did).in_definition_order() {
                    if let Some(ti) = it.trait_item_def_id() {
                        items.push(format!(
                            "[{},{}]",
                            jstr(&cx.path(ti)),
                            jstr(&cx.path(it.def_id))
                        ));
                    }
                }
                impls.push(format!(
                    "{{\"trait\":{},\"trait_args\":{},\"self_ty\":{},\"items\":{}}}",
                    jstr(&cx.path(trr.def_id)),
                    ta,
                    st,
                    jlist(&items)
                ));
            }
        }
        let mut adts = Vec::new();
        let order = cx.adt_order.clone();
        for did in order {
            let s = cx.adts.get(&did).cloned().unwrap_or_default();
            adts.push(format!("{}:{}", jstr(&cx.path(did)), s));
        }
        let files: Vec<String> = cx.files.iter().map(|f| jstr(f)).collect();
        let mut o = String::new();
        let _ = write!(
            o,
            "{{\"crate\":{},\"tag\":{},\"files\":{},\"types\":{},\"adts\":{{{}}},\"impls\":{},\"consts\":{},\"statics\":{},\"fns\":{}}}",
            jstr(&crate_name),
            jstr(&tag),
            jlist(&files),
            jlist(&cx.types),
            adts.join(","),
            jlist(&impls),
            jlist(&consts),
            jlist(&statics),
            jlist(&fns)
        );
        let path = format!("{}/{}.{}.json", out, crate_name, tag);
        let tmp = format!("{}.tmp{}", path, std::process::id());
        std::fs::write(&tmp, o).expect("mirfacts: cannot write facts");
        std::fs::rename(&tmp, &path).expect("mirfacts: cannot rename facts");
        Compilation::Continue
    }
}

fn main() {
    let mut args: Vec<String> = std::env::args().collect();
    // invoked as wrapper: argv[1] is the path of the real rustc
    if args.len() > 1 && (args[1].ends_with("rustc") || args[1].contains("/rustc")) {
        args.remove(1);
    }
    run_compiler(&args, &mut Cb);
}
