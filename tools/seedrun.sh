#!/bin/bash
# usage: tools/seedrun.sh <seeded-dir> <check ids...> — apply a seeded change to /repo, run the named checks, undo it.
# Never leaves /repo modified: refuses to start on a dirty tree and restores it with git checkout.
d=$(readlink -f "$1"); shift
[ -z "$(git -C /repo status --porcelain)" ] || { echo "/repo is dirty; refusing"; exit 2; }
git -C /repo apply "$d/patch.diff" || exit 2
for c in "$@"; do
  out=$(/verif/check $c 2>&1); rc=$?
  echo "== $c rc=$rc"; echo "$out" | grep -A1 "^VIOLATION" | cut -c1-400 | head -12; echo "$out" | tail -1
done
git -C /repo checkout -- .
[ -z "$(git -C /repo status --porcelain)" ] || echo "WARNING: /repo still dirty"
# evidence/ must describe /repo itself: re-run the same checks on the restored tree
for c in "$@"; do /verif/check $c 2>&1 | tail -1; done
