#!/bin/bash
# usage: seedrun.sh <patch.diff> <Cnn>...   — scratch-copy run of the given checks against a patch (never touches /repo)
p=$1; shift
for c in "$@"; do SCRATCH_PATCH=$p /verif/selftest/scratch.sh sr-$c-$$ /verif/check $c 2>&1 | grep -E '^VIOLATION|^  |^\[C' | cut -c1-260 | head -12; done
