#!/bin/bash
# runs every check's quick (or $1) tier on /repo in parallel; prints the summary line of each
cd "$(dirname "$0")/.."
tier=${1:-quick}
for i in $(seq -w 1 20); do (./check C$i --tier $tier 2>&1 | grep -E '^\[C|^VIOLATION|^KNOWN|^OPEN' | cut -c1-220) & done; wait
