#!/usr/bin/env python3
"""Generate MANIFEST.json from the table below (keeps it schema-valid)."""
import json
import os

VERIF = os.path.dirname(os.path.dirname(os.path.abspath(__file__)))

ENGINE = "mirfacts+zxwalk"

# property id -> (level category, technique, level text, level note, design ref)
CLAIMS = {}
NOT_APPLICABLE = {}


def claim(pid, category, technique, text, note, ref):
    CLAIMS[pid] = (category, technique, text, note, ref)


exec(open(os.path.join(VERIF, "tools", "claims.py")).read())

ALL = ["C%02d" % i for i in range(1, 21)]

checks = []
for pid in ALL:
    if pid not in CLAIMS:
        continue
    cat, tech, text, note, ref = CLAIMS[pid]
    checks.append({
        "property_id": pid,
        "quick_cmd": "./check %s --tier quick" % pid,
        "thorough_cmd": "./check %s --tier thorough" % pid,
        "evidence_file": "/verif/evidence/%s.json" % pid,
        "replay_cmd_template": "./check %s --replay {path}" % pid,
        "engine": ENGINE,
        "level_claimed": {"category": cat, "text": text, "design_ref": ref},
        "level_note": note,
        "technique": tech,
    })

na = []
for pid in ALL:
    if pid not in CLAIMS:
        na.append({"property_id": pid, "reason": NOT_APPLICABLE.get(
            pid, "rules for this property are not armed yet (static-analysis design in DESIGN.md §3); no check is registered until its rule runs clean or with triaged findings")})

m = {
    "version": 1,
    "setup_cmd": "cd /verif/tools/mirfacts && CARGO_NET_OFFLINE=true cargo build --release --offline",
    "hooks": {
        "guard": "rustzx_verif",
        "enable": "none needed: every check is a static analysis of MIR facts extracted by `cargo +nightly check` with RUSTC_WORKSPACE_WRAPPER=tools/mirfacts; nothing in /repo is executed or instrumented",
        "baseline_off_cmd": "cd /repo && cargo test --workspace --no-fail-fast --offline",
        "source_commits": [],
        "add_only": True,
    },
    "engines": [
        {"name": "mirfacts", "path": "tools/mirfacts", "serves_properties": sorted(CLAIMS),
         "kind_free_text": "rustc_private driver: resolved MIR, ADTs, evaluated consts/statics, impl table as JSON facts"},
        {"name": "zxwalk", "path": "zx/", "serves_properties": sorted(CLAIMS),
         "kind_free_text": "path-sensitive abstract interpreter over MIR facts (SCCP, bit provenance, effect traces, mod-ref)"},
    ],
    "checks": checks,
    "not_applicable": na,
    "notes": "Static analysis only (see DESIGN.md). Checks share one cached fact extraction per tree hash under /verif/.cache.",
}
with open(os.path.join(VERIF, "MANIFEST.json"), "w") as fh:
    json.dump(m, fh, indent=1)
print("MANIFEST.json: %d checks, %d not_applicable" % (len(checks), len(na)))
