#!/usr/bin/env python3
"""Write the prompt given to a fresh sub-agent that seeds a realistic property-breaking change.
usage: mkseedprompt.py <property id> <worktree dir> [extra hint]  -> prompt text on stdout
The prompt contains only the property's title/statement/quantifier (nothing from /verif's machinery)."""
import json, sys
pid, wt = sys.argv[1], sys.argv[2]
extra = sys.argv[3] if len(sys.argv) > 3 else ""
p = [json.loads(l) for l in open("/verif/properties.jsonl") if l.strip()]
p = [x for x in p if x["id"] == pid][0]
print(f"""You are helping to evaluate a verification tool by writing ONE realistic bug ("seeded change") for the Rust project rustzx (a ZX Spectrum emulator). Work ONLY inside the git worktree {wt} (a checkout of the repository). Do NOT read, list or use anything under /verif or /root/.vp, and do not touch /repo itself.

The property your change must break:

TITLE: {p['title']}
STATEMENT: {p['statement']}
QUANTIFIED OVER: {p['quantifier']['text']}

Your task:
1. Read the relevant source in {wt} and devise a small, realistic source change (the kind of slip a maintainer could make in a refactor or "optimisation") that BREAKS this property, but
   - still compiles (the whole workspace: `cd {wt} && cargo build --workspace --offline`),
   - still passes the ENTIRE existing test suite unchanged: `cd {wt} && cargo test --workspace --no-fail-fast --offline` (takes ~3-5 minutes; you must actually run it and confirm 0 failures),
   - needs something SPECIFIC to manifest: a particular opcode/operand combination, a rarely used instruction form, a particular interleaving or multi-step sequence of operations, an unusual input file, a particular machine model/configuration, or two cooperating sites that each look fine alone. It must NOT be something ordinary use or the existing tests would expose at once.
   {extra}
2. Write a demonstration: a new Rust test (preferred: a file under the relevant crate's `tests/` directory, or a `#[cfg(test)]` test, or a tiny example program) that FAILS with your change applied and PASSES on the unmodified code. Verify both directions yourself (use `git stash` / `git checkout` inside {wt} to compare). The demonstration must only use the public API of the crates (rustzx-core, rustzx-z80, aym, vtx, rustzx-utils) or in-crate unit tests.
3. Leave the results in the directory {wt}/_seed/ :
   - patch.diff : `git diff` of ONLY the bug (source change), relative to the worktree HEAD, applicable with `git apply` from the repository root. Do NOT include the demonstration test in patch.diff.
   - demo.diff : a separate `git diff`-style patch adding the demonstration test/program (new files included, e.g. via `git add -N` before `git diff`), applicable with `git apply` from the repository root.
   - README.md : which property it breaks, what exactly must happen for the bug to manifest, the exact commands you ran and their observed results (with-change: demo fails, suite passes; without-change: demo passes). State the exact `cargo test ...` command that runs the demonstration.
   Then restore the worktree sources to the unmodified state (git checkout -- . ; remove untracked test files outside _seed/), keeping only _seed/.

Constraints: no network; use `--offline` with cargo; do not add dependencies; do not edit existing tests; keep the change to a few lines. Build output goes to {wt}/target (fine). If your first idea is caught by the existing tests, try another. Report back a short summary (what you changed, how it manifests, the demo command, and confirmation of the four runs).""")
