#!/usr/bin/env python3
"""Prompt for a sub-agent that writes behaviour-PRESERVING refactorings (equivalent mutants) of one area of rustzx.
usage: mkbenignprompt.py <worktree> <area description> [structural]"""
import sys
wt, area = sys.argv[1], sys.argv[2]
KINDS = ("Think of what a maintainer does in a clean-up: extract a helper function or inline one, replace a `match` by `if/else` chains or a lookup table (or vice versa), reorder independent statements, rename locals/private items, replace an arithmetic idiom by an equivalent one (e.g. `x % 8` -> `x & 7` for unsigned x, `(a as u16) << 8 | b as u16` -> `u16::from_be_bytes([a, b])`), hoist a common sub-expression, change a `for` over a range into an iterator chain, split a function in two, convert a chain of `|=` into one expression, replace a bool flag pair by an early return, etc.")
if len(sys.argv) > 3 and sys.argv[3] == "structural":
    KINDS = ("This round is about REORGANISATION rather than rewriting expressions. Think of what a maintainer does when tidying a code base: rename private / pub(crate) functions, methods, struct fields, enum variants, constants, types or modules to clearer names (consistently, everywhere they are used); move a function, type or constant to another module or file (or rename / split a module); turn a method into a free function or an associated function (or the reverse); move a method from one impl block / type to a more fitting one, passing what it needs; reorder struct fields, enum variants (without changing explicit discriminants or derived ordering that is relied on), impl blocks or parameters; turn a tuple struct or a bool pair into a named struct; merge two small private functions or split one; wrap a primitive in a private newtype; replace a private helper by a closure or the reverse. Do NOT rename or change the signature of anything the tests or the other workspace crates use from outside the crate (keep the public API intact).")
print(f"""You are helping to evaluate a static verification tool for false alarms. Work ONLY inside the git worktree {wt} (a checkout of the Rust project rustzx, a ZX Spectrum emulator). Do NOT read, list or use anything under /verif or /root/.vp, and do not touch /repo itself.

Your task: write FOUR independent, realistic, strictly BEHAVIOUR-PRESERVING refactorings of this area of the code:

    {area}

"Behaviour-preserving" is meant strictly: for every input, machine state and call sequence, every observable result stays exactly the same — same register/flag/memory results, same sequence and timing of bus cycles (wait/read/write calls with the same arguments in the same order), same port decoding, same file parsing results and errors, same pixels and samples, no new panics and no removed checks. Only the SHAPE of the code changes. {KINDS} Each refactoring should touch real logic (not only comments/whitespace) and be 5-40 changed lines. Make the four as DIFFERENT in kind as you can.

For each refactoring k = 1..4:
  1. start from the clean worktree (git checkout -- .), make the change,
  2. check that the workspace builds: `cd {wt} && cargo build --workspace --offline`,
  3. save it: `git diff > {wt}/_benign/k.diff` (applicable with `git apply` from the repository root),
  4. write `{wt}/_benign/k.md`: what was changed and a careful argument why behaviour is identical for ALL inputs (consider integer overflow/wrap-around, evaluation order of side effects, debug assertions, borrow/aliasing, short-circuiting).
After all four: apply ALL FOUR together if they do not conflict (otherwise one at a time) and run the full test suite once per combination you need: `cd {wt} && cargo test --workspace --no-fail-fast --offline` (3-5 minutes) — every test must pass. Record the result in `{wt}/_benign/SUMMARY.md`. Finally restore the worktree (git checkout -- .), keeping only `_benign/`.

Constraints: no network; `--offline` with cargo; no new dependencies; do not edit tests; if you are not CERTAIN a change is behaviour-preserving, do not include it — pick another. Report back a short summary of the four refactorings.""")
