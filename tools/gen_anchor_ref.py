#!/usr/bin/env python3
"""Writes /verif/anchors_ref.json: the structural inventory (types with their fields, constants, function signatures and
callee sets) of the tree the rules were confirmed on, for both feature configurations.  zx/renorm.py identifies renamed or
moved items of a later tree against it.  Re-run after a deliberate change of /repo (a `fix:` commit)."""
import json, os, sys
sys.path.insert(0, os.path.dirname(os.path.dirname(os.path.abspath(__file__))))
os.environ["VERIF_NO_RENORM"] = "1"
from zx import extract, renorm
out = {}
for tag in ("A", "B"):
    d = extract.facts_dir(tag)
    out[tag] = {}
    for c in extract.CONFIG_CRATES[tag]:
        raw = json.load(open(os.path.join(d, "%s.%s.json" % (c, tag))))
        out[tag][c] = renorm.inventory(raw)
        print(tag, c, dict((k, len(v)) for k, v in out[tag][c].items()))
from zx import facts
for tag in ("A", "B"):
    prog = facts.Program(tag)
    out[tag]["_seq"] = renorm.named_sequences(prog)
    print(tag, "member-access sequences:", len(out[tag]["_seq"]), "functions,", sum(len(v) for v in out[tag]["_seq"].values()), "tokens")
json.dump(out, open(renorm.REF_FILE, "w"), separators=(",", ":"), sort_keys=True)
print(os.path.getsize(renorm.REF_FILE), "bytes")
