#!/bin/bash
# Confirms a seeded change inside its scratch worktree: builds, runs the whole suite with the change, runs the demonstration
# with and without it.  Results: /var/tmp/seed-<tag>-{build,suite,demo-with,demo-without}.log and -summary.txt
# usage: confirm_seed.sh <worktree> <tag> <demo cargo test args...>
wt=$1; tag=$2; shift 2
cd $wt || exit 2
export CARGO_NET_OFFLINE=true
git checkout -- . 2>/dev/null
L=/var/tmp/seed-$tag
git apply _seed/patch.diff || { echo "patch apply failed" > $L-summary.txt; exit 2; }
cargo build --workspace --offline > $L-build.log 2>&1; b=$?
cargo test --workspace --no-fail-fast --offline > $L-suite.log 2>&1; s=$?
git apply _seed/demo.diff || echo "demo apply failed" >> $L-summary.txt
cargo test "$@" --offline > $L-demo-with.log 2>&1; dw=$?
git apply -R _seed/patch.diff
cargo test "$@" --offline > $L-demo-without.log 2>&1; dwo=$?
git apply -R _seed/demo.diff; git checkout -- . ; git clean -fdq -e _seed -e target
echo "build=$b suite=$s (ok-lines $(grep -c 'test result: ok' $L-suite.log), failed-lines $(grep -c 'test result: FAILED' $L-suite.log)) demo-with=$dw demo-without=$dwo" >> $L-summary.txt
