#!/bin/bash
# Runs every check on every behaviour-preserving variant in selftest/benign/*.diff (scratch copies of /repo under
# ${VERIF_SCRATCH:-/var/tmp}, removed afterwards).  Every variant must stay silent, except those listed in
# selftest/benign/KNOWN_LIMITS (checker limitation, documented in DESIGN.md 9.8).
# usage: [CHECKS="C10 C12"] selftest/run_benign.sh [jobs] [variant.diff ...]
V=$(cd "$(dirname "$0")/.." && pwd)
jobs=${1:-4}; shift
one() {
  V=$1; p=$(readlink -f "$2"); name=$(basename "$p" .diff)
  base=${VERIF_SCRATCH:-/var/tmp}/verif-benign-$name-$$
  rm -rf "$base"; mkdir -p "$base"; rsync -a --exclude target --exclude .git /repo/ "$base/"
  if ! (cd "$base" && patch -p1 -s < "$p"); then echo "$name PATCH-FAILED"; rm -rf "$base"; return; fi
  out=$(for c in ${CHECKS:-C01 C02 C03 C04 C05 C06 C07 C08 C09 C10 C11 C12 C13 C14 C15 C16 C17 C18 C19 C20}; do
    VERIF_REPO=$base VERIF_SECOND_PASS=benign-$name "$V/check" $c 2>&1; done)
  rm -rf "$base"
  echo "$name alarms=$(echo "$out" | grep -c '^VIOLATION') $(echo "$out" | grep '^VIOLATION' | sed 's/ replay=.*//' | sort -u | tr '\n' ' ')$(echo "$out" | grep -A1 '^VIOLATION' | grep '^  ' | cut -c1-160 | head -3 | tr '\n' '|')"
}
export -f one
if [ $# -gt 0 ]; then files=("$@"); else files=("$V"/selftest/benign/*.diff); fi
printf '%s\n' "${files[@]}" | xargs -P "$jobs" -I{} bash -c 'one "$0" "$1"' "$V" {}
