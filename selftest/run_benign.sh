#!/bin/bash
# Runs every check on every behaviour-preserving variant in selftest/benign/*.diff (scratch copies of /repo under
# ${VERIF_SCRATCH:-/var/tmp}, removed afterwards).  Every variant must stay silent, except those listed in
# selftest/benign/KNOWN_LIMITS (checker limitation, documented in DESIGN.md 9.8).
# usage: selftest/run_benign.sh [jobs]
cd "$(dirname "$0")/.."
jobs=${1:-4}
one() {
  p=$1; name=$(basename $p .diff)
  base=${VERIF_SCRATCH:-/var/tmp}/verif-benign-$name-$$
  rm -rf $base; mkdir -p $base; rsync -a --exclude target --exclude .git /repo/ $base/
  (cd $base && patch -p1 -s < $(readlink -f $p)) || { echo "$name PATCH-FAILED"; rm -rf $base; return; }
  out=$(for c in C01 C02 C03 C04 C05 C06 C07 C08 C09 C10 C11 C12 C13 C14 C15 C16 C17 C18 C19 C20; do
    VERIF_REPO=$base VERIF_SECOND_PASS=benign-$name ./check $c 2>&1; done)
  rm -rf $base
  echo "$name alarms=$(echo "$out" | grep -c '^VIOLATION') $(echo "$out" | grep '^VIOLATION' | sed 's/ replay=.*//' | sort -u | tr '\n' ' ')"
}
export -f one
ls selftest/benign/*.diff | xargs -P $jobs -n 1 -I{} bash -c 'one {}'
