#!/bin/bash
# Runs, for every seeded property-breaking change in seeded/<id>/ (scratch copy of /repo under ${VERIF_SCRATCH:-/var/tmp},
# removed afterwards), the checks named in its meta.json (its property and every Cnn mentioned under detected_by).
# Every seeded change must be reported by at least one of them.  /repo itself is never touched.
# usage: [OWN=1] selftest/run_seeded.sh [jobs] [seeded-dir ...]   (OWN=1: only the check of the seeded property itself)
V=$(cd "$(dirname "$0")/.." && pwd)
jobs=${1:-4}; shift
one() {
  V=$1; d=$(readlink -f "$2"); name=$(basename "$d")
  base=${VERIF_SCRATCH:-/var/tmp}/verif-seeded-$name-$$
  rm -rf "$base"; mkdir -p "$base"; rsync -a --exclude target --exclude .git /repo/ "$base/"
  if ! (cd "$base" && patch -p1 -s < "$d/patch.diff"); then echo "$name PATCH-FAILED"; rm -rf "$base"; return; fi
  checks=$(python3 -c "
import json,re,sys
m=json.load(open('$d/meta.json')); s=set([m['property']])
import os
if not os.environ.get('OWN'):
    for x in m.get('detected_by',[]): s|=set(re.findall(r'\bC\d\d\b',x))
print(' '.join(sorted(s)))")
  out=$(for c in $checks; do VERIF_REPO=$base VERIF_SECOND_PASS=seeded-$name "$V/check" $c 2>&1; done)
  rm -rf "$base"
  n=$(echo "$out" | grep -c '^VIOLATION')
  if [ "$n" -gt 0 ]; then st=DETECTED; else st=MISSED; fi
  echo "$name $st ($checks) alarms=$n $(echo "$out" | grep -A1 '^VIOLATION' | grep '^  ' | cut -c1-110 | head -2 | tr '\n' '|')"
}
export -f one
if [ $# -gt 0 ]; then dirs=("$@"); else dirs=("$V"/seeded/*/); fi
printf '%s\n' "${dirs[@]}" | xargs -P "$jobs" -I{} bash -c 'one "$0" "$1"' "$V" {}
