use rustzx_core::{
    host::{
        BufferCursor, FrameBuffer, FrameBufferSource, Host, HostContext, RomFormat, RomSet,
        Stopwatch, StubDebugInterface, StubIoExtender,
    },
    zx::{
        machine::ZXMachine,
        sound::ay::ZXAYMode,
        video::colors::{ZXBrightness, ZXColor},
    },
    EmulationMode, EmulationStopReason, Emulator, RustzxSettings,
};
use std::{collections::VecDeque, time::Duration};

const ROM_PAGE_SIZE: usize = 16 * 1024;
const COUNTER_ADDR: u16 = 0x8000;

struct NullFrameBuffer;

impl FrameBuffer for NullFrameBuffer {
    type Context = ();

    fn new(_: usize, _: usize, _: FrameBufferSource, _: Self::Context) -> Self {
        Self
    }

    fn set_color(&mut self, _: usize, _: usize, _: ZXColor, _: ZXBrightness) {}
}

struct NullStopwatch;

impl Stopwatch for NullStopwatch {
    fn new() -> Self {
        Self
    }

    fn measure(&self) -> Duration {
        Duration::from_secs(0)
    }
}

struct DemoContext;

impl HostContext<DemoHost> for DemoContext {
    fn frame_buffer_context(&self) {}
}

struct DemoHost;

impl Host for DemoHost {
    type Context = DemoContext;
    type DebugInterface = StubDebugInterface;
    type EmulationStopwatch = NullStopwatch;
    type FrameBuffer = NullFrameBuffer;
    type IoExtender = StubIoExtender;
    type TapeAsset = BufferCursor<Vec<u8>>;
}

struct DemoRomSet {
    pages: VecDeque<Vec<u8>>,
}

impl RomSet for DemoRomSet {
    type Asset = BufferCursor<Vec<u8>>;

    fn format(&self) -> RomFormat {
        RomFormat::Binary16KPages
    }

    fn next_asset(&mut self) -> Option<Self::Asset> {
        self.pages.pop_front().map(BufferCursor::new)
    }
}

fn settings(machine: ZXMachine) -> RustzxSettings {
    RustzxSettings {
        machine,
        emulation_mode: EmulationMode::FrameCount(1),
        tape_fastload_enabled: false,
        kempston_enabled: false,
        mouse_enabled: false,
        ay_mode: ZXAYMode::ABC,
        ay_enabled: false,
        beeper_enabled: false,
        sound_enabled: false,
        sound_volume: 100,
        sound_sample_rate: 44100,
        load_default_rom: false,
        autoload_enabled: false,
    }
}


fn program_rom() -> Vec<u8> {
    let mut rom = vec![0u8; ROM_PAGE_SIZE];
    let program: &[u8] = &[
        0xF3, // DI
        0x31, 0x00, 0xC0, // LD SP,0xC000
        0x01, 0xFD, 0x7F, // LD BC,0x7FFD
        0x3E, 0x0F, // LD A,0x0F       bank 7 at 0xC000, shadow screen (bit 3) displayed
        0xED, 0x79, // OUT (C),A
        0x21, 0x00, 0xC0, // LD HL,0xC000
        0x11, 0x01, 0xC0, // LD DE,0xC001
        0x01, 0xFF, 0x1A, // LD BC,0x1AFF
        0x36, 0xAA, // LD (HL),0xAA    bank 7 screen = 0xAA
        0xED, 0xB0, // LDIR
        0x21, 0x00, 0x40, // LD HL,0x4000
        0x11, 0x01, 0x40, // LD DE,0x4001
        0x01, 0xFF, 0x1A, // LD BC,0x1AFF
        0x36, 0x55, // LD (HL),0x55    bank 5 screen = 0x55
        0xED, 0xB0, // LDIR
        0x01, 0xFF, 0x3F, // LD BC,0x3FFF   no device at this port, high byte in the (uncontended) ROM window
        // loop: sample the floating bus until the ULA is caught fetching
        0xED, 0x78, // IN A,(C)
        0xFE, 0xFF, // CP 0xFF
        0x28, 0xFA, // JR Z,loop
        0x32, 0x00, 0x80, // LD (0x8000),A
        0x76, // HALT
    ];
    rom[..program.len()].copy_from_slice(program);
    rom
}

#[test]
fn floating_bus_shows_the_displayed_screen_bank_128k() {
    let mut emulator = Emulator::<DemoHost>::new(settings(ZXMachine::Sinclair128K), DemoContext)
        .expect("emulator init failed");
    let pages = VecDeque::from(vec![program_rom(), vec![0u8; ROM_PAGE_SIZE]]);
    emulator.load_rom(DemoRomSet { pages }).expect("rom load failed");
    for _ in 0..20 {
        emulator.emulate_frames(Duration::from_secs(1)).expect("emulation failed");
    }
    // the ULA displays (and therefore fetches) bank 7, which holds 0xAA everywhere
    eprintln!("4000={:02X} 5AFF={:02X} C000={:02X} 8000={:02X}", emulator.peek(0x4000), emulator.peek(0x5AFF), emulator.peek(0xC000), emulator.peek(0x8000));
    assert_eq!(emulator.peek(COUNTER_ADDR), 0xAA);
}
