use rustzx_core::{
    host::{
        Screen,
        BufferCursor, FrameBuffer, FrameBufferSource, Host, HostContext, RomFormat, RomSet,
        Stopwatch, StubDebugInterface, StubIoExtender,
    },
    zx::{
        machine::ZXMachine,
        sound::ay::ZXAYMode,
        video::colors::{ZXBrightness, ZXColor},
    },
    EmulationMode, Emulator, RustzxSettings,
};
use std::{collections::VecDeque, time::Duration};

const ROM_PAGE_SIZE: usize = 16 * 1024;

struct NullFrameBuffer;

impl FrameBuffer for NullFrameBuffer {
    type Context = ();

    fn new(_: usize, _: usize, _: FrameBufferSource, _: Self::Context) -> Self {
        Self
    }

    fn set_color(&mut self, _: usize, _: usize, _: ZXColor, _: ZXBrightness) {}
}

struct NullStopwatch;

impl Stopwatch for NullStopwatch {
    fn new() -> Self {
        Self
    }

    fn measure(&self) -> Duration {
        Duration::from_secs(0)
    }
}

struct DemoContext;

impl HostContext<DemoHost> for DemoContext {
    fn frame_buffer_context(&self) {}
}

struct DemoHost;

impl Host for DemoHost {
    type Context = DemoContext;
    type DebugInterface = StubDebugInterface;
    type EmulationStopwatch = NullStopwatch;
    type FrameBuffer = NullFrameBuffer;
    type IoExtender = StubIoExtender;
    type TapeAsset = BufferCursor<Vec<u8>>;
}

struct DemoRomSet {
    pages: VecDeque<Vec<u8>>,
}

impl RomSet for DemoRomSet {
    type Asset = BufferCursor<Vec<u8>>;

    fn format(&self) -> RomFormat {
        RomFormat::Binary16KPages
    }

    fn next_asset(&mut self) -> Option<Self::Asset> {
        self.pages.pop_front().map(BufferCursor::new)
    }
}

fn settings(machine: ZXMachine) -> RustzxSettings {
    RustzxSettings {
        machine,
        emulation_mode: EmulationMode::FrameCount(1),
        tape_fastload_enabled: false,
        kempston_enabled: false,
        mouse_enabled: false,
        ay_mode: ZXAYMode::ABC,
        ay_enabled: false,
        beeper_enabled: false,
        sound_enabled: false,
        sound_volume: 100,
        sound_sample_rate: 44100,
        load_default_rom: false,
        autoload_enabled: false,
    }
}


fn program_rom() -> Vec<u8> {
    let mut rom = vec![0u8; ROM_PAGE_SIZE];
    let program: &[u8] = &[
        0xF3, // DI
        0x31, 0x00, 0xC0, // LD SP,0xC000
        0x21, 0x20, 0x00, // LD HL,0x0020
        0x11, 0x03, 0x80, // LD DE,0x8003   behind the 3-byte JP the SCR loader will place at 0x8000
        0x01, 0x07, 0x00, // LD BC,7
        0xED, 0xB0, // LDIR
        0xED, 0x56, // IM 1
        0xFB, // EI
        0x76, // HALT               <- the program idles here, as frame-synchronised programs do
        0x18, 0xFD, // JR -3
    ];
    rom[..program.len()].copy_from_slice(program);
    // copied to 0x8003: LD HL,0x4000 ; LD (HL),0xFF ; JR $
    rom[0x20..0x27].copy_from_slice(&[0x21, 0x00, 0x40, 0x36, 0xFF, 0x18, 0xFE]);
    // IM 1 handler: EI ; RET
    rom[0x38..0x3A].copy_from_slice(&[0xFB, 0xC9]);
    rom
}

#[test]
fn scr_loaded_into_a_halted_machine_stays_on_screen() {
    let mut emulator = Emulator::<DemoHost>::new(settings(ZXMachine::Sinclair48K), DemoContext)
        .expect("emulator init failed");
    let pages = VecDeque::from(vec![program_rom()]);
    emulator.load_rom(DemoRomSet { pages }).expect("rom load failed");
    for _ in 0..3 {
        emulator.emulate_frames(Duration::from_secs(1)).expect("emulation failed");
    }
    // the program is sitting in HALT now; show a blank picture
    emulator
        .load_screen(Screen::Scr(BufferCursor::new(vec![0u8; 6912])))
        .expect("scr load failed");
    for _ in 0..3 {
        emulator.emulate_frames(Duration::from_secs(1)).expect("emulation failed");
    }
    // the loader parks the CPU in `JP 0x8000`; nothing may touch the picture afterwards
    assert_eq!(emulator.peek(0x4000), 0x00, "the CPU left the loader's idle loop and overwrote the loaded picture");
}
