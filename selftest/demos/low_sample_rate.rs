//! Output must stay bounded for every supported sample rate, including the ones below clock/64.
use aym::{AymBackend, AymPrecise, AyMode, SoundChip};

fn peak(sample_rate: usize) -> f64 {
    let mut ay = AymPrecise::new(SoundChip::AY, AyMode::Mono, 1_773_400, sample_rate);
    ay.write_register(0, 0x50); // tone A period
    ay.write_register(1, 0x01);
    ay.write_register(7, 0b0011_1110); // tone A on
    ay.write_register(8, 0x0F); // full volume
    let mut peak = 0f64;
    for _ in 0..sample_rate {
        let s = ay.next_sample();
        peak = peak.max(s.left.abs()).max(s.right.abs());
    }
    peak
}

#[test]
fn samples_are_bounded_at_every_rate() {
    for rate in [8000usize, 11025, 16000, 22050, 27000, 32000, 44100, 48000] {
        let p = peak(rate);
        assert!(p.is_finite() && p <= 2.0, "sample rate {}: peak amplitude {}", rate, p);
    }
}
