#!/bin/bash
# Own mutants (selftest/mutants/cNN-*.diff, written by me while looking for gaps - not sub-agent seeds): each must be
# reported by the check of the property in its name.  Scratch copies only; /repo is never touched.
# usage: selftest/run_mutants.sh [jobs]
V=$(cd "$(dirname "$0")/.." && pwd)
jobs=${1:-4}
one() {
  V=$1; p=$(readlink -f "$2"); name=$(basename "$p" .diff); c=$(echo "${name%%-*}" | tr a-z A-Z)
  out=$(SCRATCH_PATCH=$p "$V/selftest/scratch.sh" mut-$name "$V/check" $c 2>&1)
  n=$(echo "$out" | grep -c '^VIOLATION')
  if [ "$n" -gt 0 ]; then st=DETECTED; else st=MISSED; fi
  echo "$name $st ($c) $(echo "$out" | grep -A1 '^VIOLATION' | grep '^  ' | cut -c1-120 | head -1)"
}
export -f one
printf '%s\n' "$V"/selftest/mutants/*.diff | xargs -P "$jobs" -I{} bash -c 'one "$0" "$1"' "$V" {}
