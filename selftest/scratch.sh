#!/bin/bash
# usage: scratch.sh <name> <command...>   — run a command with VERIF_REPO pointing at a scratch copy of /repo
# the scratch copy lives under ${VERIF_SCRATCH:-/var/tmp} and is removed afterwards.
# The mutation is given through env SCRATCH_SED="file|sed-expr@@file|sed-expr" or SCRATCH_PATCH=<diff file>
set -u
name=$1; shift
base=${VERIF_SCRATCH:-/var/tmp}/verif-scratch-$name-$$
rm -rf "$base"; mkdir -p "$base"
rsync -a --exclude target --exclude .git /repo/ "$base/"
if [ -n "${SCRATCH_PATCH:-}" ]; then
  (p=$(readlink -f "$SCRATCH_PATCH"); cd "$base" && patch -p1 -s < "$p") || { echo "PATCH-FAILED"; rm -rf "$base"; exit 3; }
fi
if [ -n "${SCRATCH_SED:-}" ]; then
  mapfile -t parts < <(printf '%s\n' "${SCRATCH_SED//@@/$'\n'}")
  for p in "${parts[@]}"; do
    [ -z "$p" ] && continue
    f=${p%%|*}; e=${p#*|}
    before=$(md5sum "$base/$f" | cut -d' ' -f1)
    sed -i -E "$e" "$base/$f"
    after=$(md5sum "$base/$f" | cut -d' ' -f1)
    [ "$before" = "$after" ] && { echo "SED-NOOP $f $e"; rm -rf "$base"; exit 3; }
  done
fi
VERIF_REPO="$base" "$@"
rc=$?
rm -rf "$base"
exit $rc
