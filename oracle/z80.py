"""Z80 oracle written from the documentation (Zilog manual, Sean Young's "Undocumented Z80", the
WoS/FUSE contention breakdown), generated over the x/y/z/p/q decomposition of the opcode byte —
independently of rustzx's match structure.

timing(group, op) -> list of variants (name, predicate | None, events)
  events:  ('R', addr, T)   memory read cycle (opcode fetch: T = 4)
           ('W', addr, T)   memory write cycle
           ('I', addr)      one internal T-state carrying addr on the bus (no MREQ)
           ('IOR', port) / ('IOW', port)   4-T port cycle
           ('IR',)          one internal T-state carrying IR (compared by class, see rules)
  predicate(env) -> 1-bit term that is true exactly when the variant is taken;
           env['reads'] = list of the byte terms returned by the R events so far.
"""
import sys
import os

sys.path.insert(0, os.path.dirname(os.path.dirname(os.path.abspath(__file__))))
from zx import term as tm  # noqa: E402
from zx.term import K  # noqa: E402

PC = tm.sym("PC", 16)
SP = tm.sym("SP", 16)
A = tm.sym("A", 8)
F = tm.sym("F", 8)
I = tm.sym("I", 8)
R = tm.sym("R", 8)
BC = tm.sym("BC", 16)
DE = tm.sym("DE", 16)
HL = tm.sym("HL", 16)
IX = tm.sym("IX", 16)
IY = tm.sym("IY", 16)
B = tm.hi8(BC)
C = tm.lo8(BC)

FLAG_C, FLAG_N, FLAG_PV, FLAG_3, FLAG_H, FLAG_5, FLAG_Z, FLAG_S = 1, 2, 4, 8, 16, 32, 64, 128


def pc(k):
    return tm.binop("add", PC, K(k, 16))


def op(k):
    """operand byte at PC0 + k"""
    return tm.sym("op%d" % k, 8)


def add16(x, k):
    return tm.binop("add", x, K(k, 16))


def disp(k):
    return tm.sext(op(k), 16)


GROUPS = ("main", "cb", "ed", "dd", "fd", "ddcb", "fdcb")


def encoding_bytes(group, opc):
    if group == "main":
        return [opc]
    if group == "cb":
        return [0xCB, opc]
    if group == "ed":
        return [0xED, opc]
    if group == "dd":
        return [0xDD, opc]
    if group == "fd":
        return [0xFD, opc]
    if group == "ddcb":
        return [0xDD, 0xCB, None, opc]
    if group == "fdcb":
        return [0xFD, 0xCB, None, opc]
    raise KeyError(group)


def all_encodings():
    for g in GROUPS:
        for o in range(256):
            yield g, o


def is_prefix_byte(group, opc):
    """encodings that only select another page; their bus behaviour is part of that page's rows"""
    if group == "main":
        return opc in (0xCB, 0xDD, 0xED, 0xFD)
    if group in ("dd", "fd"):
        return opc in (0xCB, 0xDD, 0xED, 0xFD)
    return False


# condition codes: NZ Z NC C PO PE P M
CC = [(FLAG_Z, 0), (FLAG_Z, 1), (FLAG_C, 0), (FLAG_C, 1), (FLAG_PV, 0), (FLAG_PV, 1), (FLAG_S, 0), (FLAG_S, 1)]


def cc_pred(i):
    bit, want = CC[i]

    def p(env):
        t = tm.cmp("ne", tm.binop("and", F, K(bit, 8)), K(0, 8))
        return t if want else tm.unop("not", t)
    return p


def negate(p):
    return lambda env: tm.unop("not", p(env))


def b_minus_1_nz(env):
    return tm.cmp("ne", tm.binop("sub", B, K(1, 8)), K(0, 8))


def bc_minus_1_nz(env):
    return tm.cmp("ne", tm.binop("sub", BC, K(1, 16)), K(0, 16))


def cpir_repeat(env):
    m = env["reads"][-1]
    return tm.binop("and", bc_minus_1_nz(env), tm.cmp("ne", tm.binop("sub", A, m), K(0, 8)))


def fetch(k):
    return ("R", pc(k), 4)


def rd(addr):
    return ("R", addr, 3)


def wr(addr):
    return ("W", addr, 3)


def internal(addr, n):
    return [("I", addr)] * n


def ir(n):
    return [("IR",)] * n


def both(events):
    return [("-", None, events)]


def cond(p, not_taken, taken):
    return [("not-taken", negate(p), not_taken), ("taken", p, taken)]


def main_page(opc, base, ii):
    """Unprefixed page; base = offset of the opcode byte from PC0 (1 when DD/FD prefixed);
    ii = None | IX | IY (index register substituted for HL)."""
    x, y, z = opc >> 6, (opc >> 3) & 7, opc & 7
    p, q = y >> 1, y & 1
    o = base  # offset of opcode byte
    hl = ii if ii is not None else HL
    n1, n2 = o + 1, o + 2

    def nn(k):
        return tm.join16(op(k + 1), op(k))

    def mem_operand():
        """events to form the (HL)/(ii+d) address and that address; returns (pre_events, addr, next_offset)"""
        if ii is None:
            return [], HL, n1
        return [rd(pc(n1))] + internal(pc(n1), 5), tm.binop("add", ii, disp(n1)), n2

    if x == 0:
        if z == 0:
            if y in (0, 1):
                return both([])
            if y == 2:
                e = ir(1) + [rd(pc(n1))]
                return cond(b_minus_1_nz, e, e + internal(pc(n1), 5))
            if y == 3:
                return both([rd(pc(n1))] + internal(pc(n1), 5))
            e = [rd(pc(n1))]
            return cond(cc_pred(y - 4), e, e + internal(pc(n1), 5))
        if z == 1:
            if q == 0:
                return both([rd(pc(n1)), rd(pc(n2))])
            return both(ir(7))
        if z == 2:
            if p == 0:
                return both([wr(BC)] if q == 0 else [rd(BC)])
            if p == 1:
                return both([wr(DE)] if q == 0 else [rd(DE)])
            a = nn(n1)
            if p == 2:
                f = wr if q == 0 else rd
                return both([rd(pc(n1)), rd(pc(n2)), f(a), f(add16(a, 1))])
            f = wr if q == 0 else rd
            return both([rd(pc(n1)), rd(pc(n2)), f(a)])
        if z == 3:
            return both(ir(2))
        if z in (4, 5):
            if y == 6:
                pre, a, _ = mem_operand()
                return both(pre + [rd(a)] + internal(a, 1) + [wr(a)])
            return both([])
        if z == 6:
            if y == 6:
                if ii is None:
                    return both([rd(pc(n1)), wr(HL)])
                a = tm.binop("add", ii, disp(n1))
                return both([rd(pc(n1)), rd(pc(n2))] + internal(pc(n2), 2) + [wr(a)])
            return both([rd(pc(n1))])
        return both([])
    if x == 1:
        if y == 6 and z == 6:
            return both([])  # HALT
        if z == 6:
            pre, a, _ = mem_operand()
            return both(pre + [rd(a)])
        if y == 6:
            pre, a, _ = mem_operand()
            return both(pre + [wr(a)])
        return both([])
    if x == 2:
        if z == 6:
            pre, a, _ = mem_operand()
            return both(pre + [rd(a)])
        return both([])
    # x == 3
    if z == 0:
        return cond(cc_pred(y), ir(1), ir(1) + [rd(SP), rd(add16(SP, 1))])
    if z == 1:
        if q == 0:
            return both([rd(SP), rd(add16(SP, 1))])
        if p == 0:
            return both([rd(SP), rd(add16(SP, 1))])
        if p == 1:
            return both([])
        if p == 2:
            return both([])
        return both(ir(2))
    if z == 2:
        return both([rd(pc(n1)), rd(pc(n2))])
    if z == 3:
        if y == 0:
            return both([rd(pc(n1)), rd(pc(n2))])
        if y == 1:
            return None  # CB prefix
        if y == 2:
            return both([rd(pc(n1)), ("IOW", tm.join16(A, op(n1)))])
        if y == 3:
            return both([rd(pc(n1)), ("IOR", tm.join16(A, op(n1)))])
        if y == 4:
            s1 = add16(SP, 1)
            return both([rd(SP), rd(s1)] + internal(s1, 1) + [wr(s1), wr(SP)] + internal(SP, 2))
        return both([])
    if z == 4:
        e = [rd(pc(n1)), rd(pc(n2))]
        t = e + internal(pc(n2), 1) + [wr(add16(SP, -1)), wr(add16(SP, -2))]
        return cond(cc_pred(y), e, t)
    if z == 5:
        if q == 0:
            return both(ir(1) + [wr(add16(SP, -1)), wr(add16(SP, -2))])
        if p == 0:
            return both([rd(pc(n1)), rd(pc(n2))] + internal(pc(n2), 1) + [wr(add16(SP, -1)), wr(add16(SP, -2))])
        return None  # DD / ED / FD prefixes
    if z == 6:
        return both([rd(pc(n1))])
    return both(ir(1) + [wr(add16(SP, -1)), wr(add16(SP, -2))])


def ed_page(opc):
    x, y, z = opc >> 6, (opc >> 3) & 7, opc & 7
    p, q = y >> 1, y & 1
    if x == 1:
        if z == 0:
            return both([("IOR", BC)])
        if z == 1:
            return both([("IOW", BC)])
        if z == 2:
            return both(ir(7))
        if z == 3:
            a = tm.join16(op(3), op(2))
            f = wr if q == 0 else rd
            return both([rd(pc(2)), rd(pc(3)), f(a), f(add16(a, 1))])
        if z == 4:
            return both([])
        if z == 5:
            return both([rd(SP), rd(add16(SP, 1))])
        if z == 6:
            return both([])
        if y < 4:
            return both(ir(1))
        if y in (4, 5):
            return both([rd(HL)] + internal(HL, 4) + [wr(HL)])
        return both([])
    if x == 2 and z <= 3 and y >= 4:
        rep = y >= 6
        if z == 0:  # LDI LDD LDIR LDDR
            e = [rd(HL), wr(DE)] + internal(DE, 2)
            if not rep:
                return both(e)
            return cond(bc_minus_1_nz, e, e + internal(DE, 5))
        if z == 1:  # CPI CPD CPIR CPDR
            e = [rd(HL)] + internal(HL, 5)
            if not rep:
                return both(e)
            return cond(cpir_repeat, e, e + internal(HL, 5))
        if z == 2:  # INI IND INIR INDR
            e = ir(1) + [("IOR", BC), wr(HL)]
            if not rep:
                return both(e)
            return cond(b_minus_1_nz, e, e + internal(HL, 5))
        # OUTI OUTD OTIR OTDR: B is decremented before the port cycle
        bc2 = tm.join16(tm.binop("sub", B, K(1, 8)), C)
        e = ir(1) + [rd(HL), ("IOW", bc2)]
        if not rep:
            return both(e)
        return cond(b_minus_1_nz, e, e + internal(bc2, 5))
    return both([])


def cb_page(opc, base, ii):
    x, y, z = opc >> 6, (opc >> 3) & 7, opc & 7
    if ii is None:
        if z != 6:
            return both([])
        if x == 1:
            return both([rd(HL)] + internal(HL, 1))
        return both([rd(HL)] + internal(HL, 1) + [wr(HL)])
    # DDCB / FDCB: PC+2 = displacement, PC+3 = opcode (read as data, 3 T), two internal states
    a = tm.binop("add", ii, disp(2))
    e = [rd(a)] + internal(a, 1)
    if x != 1:
        e = e + [wr(a)]
    return both(e)


def timing(group, opc):
    """Complete expected bus trace(s) of one encoding, from the first opcode fetch."""
    if group == "main":
        v = main_page(opc, 0, None)
        if v is None:
            return None
        return [(n, p, [fetch(0)] + e) for (n, p, e) in v]
    if group in ("dd", "fd"):
        ii = IX if group == "dd" else IY
        if opc in (0xDD, 0xED, 0xFD):
            # prefix followed by another prefix: both bytes fetched, nothing else happens in this step
            return [("-", None, [fetch(0), fetch(1)])]
        if opc == 0xCB:
            return None
        v = main_page(opc, 1, ii)
        return [(n, p, [fetch(0), fetch(1)] + e) for (n, p, e) in v]
    if group == "cb":
        v = cb_page(opc, 1, None)
        return [(n, p, [fetch(0), fetch(1)] + e) for (n, p, e) in v]
    if group == "ed":
        v = ed_page(opc)
        return [(n, p, [fetch(0), fetch(1)] + e) for (n, p, e) in v]
    if group in ("ddcb", "fdcb"):
        ii = IX if group == "ddcb" else IY
        v = cb_page(opc, 3, ii)
        pre = [fetch(0), fetch(1), rd(pc(2)), rd(pc(3))] + internal(pc(3), 2)
        return [(n, p, pre + e) for (n, p, e) in v]
    raise KeyError(group)


def tstates(events):
    t = 0
    for e in events:
        if e[0] in ("R", "W"):
            t += e[2]
        elif e[0] in ("I", "IR"):
            t += 1
        elif e[0] in ("IOR", "IOW"):
            t += 4
    return t


# Documented totals (Zilog manual), used as a self-check of the generator above: a few dozen anchor rows.
DOC_TOTALS = {
    ("main", 0x00): (4,), ("main", 0x01): (10,), ("main", 0x02): (7,), ("main", 0x03): (6,), ("main", 0x04): (4,),
    ("main", 0x06): (7,), ("main", 0x09): (11,), ("main", 0x10): (8, 13), ("main", 0x18): (12,),
    ("main", 0x20): (7, 12), ("main", 0x22): (16,), ("main", 0x2A): (16,), ("main", 0x32): (13,),
    ("main", 0x34): (11,), ("main", 0x36): (10,), ("main", 0x3A): (13,), ("main", 0x46): (7,), ("main", 0x70): (7,),
    ("main", 0x76): (4,), ("main", 0x86): (7,), ("main", 0xC0): (5, 11), ("main", 0xC1): (10,), ("main", 0xC2): (10,),
    ("main", 0xC3): (10,), ("main", 0xC4): (10, 17), ("main", 0xC5): (11,), ("main", 0xC6): (7,), ("main", 0xC7): (11,),
    ("main", 0xC9): (10,), ("main", 0xCD): (17,), ("main", 0xD3): (11,), ("main", 0xDB): (11,), ("main", 0xE3): (19,),
    ("main", 0xE9): (4,), ("main", 0xF9): (6,), ("main", 0xEB): (4,),
    ("cb", 0x00): (8,), ("cb", 0x06): (15,), ("cb", 0x46): (12,), ("cb", 0x86): (15,), ("cb", 0xC6): (15,),
    ("ed", 0x40): (12,), ("ed", 0x41): (12,), ("ed", 0x42): (15,), ("ed", 0x43): (20,), ("ed", 0x44): (8,),
    ("ed", 0x45): (14,), ("ed", 0x46): (8,), ("ed", 0x47): (9,), ("ed", 0x4B): (20,), ("ed", 0x4D): (14,),
    ("ed", 0x57): (9,), ("ed", 0x67): (18,), ("ed", 0x6F): (18,), ("ed", 0xA0): (16,), ("ed", 0xA1): (16,),
    ("ed", 0xA2): (16,), ("ed", 0xA3): (16,), ("ed", 0xB0): (16, 21), ("ed", 0xB1): (16, 21), ("ed", 0xB2): (16, 21),
    ("ed", 0xB3): (16, 21), ("ed", 0xB8): (16, 21), ("ed", 0x00): (8,), ("ed", 0xFF): (8,),
    ("dd", 0x09): (15,), ("dd", 0x21): (14,), ("dd", 0x22): (20,), ("dd", 0x23): (10,), ("dd", 0x34): (23,),
    ("dd", 0x36): (19,), ("dd", 0x46): (19,), ("dd", 0x70): (19,), ("dd", 0x86): (19,), ("dd", 0xE1): (14,),
    ("dd", 0xE3): (23,), ("dd", 0xE5): (15,), ("dd", 0xE9): (8,), ("dd", 0xF9): (10,), ("dd", 0x00): (8,),
    ("fd", 0x7E): (19,), ("fd", 0x77): (19,),
    ("ddcb", 0x06): (23,), ("ddcb", 0x46): (20,), ("ddcb", 0x86): (23,), ("ddcb", 0xC6): (23,), ("ddcb", 0x00): (23,),
    ("fdcb", 0x7E): (20,),
}


def self_check():
    bad = []
    for (g, o), tot in DOC_TOTALS.items():
        v = timing(g, o)
        got = tuple(sorted(tstates(e) for (_, _, e) in v))
        if got != tuple(sorted(tot)):
            bad.append((g, hex(o), got, tot))
    return bad


if __name__ == "__main__":
    print(self_check())
